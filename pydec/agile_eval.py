"""Independent MS-OFFCRYPTO agile decryptor, organised as an *interpreter of the terms printed by
the specification* (spec/Agile.tla: Prog, Vectors).  python3 stdlib only.

This module contains no knowledge of the encryption scheme beyond the meaning of the term
operators (H, Spin, Fit, Enc/Dec = AES-CBC without padding, Hmac, LE32, ...): which fields are
hashed, which block keys, IVs, segment size, length prefix etc. all come from the program that TLC
prints.  SHA-*/HMAC are hashlib/hmac, AES is OpenSSL (libcrypto through ctypes, else the `openssl
enc` command); both are checked against the NIST SP 800-38A vector at import.

It never judges: observe_file() returns values (hex strings, lengths, digests); the verdict is
TLC's (spec/Trace_Agile.tla).
"""
import base64, ctypes, ctypes.util, hashlib, hmac as _hmac, io, json, os, shutil, struct, subprocess, zipfile
import xml.etree.ElementTree as ET

try:
    from . import cfb
except ImportError:            # run as a script / from a worker process
    import cfb

ENC_NS = "http://schemas.microsoft.com/office/2006/encryption"
PWD_NS = "http://schemas.microsoft.com/office/2006/keyEncryptor/password"
HASHES = {"SHA1": "sha1", "SHA-1": "sha1", "SHA256": "sha256", "SHA384": "sha384", "SHA512": "sha512", "MD5": "md5"}


class Malformed(Exception):
    """The file is not something a decryptor of the standard can process (reason in args[0])."""


class EvalError(Exception):
    pass


# ---------------------------------------------------------------------------------------------
# AES-CBC without padding
# ---------------------------------------------------------------------------------------------
_lib = None


def _load_libcrypto():
    global _lib
    name = ctypes.util.find_library("crypto")
    if not name:
        return False
    try:
        lib = ctypes.CDLL(name)
        V = ctypes.c_void_p
        lib.EVP_CIPHER_CTX_new.restype = V
        lib.EVP_CIPHER_CTX_free.argtypes = [V]
        for n in ("EVP_aes_128_cbc", "EVP_aes_192_cbc", "EVP_aes_256_cbc"):
            getattr(lib, n).restype = V
        lib.EVP_CipherInit_ex.argtypes = [V, V, V, ctypes.c_char_p, ctypes.c_char_p, ctypes.c_int]
        lib.EVP_CIPHER_CTX_set_padding.argtypes = [V, ctypes.c_int]
        lib.EVP_CipherUpdate.argtypes = [V, ctypes.c_char_p, ctypes.POINTER(ctypes.c_int), ctypes.c_char_p, ctypes.c_int]
        lib.EVP_CipherFinal_ex.argtypes = [V, ctypes.c_char_p, ctypes.POINTER(ctypes.c_int)]
        _lib = lib
        return True
    except (OSError, AttributeError):
        _lib = None
        return False


def _aes_ctypes(key, iv, data, enc):
    lib = _lib
    cipher = getattr(lib, "EVP_aes_%d_cbc" % (len(key) * 8))()
    ctx = lib.EVP_CIPHER_CTX_new()
    try:
        if lib.EVP_CipherInit_ex(ctx, cipher, None, key, iv, 1 if enc else 0) != 1:
            raise EvalError("EVP_CipherInit_ex failed")
        lib.EVP_CIPHER_CTX_set_padding(ctx, 0)
        out = ctypes.create_string_buffer(len(data) + 32)
        n1, n2 = ctypes.c_int(0), ctypes.c_int(0)
        if lib.EVP_CipherUpdate(ctx, out, ctypes.byref(n1), data, len(data)) != 1:
            raise EvalError("EVP_CipherUpdate failed")
        rest = ctypes.create_string_buffer(32)
        if lib.EVP_CipherFinal_ex(ctx, rest, ctypes.byref(n2)) != 1:
            raise EvalError("EVP_CipherFinal_ex failed")
        return out.raw[:n1.value] + rest.raw[:n2.value]
    finally:
        lib.EVP_CIPHER_CTX_free(ctx)


def _aes_cli(key, iv, data, enc):
    exe = shutil.which("openssl")
    if not exe:
        raise EvalError("no AES implementation: neither libcrypto nor the openssl command is available")
    cmd = [exe, "enc", "-aes-%d-cbc" % (len(key) * 8), "-nopad", "-K", key.hex(), "-iv", iv.hex()]
    if not enc:
        cmd.append("-d")
    p = subprocess.run(cmd, input=data, stdout=subprocess.PIPE, stderr=subprocess.PIPE)
    if p.returncode != 0:
        raise EvalError("openssl enc failed: " + p.stderr.decode("latin1")[:200])
    return p.stdout


_NIST = (bytes.fromhex("603deb1015ca71be2b73aef0857d77811f352c073b6108d72d9810a30914dff4"),
         bytes.fromhex("000102030405060708090a0b0c0d0e0f"),
         bytes.fromhex("6bc1bee22e409f96e93d7e117393172aae2d8a571e03ac9c9eb76fac45af8e51"),
         bytes.fromhex("f58c4c04d6e5f1ba779eabfb5f7bfbd69cfc4e967edb808d679f777bc6702c7d"))
_backend = None


def _pick_backend():
    global _backend
    if _backend:
        return _backend
    k, iv, pt, ct = _NIST
    cands = []
    if _load_libcrypto():
        cands.append(_aes_ctypes)
    cands.append(_aes_cli)
    for f in cands:
        try:
            if f(k, iv, pt, True) == ct and f(k, iv, ct, False) == pt:
                _backend = f
                return f
        except EvalError:
            continue
    raise EvalError("no working AES-CBC implementation (NIST SP 800-38A F.2.5 vector failed)")


def aes_cbc(key, iv, data, enc):
    if len(key) not in (16, 24, 32):
        raise EvalError(f"AES key of {len(key)} bytes")
    if len(iv) != 16:
        raise EvalError(f"IV of {len(iv)} bytes")
    if len(data) % 16:
        raise EvalError(f"AES-CBC input of {len(data)} bytes is not a multiple of the block size")
    if not data:
        return b""
    return _pick_backend()(key, iv, data, enc)


# ---------------------------------------------------------------------------------------------
# term interpreter
# ---------------------------------------------------------------------------------------------
class Node:
    __slots__ = ("op", "args", "closed", "val", "has")

    def __init__(self, op, args):
        self.op, self.args = op, args
        self.closed = op != "var" and all(a.closed for a in args if isinstance(a, Node))
        self.has = False
        self.val = None


class Program:
    """Terms as printed by TLC (JSON arrays, operator name first), with identical sub-terms shared
    so that e.g. the 100000-fold hash is computed once per (password, salt)."""

    def __init__(self, terms):
        self.table = {}
        self.roots = {k: self.build(v) for k, v in terms.items()}

    def build(self, t):
        if not isinstance(t, list):
            return t
        if t and isinstance(t[0], list):          # a sequence of terms (argument of CatL)
            args = tuple(self.build(x) for x in t)
            key = ("#seq",) + tuple(id(a) for a in args)
            if key not in self.table:
                self.table[key] = Node("#seq", args)
            return self.table[key]
        if not t:
            key = ("#seq",)
            if key not in self.table:
                self.table[key] = Node("#seq", ())
            return self.table[key]
        args = tuple(self.build(x) for x in t[1:])
        key = (t[0],) + tuple(id(a) if isinstance(a, Node) else a for a in args)
        if key not in self.table:
            self.table[key] = Node(t[0], args)
        return self.table[key]

    def reset(self):
        for n in self.table.values():
            n.has, n.val = False, None


class Env:
    """fields: name -> bytes; params: (domain, name) -> int; hashes/: domain -> hashlib name;
    pwd: candidate password (str); atoms: name -> bytes (vector checks)."""

    def __init__(self, fields=None, params=None, hashes=None, pwd=None, atoms=None):
        self.fields, self.params, self.hashes = fields or {}, params or {}, hashes or {"k": "sha512", "p": "sha512"}
        self.pwd, self.atoms = pwd, atoms or {}


def ev(n, env, vars_=None):
    if not isinstance(n, Node):
        return n
    if n.closed and n.has:
        return n.val
    v = _ev(n, env, vars_ or {})
    if n.closed:
        n.has, n.val = True, v
    return v


def _hash(env, d, data):
    return hashlib.new(env.hashes[d], data).digest()


def _ev(n, env, vs):
    op, a = n.op, n.args
    E = lambda x: ev(x, env, vs)
    if op == "int":
        return a[0]
    if op == "var":
        return vs[a[0]]
    if op == "prm":
        try:
            return env.params[(a[0], a[1])]
        except KeyError:
            raise EvalError(f"parameter {a[0]}.{a[1]} is not known")
    if op == "Add":
        return E(a[0]) + E(a[1])
    if op == "Mul":
        return E(a[0]) * E(a[1])
    if op == "Sub":
        return max(0, E(a[0]) - E(a[1]))
    if op == "Min":
        return min(E(a[0]), E(a[1]))
    if op == "CeilDiv":
        return -(-E(a[0]) // E(a[1]))
    if op == "Len":
        return len(E(a[0]))
    if op == "UnLE64":
        x = E(a[0])
        if len(x) != 8:
            raise EvalError(f"UnLE64 of {len(x)} bytes (stream shorter than its length prefix)")
        return struct.unpack("<Q", x)[0]
    if op == "fld":
        return env.fields[a[0]]
    if op == "pwd":
        return env.pwd
    if op == "pw":
        return a[0]
    if op == "atom":
        return env.atoms[a[0]]
    if op == "hex":
        return bytes.fromhex(a[0])
    if op == "H":
        return _hash(env, a[0], E(a[1]))
    if op == "Cat":
        return E(a[0]) + E(a[1])
    if op == "CatL":
        return b"".join(E(x) for x in a[0].args)
    if op == "LE32":
        return struct.pack("<I", E(a[0]))
    if op == "LE64":
        return struct.pack("<Q", E(a[0]))
    if op == "U16":
        return E(a[0]).encode("utf-16-le", "surrogatepass")
    if op == "Spin":
        cnt, h = E(a[1]), E(a[2])
        alg = env.hashes[a[0]]
        new = hashlib.new
        for i in range(cnt):
            h = new(alg, i.to_bytes(4, "little") + h).digest()
        return h
    if op == "Fit":
        x, k = E(a[0]), E(a[1])
        return x[:k] if len(x) >= k else x + b"\x36" * (k - len(x))
    if op == "Take":
        x, k = E(a[0]), E(a[1])
        if k > len(x):
            raise EvalError(f"Take({k}) of {len(x)} bytes")
        return x[:k]
    if op == "Enc":
        return aes_cbc(E(a[1]), E(a[2]), E(a[3]), True)
    if op == "Dec":
        return aes_cbc(E(a[1]), E(a[2]), E(a[3]), False)
    if op == "Hmac":
        return _hmac.new(E(a[1]), E(a[2]), env.hashes[a[0]]).digest()
    if op == "PadZero":
        x, b = E(a[0]), E(a[1])
        return x + b"\0" * (-len(x) % b)
    if op == "Slice":
        x, i, j = E(a[0]), E(a[1]), E(a[2])
        if not (0 <= i <= j <= len(x)):
            raise EvalError(f"Slice({i},{j}) of {len(x)} bytes")
        return x[i:j]
    if op == "CatFor":
        cnt = E(a[1])
        out = []
        for i in range(cnt):
            out.append(ev(a[2], env, dict(vs, **{a[0]: i})))
        return b"".join(out)
    raise EvalError("unknown operator " + str(op))


# ---------------------------------------------------------------------------------------------
# EncryptionInfo
# ---------------------------------------------------------------------------------------------
def _int_attr(el, name, lo, hi):
    v = el.get(name)
    if v is None or not v.isdigit():
        raise Malformed(f"{el.tag.split('}')[-1]}@{name} missing or not a number")
    v = int(v)
    if not lo <= v <= hi:
        raise Malformed(f"{el.tag.split('}')[-1]}@{name}={v} outside {lo}..{hi}")
    return v


def _b64_attr(el, name):
    v = el.get(name)
    if v is None:
        raise Malformed(f"{el.tag.split('}')[-1]}@{name} missing")
    try:
        return base64.b64decode(v, validate=True)
    except Exception:
        raise Malformed(f"{el.tag.split('}')[-1]}@{name} is not base64")


def _crypto_params(el, dom, params, hashes):
    salt_size = _int_attr(el, "saltSize", 1, 65536)
    block = _int_attr(el, "blockSize", 2, 4096)
    key_bits = _int_attr(el, "keyBits", 8, 1 << 20)
    hash_size = _int_attr(el, "hashSize", 1, 65536)
    calg, chain, halg = el.get("cipherAlgorithm"), el.get("cipherChaining"), el.get("hashAlgorithm")
    if calg != "AES" or chain != "ChainingModeCBC":
        raise Malformed(f"unsupported cipher {calg}/{chain} (this decryptor implements AES-CBC)")
    if key_bits not in (128, 192, 256):
        raise Malformed(f"AES with keyBits={key_bits}")
    if block != 16:
        raise Malformed(f"AES with blockSize={block}")
    if halg not in HASHES:
        raise Malformed(f"unsupported hash algorithm {halg}")
    if hashlib.new(HASHES[halg]).digest_size != hash_size:
        raise Malformed(f"hashSize={hash_size} does not fit {halg}")
    salt = _b64_attr(el, "saltValue")
    if len(salt) != salt_size:
        raise Malformed(f"saltValue has {len(salt)} bytes, saltSize={salt_size}")
    params[(dom, "saltSize")], params[(dom, "blockSize")] = salt_size, block
    params[(dom, "keyBytes")], params[(dom, "hashSize")] = key_bits // 8, hash_size
    hashes[dom] = HASHES[halg]
    return salt


def parse_encryption_info(data):
    """-> (fields, params, hashes); Malformed if an implementation of the standard could not use it."""
    if len(data) < 8:
        raise Malformed("EncryptionInfo shorter than its header")
    major, minor, flags = struct.unpack_from("<HHI", data, 0)
    if (major, minor) != (4, 4) or flags != 0x40:
        raise Malformed(f"EncryptionInfo version {major}.{minor} flags {flags:#x}: not agile encryption")
    try:
        root = ET.fromstring(data[8:])
    except ET.ParseError as e:
        raise Malformed("EncryptionInfo XML is not well-formed: " + str(e))
    if root.tag != f"{{{ENC_NS}}}encryption":
        raise Malformed("root element is " + root.tag)
    kd = root.find(f"{{{ENC_NS}}}keyData")
    di = root.find(f"{{{ENC_NS}}}dataIntegrity")
    kes = root.find(f"{{{ENC_NS}}}keyEncryptors")
    if kd is None or di is None or kes is None:
        raise Malformed("keyData / dataIntegrity / keyEncryptors missing")
    ek = None
    for ke in kes.findall(f"{{{ENC_NS}}}keyEncryptor"):
        if ke.get("uri") == PWD_NS:
            ek = ke.find(f"{{{PWD_NS}}}encryptedKey")
            break
    if ek is None:
        raise Malformed("no password key encryptor")
    params, hashes, fields = {}, {}, {}
    fields["pkgSalt"] = _crypto_params(kd, "p", params, hashes)
    fields["keySalt"] = _crypto_params(ek, "k", params, hashes)
    params[("k", "spinCount")] = _int_attr(ek, "spinCount", 0, 10000000)
    fields["encHmacKey"] = _b64_attr(di, "encryptedHmacKey")
    fields["encHmacVal"] = _b64_attr(di, "encryptedHmacValue")
    fields["encVerIn"] = _b64_attr(ek, "encryptedVerifierHashInput")
    fields["encVerVal"] = _b64_attr(ek, "encryptedVerifierHashValue")
    fields["encKey"] = _b64_attr(ek, "encryptedKeyValue")
    return fields, params, hashes


# ---------------------------------------------------------------------------------------------
# observation of one encrypted file
# ---------------------------------------------------------------------------------------------
def utf16_units(s):
    return len(s.encode("utf-16-le", "surrogatepass")) // 2


def _zip_parts(b):
    """(names in order, {name: bytes}) if b is exactly one zip archive (nothing after the end record)."""
    if len(b) < 22 or b[-22:-18] != b"PK\x05\x06" or b[-2:] != b"\0\0":
        return None
    try:
        z = zipfile.ZipFile(io.BytesIO(b))
        names = z.namelist()
        return names, {n: z.read(n) for n in names}
    except Exception:
        return None


def _sha(b):
    return hashlib.sha256(b).hexdigest()


def observe_file(program, enc_path, pw, wrong_pws, ref_path, ref2_path):
    """Open the compound file, run the specification's decryptor program with `pw` (all outputs) and
    with every password of `wrong_pws` (verifier only).  All fields always have the same type."""
    obs = {"malformed": "", "ver": ["", ""], "mac": ["", ""], "declared": 0, "streamlen": 0,
           "plain_sha": "", "plain_len": 0, "ref_sha": "", "ref_len": 0, "ref2_sha": "", "ref2_len": 0,
           "parts_ok": False, "units": utf16_units(pw),
           "nonces": {"keySalt": "", "pkgSalt": "", "pkgKey": "", "verIn": "", "hmacKey": ""}, "wrong": [],
           "spin": 0, "streams": []}
    try:
        ref = open(ref_path, "rb").read()
        ref2 = open(ref2_path, "rb").read()
    except OSError as e:
        obs["malformed"] = "reference package missing: " + str(e)
        return obs
    obs["ref_sha"], obs["ref_len"], obs["ref2_sha"], obs["ref2_len"] = _sha(ref), len(ref), _sha(ref2), len(ref2)
    try:
        try:
            data = open(enc_path, "rb").read()
        except OSError as e:
            raise Malformed("no output file: " + str(e))
        try:
            streams = cfb.read_cfb(data)
        except cfb.CfbError as e:
            raise Malformed("compound file: " + str(e))
        obs["streams"] = sorted(ascii(k)[1:-1] for k in streams)      # informational (not judged)
        if "EncryptionInfo" not in streams or "EncryptedPackage" not in streams:
            raise Malformed("streams EncryptionInfo / EncryptedPackage missing; found " + ",".join(sorted(streams)))
        fields, params, hashes = parse_encryption_info(streams["EncryptionInfo"])
        fields["stream"] = streams["EncryptedPackage"]
        obs["streamlen"] = len(fields["stream"])
        obs["spin"] = params[("k", "spinCount")]
        prog = Program(program)
        env = Env(fields=fields, params=params, hashes=hashes, pwd=pw)
        R = prog.roots
        try:
            obs["ver"] = [ev(R["verLhs"], env).hex(), ev(R["verRhs"], env).hex()]
            for k in obs["nonces"]:
                obs["nonces"][k] = ev(R[k], env).hex()
            obs["mac"] = [ev(R["macLhs"], env).hex(), ev(R["macRhs"], env).hex()]
            declared = ev(R["declared"], env)
            if declared >= 1 << 31:
                raise EvalError(f"declared length {declared} is absurd")
            obs["declared"] = declared
            plain = ev(R["plain"], env)
        except EvalError as e:
            raise Malformed("decryption impossible: " + str(e))
        obs["plain_sha"], obs["plain_len"] = _sha(plain), len(plain)
        if obs["ref_sha"] == obs["ref2_sha"]:
            obs["parts_ok"] = plain == ref
        else:
            # the save was not pure (cf. C12): the references taken before and after differ;
            # compare every part that is the same in both references
            zp, z1, z2 = _zip_parts(plain), _zip_parts(ref), _zip_parts(ref2)
            obs["parts_ok"] = bool(zp and z1 and z2 and zp[0] == z1[0] == z2[0] and
                                   all(zp[1][n] == z1[1][n] for n in z1[0] if z1[1][n] == z2[1][n]))
        for w in wrong_pws:
            prog.reset()
            envw = Env(fields=fields, params=params, hashes=hashes, pwd=w)
            try:
                pair = [ev(R["verLhs"], envw).hex(), ev(R["verRhs"], envw).hex()]
            except EvalError as e:
                raise Malformed("verifier not computable: " + str(e))
            obs["wrong"].append({"pw": w, "units": utf16_units(w), "ver": pair})
    except Malformed as e:
        obs["malformed"] = str(e.args[0])[:300]
    return obs


def check_vectors(vector_terms):
    """Evaluate the specification's *encryption-side* terms on the values pinned in the repository's
    own test (src/helper/crypt.rs test_encrypt, originally from the reference implementation) and
    return a list of disagreements (empty = the interpreter and the terms reproduce them)."""
    atoms = {"keySalt": bytes.fromhex("3aa973eec73c98c4710021730ef5b513"),
             "pkgSalt": bytes.fromhex("4c251b321d85cecfcb6d952ba6d81846"),
             "pkgKey": bytes.fromhex("cdf9defae2480933c503350e16334453d1cb8348bb2fea585db7f9e1f78fe9bf"),
             "hmacKey": bytes.fromhex("4c6e4db6d9a60e5d41c3ca639a682aaa71da7437202fe92ec5d814bd1e9e4e6a831aee889eae3bc18bc1bebedae1f733"
                                      "93fddfffd0a0b6c557485fefcdb5e98b")}
    want = {"key": "8d5869311b1c1fdb59a1de6fe1e6f2ce7dccd4deb198a6dfb1f7fb55bc03487d",
            "verInKey": "44e4b664c512b08e7577aa3fc7e11ad603e0877a476931fad5aa79e203304aff",
            "encKey": "5017ddc6146e56dfbf76734b3e99b80f36a4c9a2e9eb21fe77695f73850cc452",
            "ivHmacKey": "ba1bf00eed82b07ee65e574eb1f46043",
            "ivHmacVal": "088385b871292e7ed8414f173c5b6622",
            "encHmacKey": "b32b1cdc4ac1af244377c1eb57efd31a819f555a7204adcc0cfe364b394bbdb086a8daef4f4c512d52e3db6a54b1d45e"
                          "1dd1dbfa3ddacc29fe35449ba5225dc7"}
    prog = Program(vector_terms)
    env = Env(atoms=atoms)
    bad = []
    for k, w in want.items():
        if k not in prog.roots:
            bad.append(f"{k}: not printed by the specification")
            continue
        got = ev(prog.roots[k], env).hex()
        if got != w:
            bad.append(f"{k}: evaluated {got}, pinned {w}")
    return bad


def observe_job(job):
    """Worker entry point (multiprocessing): job = (program, enc, pw, wrong, ref, ref2)."""
    return observe_file(*job)
