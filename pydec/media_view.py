"""Independent view of the drawing layer of an xlsx package for X03 (python3 stdlib only, on top of pydec/xlsx.py).

view(data: bytes) -> {
  "ok":     bool     the bytes are a readable zip archive with a well-formed [Content_Types].xml and a workbook part
  "bad":    [str]    complaints about the package as far as drawings, charts and media are concerned (sorted, distinct):
      "dup:<entry>"                 a zip member name occurs twice
      "xml:<part>"                  an XML part (by content type / extension) is not well-formed
      "target:<rels part>-><part>"  an internal relationship target is not in the package
      "source:<rels part>"          a relationship part whose source part is not in the package
      "notype:<part>"               a part covered neither by an Override nor by a Default
      "type:<part>=<type>"          a drawing / chart / picture part with a content type of another family
      "orphan:<part>"               a drawing / chart / image part that no relationship points to
      "shared:<part>x<n>"           a drawing part used by n > 1 sheets, a chart part used by n > 1 graphic frames
      "rid:<part>:<rid>"            an r:id / r:embed / r:link used in a sheet's <drawing> or inside a drawing part that
                                    the part's own relationship part does not define, or that has the wrong kind
  "badk":   [str]    the distinct kinds (text before the first ':') of "bad"
  "badf":   [str]    "formula:<chart part>:<text>" for every series formula whose sheet name needs quotes (white space or
                     ASCII punctuation other than '_' and '.') and is written without them
  "sheets": [{       one entry per <sheet> of the workbook part, in workbook order
      "name"
      "imgs":   [{"r1","c1","r2","c2","two","off","ext","nm","nk","dg"}]   pictures (xdr:pic, or xdr:grpSp holding a picture) in
                 document order: anchor cells 1-based (r2 = c2 = 0 and two = false for a oneCellAnchor), "off" =
                 [colOff, rowOff, colOff2, rowOff2], ext = [cx, cy] of a oneCellAnchor ([0, 0] otherwise), nm = base name of the media part, nk = name_kind(nm), dg = content token of ITS bytes
                 ("none" if the blip does not resolve)
      "charts": [{"r1","c1","r2","c2","off","ct","ser","refs","qn","ti","tt"}]   graphic frames that hold a chart, document order:
                 ct = local names of the *Chart children of c:plotArea (sorted, joined by "+"), ser = the c:f texts
                 of c:cat / c:val / c:xVal / c:yVal / c:bubbleSize in document order with the sheet name unquoted, qn =
                 how many of them name a sheet with such punctuation and no white space, refs = per formula the sheet name it mentions, ti = concatenated a:t of
                 c:chart/c:title, tt = the same with every a:t stripped of surrounding white space
      "oth":    int  anchors that are neither (shapes, connectors, ..)
      "closure": str digest of the sheet's drawing part, of the parts it reaches and of how it reaches them
                 ("" if the sheet has no drawing)
  }]
}
It only projects; the judgement is made by TLC (spec/Trace_Media.tla).
"""
import hashlib
from pydec import xlsx

NS_XDR = "http://schemas.openxmlformats.org/drawingml/2006/spreadsheetDrawing"
NS_A = "http://schemas.openxmlformats.org/drawingml/2006/main"
NS_C = "http://schemas.openxmlformats.org/drawingml/2006/chart"
NS_R = xlsx.DOC_REL_NS
CT_DRAWING = "application/vnd.openxmlformats-officedocument.drawing+xml"
CT_CHART = "application/vnd.openxmlformats-officedocument.drawingml.chart+xml"
INT_MAX = 2_000_000_000


def token(data):
    """FNV-1a (64 bit) and length: the same content token as harness/src/bin/media.rs computes"""
    if not data:
        return "none"
    h = 0xcbf29ce484222325
    for b in data:
        h = ((h ^ b) * 0x100000001b3) & 0xFFFFFFFFFFFFFFFF
    return "%016x-%d" % (h, len(data))


KNOWN_EXT = ("png", "jpg", "jpeg", "tiff", "tif", "gif", "bmp", "svg", "wmf", "emf")


def name_kind(name):
    """classification of a picture's file name, used only as the trigger of two known-finding deviations:
    "hash" - it holds a '#' (in a relationship target everything after '#' is a fragment), "ext" - its extension is
    none of the picture extensions the writer declares a content type for, "" otherwise"""
    if "#" in name:
        return "hash"
    ext = name.rsplit(".", 1)[-1].lower() if "." in name else ""
    return "" if ext in KNOWN_EXT else "ext"


def empty():
    return {"ok": False, "bad": [], "badk": [], "badf": [], "sheets": []}


def _x(tag):
    return "{%s}%s" % (NS_XDR, tag)


def _int(el, name):
    c = el.find(_x(name)) if el is not None else None
    try:
        return int((c.text or "").strip()) if c is not None else 0
    except ValueError:
        return -1


def _r_attrs(el):
    """(attribute local name, value) of every attribute in a relationships namespace"""
    out = []
    for k, v in el.attrib.items():
        if xlsx.ns(k) in NS_R:
            out.append((xlsx.local(k), v))
    return out


def _anchor(an):
    f, t = an.find(_x("from")), an.find(_x("to"))
    two = t is not None
    r1, c1 = _int(f, "row") + 1, _int(f, "col") + 1
    r2, c2 = (_int(t, "row") + 1, _int(t, "col") + 1) if two else (0, 0)
    cl = lambda v: max(0, min(INT_MAX, v))
    sg = lambda v: max(-INT_MAX, min(INT_MAX, v))
    off = [sg(_int(f, "colOff")), sg(_int(f, "rowOff")), sg(_int(t, "colOff")) if two else 0, sg(_int(t, "rowOff")) if two else 0]
    ext = [0, 0]
    x = an.find(_x("ext"))
    if x is not None and not two:
        try:
            ext = [sg(int(x.get("cx", "0"))), sg(int(x.get("cy", "0")))]
        except ValueError:
            ext = [-1, -1]
    return {"r1": cl(r1), "c1": cl(c1), "r2": cl(r2), "c2": cl(c2), "two": two, "off": off, "ext": ext}


def _chart_view(pkg, part):
    root = pkg.xml(part)
    out = {"ct": "", "ser": [], "refs": [], "ti": "", "tt": "", "qn": 0, "unquoted": []}
    if root is None:
        return out
    chart = root.find("{%s}chart" % NS_C)
    if chart is None:
        return out
    pa = chart.find("{%s}plotArea" % NS_C)
    kinds = []
    if pa is not None:
        for ch in pa:
            ln = xlsx.local(ch.tag)
            if xlsx.ns(ch.tag) == NS_C and ln.endswith("Chart"):
                kinds.append(ln)
                for ser in ch.findall("{%s}ser" % NS_C):
                    for sub in ser:
                        if xlsx.local(sub.tag) in ("cat", "val", "xVal", "yVal", "bubbleSize"):
                            for f in sub.iter("{%s}f" % NS_C):
                                out["ser"].append(f.text or "")
    out["ct"] = "+".join(sorted(kinds))
    title = chart.find("{%s}title" % NS_C)
    if title is not None:
        out["ti"] = "".join(t.text or "" for t in title.iter("{%s}t" % NS_A))
        out["tt"] = "".join((t.text or "").strip(" \t\r\n") for t in title.iter("{%s}t" % NS_A))
    out["refs"] = [sheet_of_ref(f) for f in out["ser"]]
    out["qn"] = sum(1 for n in out["refs"] if needs_quotes_no_blank(n))
    out["unquoted"] = [f for f in out["ser"] if "!" in f and not f.startswith("'") and needs_quotes(sheet_of_ref(f))]
    out["ser"] = [canonical(f) for f in out["ser"]]
    return out


PUNCT = set("!\"#$%&'()*+,-/:;<=>?@[\\]^`{|}~")


def needs_quotes(name):
    """a sheet name that must be written in quotes inside a formula (conservative: white space or ASCII punctuation
    other than '_' and '.')"""
    return any(ch.isspace() or ch in PUNCT for ch in name)


def needs_quotes_no_blank(name):
    return not any(ch.isspace() for ch in name) and any(ch in PUNCT for ch in name)


def canonical(formula):
    """a series formula with its sheet name unquoted (quoting is a matter of form, judged separately)"""
    if "!" not in formula:
        return formula
    return sheet_of_ref(formula) + "!" + formula.rsplit("!", 1)[1]


def sheet_of_ref(formula):
    """sheet name a series formula mentions: the text before the last '!' without its quotes ("" if unqualified)"""
    if "!" not in formula:
        return ""
    name = formula.rsplit("!", 1)[0]
    if len(name) >= 2 and name.startswith("'") and name.endswith("'"):
        name = name[1:-1].replace("''", "'")
    return name


def view(data):
    out = empty()
    pkg = xlsx.Package(data)
    if not pkg.ok:
        return out
    bad, badf = set(), set()
    seen = set()
    for e in pkg.entries:
        if e in seen:
            bad.add("dup:" + e)
        seen.add(e)
    if not (pkg.ct_present and pkg.ct_wellformed):
        return out
    wbpart = pkg.workbook_part()
    wb = pkg.xml(wbpart) if wbpart else None
    if wb is None:
        return out
    out["ok"] = True
    # parts: content types, well-formedness
    for n in pkg.names:
        ctype, src = pkg.content_type(n)
        if src == "none":
            bad.add("notype:" + n)
        if xlsx._xml_like(ctype, pkg.ext_of(n)) and pkg.ext_of(n) != "vml" and not pkg.wellformed(n)[0]:
            bad.add("xml:" + n)
    # relationship graph
    refs = {}                                  # part -> number of relationships pointing to it
    for rp in pkg.all_rels_parts():
        src = pkg.source_of_rels(rp)
        if src != "/" and not src.endswith("/") and not pkg.exists(src):
            bad.add("source:" + rp)
        for it in pkg.rels_of(src):
            if it["external"]:
                continue
            if not pkg.exists(it["resolved"]):
                bad.add("target:%s->%s" % (rp, it["resolved"]))
            refs[it["resolved"]] = refs.get(it["resolved"], 0) + 1
    for n in pkg.names:
        ctype, _src = pkg.content_type(n)
        fam = "drawing" if ctype == CT_DRAWING else "chart" if ctype == CT_CHART else "image" if ctype.startswith("image/") else ""
        if fam and refs.get(n, 0) == 0:
            bad.add("orphan:" + n)
    # sheets
    sheets_el = None
    for ch in wb:
        if xlsx.local(ch.tag) == "sheets":
            sheets_el = ch
    drawing_use, chart_use = {}, {}
    for sh in (list(sheets_el) if sheets_el is not None else []):
        e = {"name": sh.get("name", ""), "imgs": [], "charts": [], "oth": 0, "closure": ""}
        out["sheets"].append(e)
        rid = ""
        for k, v in sh.attrib.items():
            if xlsx.local(k) == "id" and xlsx.ns(k) in NS_R:
                rid = v
        rel = pkg.rel_target(wbpart, rid)
        if rel is None or rel["external"] or not pkg.exists(rel["resolved"]):
            bad.add("rid:%s:%s" % (wbpart, rid))
            continue
        spart = rel["resolved"]
        sroot = pkg.xml(spart)
        if sroot is None:
            continue
        dparts = []
        for el in sroot:
            if xlsx.local(el.tag) == "drawing" and xlsx.is_main(el.tag):
                for _k, v in _r_attrs(el):
                    d = pkg.rel_target(spart, v)
                    if d is None or d["external"] or d["kind"] != "drawing" or not pkg.exists(d["resolved"]):
                        bad.add("rid:%s:%s" % (spart, v))
                    else:
                        dparts.append(d["resolved"])
        h = hashlib.sha1()
        for dpart in dparts:
            drawing_use[dpart] = drawing_use.get(dpart, 0) + 1
            ctype, _s = pkg.content_type(dpart)
            if ctype != CT_DRAWING:
                bad.add("type:%s=%s" % (dpart, ctype))
            _closure(pkg, dpart, h)
            droot = pkg.xml(dpart)
            if droot is None:
                continue
            # every relationship reference inside the drawing part resolves in its own relationship part
            for el in droot.iter():
                for _k, v in _r_attrs(el):
                    if v and pkg.rel_target(dpart, v) is None:
                        bad.add("rid:%s:%s" % (dpart, v))
            for an in droot.iter():
                if xlsx.ns(an.tag) != NS_XDR or xlsx.local(an.tag) not in ("twoCellAnchor", "oneCellAnchor", "absoluteAnchor"):
                    continue
                pos = _anchor(an)
                pic = an.find(_x("pic"))
                grp = an.find(_x("grpSp"))
                gf = an.find(_x("graphicFrame"))
                cref = None
                if gf is not None:
                    for c in gf.iter("{%s}chart" % NS_C):
                        cref = c
                if cref is not None:
                    crid = ""
                    for k, v in _r_attrs(cref):
                        if k == "id":
                            crid = v
                    t = pkg.rel_target(dpart, crid)
                    cv = {"ct": "", "ser": [], "refs": [], "ti": "", "tt": "", "qn": 0, "unquoted": []}
                    if t is None or t["external"] or t["kind"] != "chart" or not pkg.exists(t["resolved"]):
                        bad.add("rid:%s:%s" % (dpart, crid))
                    else:
                        chart_use[t["resolved"]] = chart_use.get(t["resolved"], 0) + 1
                        ctype, _s = pkg.content_type(t["resolved"])
                        if ctype != CT_CHART:
                            bad.add("type:%s=%s" % (t["resolved"], ctype))
                        cv = _chart_view(pkg, t["resolved"])
                        for f in cv["unquoted"]:
                            badf.add("formula:%s:%s" % (t["resolved"], f))
                    e["charts"].append({"r1": pos["r1"], "c1": pos["c1"], "r2": pos["r2"], "c2": pos["c2"], "off": pos["off"],
                                        "ct": cv["ct"], "ser": cv["ser"], "refs": cv["refs"], "qn": cv["qn"], "ti": cv["ti"], "tt": cv["tt"]})
                    continue
                holder = pic if pic is not None else grp
                blip = None
                if holder is not None:
                    for bl in holder.iter("{%s}blip" % NS_A):
                        blip = bl
                        break
                if holder is not None and (pic is not None or blip is not None):
                    nm, dg = "", "none"
                    if blip is not None:
                        emb = ""
                        for k, v in _r_attrs(blip):
                            if k == "embed":
                                emb = v
                        t = pkg.rel_target(dpart, emb)
                        if t is None or t["external"] or t["kind"] != "image" or not pkg.exists(t["resolved"]):
                            bad.add("rid:%s:%s" % (dpart, emb))
                        else:
                            nm = t["resolved"].rsplit("/", 1)[-1]
                            dg = token(pkg.read(t["resolved"]))
                            ctype, _s = pkg.content_type(t["resolved"])
                            if not ctype.startswith("image/"):
                                bad.add("type:%s=%s" % (t["resolved"], ctype))
                    e["imgs"].append(dict(pos, nm=nm, nk=name_kind(nm) if nm else "", dg=dg))
                    continue
                e["oth"] += 1
        if dparts:
            e["closure"] = h.hexdigest()[:20]
    for p, n in drawing_use.items():
        if n > 1:
            bad.add("shared:%sx%d" % (p, n))
    for p, n in chart_use.items():
        if n > 1:
            bad.add("shared:%sx%d" % (p, n))
    out["bad"] = sorted(bad)
    out["badk"] = sorted({b.split(":", 1)[0] for b in bad})
    out["badf"] = sorted(badf)
    return out


def _closure(pkg, part, h, depth=0):
    """digest of a part, of the relationships it has (id, type) and - recursively - of the parts they reach"""
    h.update(b"P")
    h.update(hashlib.sha1(pkg.read(part)).digest())
    if depth > 3:
        return
    for it in sorted(pkg.rels_of(part), key=lambda x: x["id"]):
        h.update(("R%s|%s|%d" % (it["id"], it["kind"], it["external"])).encode())
        if it["external"]:
            h.update(it["target"].encode())
        elif pkg.exists(it["resolved"]):
            _closure(pkg, it["resolved"], h, depth + 1)
        else:
            h.update(b"missing")


def view_file(path):
    try:
        with open(path, "rb") as f:
            return view(f.read())
    except OSError:
        return empty()
