"""pydec.xlsx - an OPC / SpreadsheetML reader that is independent of umya-spreadsheet.

python3 standard library only (zipfile + xml.etree.ElementTree, i.e. expat).  It shares no code and
no assumptions with /repo: it does not look for the part names the library happens to use, it follows
`[Content_Types].xml` and the `_rels` parts from the package root exactly as ECMA-376 Part 2 (OPC)
and Part 1 (SpreadsheetML) describe.  It never judges; it projects a file into JSON-able data.
Owner: C02.  Importers: C03, C04, C05, C06, C11, C12 (`from pydec import xlsx`).

PUBLIC API
==========

decode(data: bytes, cells=True, strings=True) -> dict
    Everything below in one JSON-able dict (only str/int/bool/list/dict; no None, no float):

    {"ok": bool, "error": str,                      # ok = the bytes are a readable zip archive
     "entries": [str],                              # zip entry names in archive order (duplicates kept)
     "compression": [str],                          # distinct methods used: "stored" | "deflated" | "other"
     "content_types": {"present": bool, "wellformed": bool,
                       "defaults": [{"ext","type"}], "overrides": [{"part","type"}]},
     "parts": [ {"name": "/xl/workbook.xml",        # part name = "/" + zip entry name, sorted by name
                 "ext": "xml", "size": int,
                 "type": str, "type_src": "override"|"default"|"none",
                 "is_xml": bool,                     # by content type (+xml, /xml) or extension xml/rels/vml
                 "wellformed": bool,                 # expat accepted it (True for non-XML parts)
                 "xml_error": str} ],
     "rels": [ {"part": "/xl/_rels/workbook.xml.rels", "source": "/xl/workbook.xml" ("/" = package),
                "source_exists": bool, "wellformed": bool,
                "items": [{"id","type","kind" (last path segment of type),"target" (as written),
                           "external": bool, "resolved": "/xl/worksheets/sheet1.xml" ("" if external)}]} ],
     "rel_uses": [ {"part","elem" (local name),"attr" ("id","embed","relid",...),"rid"} ],
                                                    # every relationship reference found in any XML part
     "workbook": {"part": str ("" if not found), "wellformed": bool, "date1904": bool,
                  "active_tab": int, "has_views": bool,
                  "sheets": [{"name","sheet_id": int (-1 bad),"sheet_id_raw","rid","state","part","kind"}],
                  "defined_names": [{"name","local_sheet_id": int (-1 none),"hidden": bool,"text"}],
                  "protection": {attr: value}},
     "styles": {"part", "present": bool, "num_fmts":[{"id","code"}], "fonts": n, "fills": n, "borders": n,
                "cell_style_xfs": n, "cell_xfs": [{"numFmtId","fontId","fillId","borderId","xfId"}] (-1 = absent),
                "cell_styles": [{"name","xfId"}], "dxfs": n, "dxf_list": [ decode_dxf() of every <dxf>, see there ]},
     "sst": {"part", "present": bool, "count": n, "items": [{"text","rich": bool,"runs":[str]}]},   # items only if strings
     "sheets": [ <sheet dict>, one per <sheet> of the workbook in workbook order ] }

    sheet dict:
    {"name","part","kind" ("worksheet"|"chartsheet"|...), "found": bool, "wellformed": bool,
     "children": [local names of the root's children in document order; mc:AlternateContent is listed as
                  "AlternateContent"], "children_ns_ok": bool,
     "dimension": str,
     "rows": [ {"r": int, "s": int (-1 none), "cells": [ <cell dict> ]} ]   (document order),
     "cols": [{"min","max","style" (-1 none)}],
     "merges": [{"ref","r1","c1","r2","c2"}],
     "hyperlinks": [{"ref","r1","c1","r2","c2","rid","location","tooltip","display",
                     "target","external": bool,"resolved": bool}],     # target via the sheet's rels
     "cond_formats": [{"sqref","rules":[{"type","priority": int,"dxf_id": int (-1 none)}]}],
     "dxf_ids": [int]            every attribute dxfId / *DxfId found in the sheet part,
     "data_validations": [{"sqref","type","formula1","formula2"}],
     "auto_filter": str, "protection": {attr: value}, "tab_color": {attr: value},
     "table_parts": [rid], "drawing": rid, "legacy_drawing": rid,
     "comments": [{"ref","r","c","author","text"}]      via the sheet's comments relationship,
     "tables": [{"part","id": int,"name","display_name","ref","columns":[{"id","name"}],"dxf_ids":[int]}]}

    cell dict (raw encoding + ECMA-376 decoding, see decode_cell):
    {"ref","r","c","t" ("" if absent),"s": int (-1 absent),"has_v": bool,"v": str,"is": str,"has_is": bool,
     "f": {"present": bool,"t","si": int (-1),"ref","text"},
     "kind": "blank"|"num"|"text"|"bool"|"err"|"bad", "value": str, "num_bits": 16 hex digits ("" unless num),
     "sst_index": int (-1 unless t="s"), "formula": str (shared formulas expanded; "" if none),
     "has_formula": bool, "shared_master": reference of the master cell if this cell is a child of a shared
     formula (no text of its own), else ""}

Package(data)                                        lower level, for callers that want their own walk
    .ok .error .entries .names
    .read(part) -> bytes            .exists(part)         .content_type(part) -> (type, src)
    .xml(part) -> Element | None    .wellformed(part) -> (bool, msg)
    .rels_of(part) -> list of relationship dicts (see "items" above; [] if the part has no rels part)
    .rel_target(part, rid) -> relationship dict | None
    .by_type(kind) -> parts whose relationship kind is `kind` reachable from the workbook part

helpers: col_to_num("XFD") -> 16384, num_to_col(28) -> "AB", parse_ref("$B$3") -> (row, col) (0 = absent),
         parse_range("A1:B2") -> (r1, c1, r2, c2), xstring(s) (ST_Xstring: _xHHHH_ unescaping),
         translate_formula(text, drow, dcol) (relative A1 references moved, `$` parts kept; used for the
         children of shared formulas), f64_bits("1.5") -> "3ff8000000000000", local(tag), ns(tag)

Decoding rules applied (ECMA-376 Part 1, 18.3.1.4 c / 18.18.11 ST_CellType / 18.4 shared strings):
  t absent or "n": number, value = <v> text, num_bits = IEEE-754 bits of the nearest double;
  "s": <v> is an index into the shared string table, text = item text (plain <t>, or the concatenation of the
  <r><t> runs; <rPh>/<phoneticPr> are not part of the text);  "str": <v> is the text (formula result);
  "inlineStr": text from <is>;  "b": "1"/"0" -> "TRUE"/"FALSE";  "e": <v> is the error code;
  a cell with neither <v> nor <is> is "blank".  <t> text loses leading/trailing white space unless
  xml:space="preserve" is in effect; ST_Xstring escapes (_x000D_) are undone; line ends are whatever the XML
  parser delivers (a literal CR in the file is normalised to LF by every conforming XML parser).
  Cells without r= continue after the previous cell / row (18.3.1.4).
  Shared formulas (18.3.1.40): the master carries text + ref + si; a child (same si, no text) gets the master's
  text translated by its offset from the master.
"""
import io
import posixpath
import re
import struct
import zipfile
import xml.etree.ElementTree as ET

MAIN_NS = ("http://schemas.openxmlformats.org/spreadsheetml/2006/main",
           "http://purl.oclc.org/ooxml/spreadsheetml/main")
DOC_REL_NS = ("http://schemas.openxmlformats.org/officeDocument/2006/relationships",
              "http://purl.oclc.org/ooxml/officeDocument/relationships")
PKG_REL_NS = "http://schemas.openxmlformats.org/package/2006/relationships"
CT_NS = "http://schemas.openxmlformats.org/package/2006/content-types"
MC_NS = "http://schemas.openxmlformats.org/markup-compatibility/2006"
VML_OFFICE_NS = "urn:schemas-microsoft-com:office:office"
XML_NS = "http://www.w3.org/XML/1998/namespace"
OFFICE_DOCUMENT_KIND = "officeDocument"
MAX_ROW, MAX_COL = 1048576, 16384
INT_MAX = 2 ** 31 - 1


# ---------------------------------------------------------------------------------------------
# small helpers
# ---------------------------------------------------------------------------------------------
def local(tag):
    return tag.rsplit("}", 1)[-1] if isinstance(tag, str) else ""


def ns(tag):
    return tag[1:].split("}", 1)[0] if isinstance(tag, str) and tag.startswith("{") else ""


def is_main(tag):
    return ns(tag) in MAIN_NS


def col_to_num(s):
    n = 0
    for ch in s:
        n = n * 26 + (ord(ch) - 64)
    return n


def num_to_col(n):
    s = ""
    while n > 0:
        n, r = divmod(n - 1, 26)
        s = chr(65 + r) + s
    return s


_REF_RE = re.compile(r"^\$?([A-Za-z]{0,3})\$?([0-9]{0,7})$")


def parse_ref(ref):
    """'B3' / '$B$3' -> (row, col); a missing part is 0 ('B' -> (0, 2), '3' -> (3, 0)); junk -> (0, 0)"""
    m = _REF_RE.match(ref.strip()) if isinstance(ref, str) else None
    if not m:
        return (0, 0)
    c = col_to_num(m.group(1).upper()) if m.group(1) else 0
    r = int(m.group(2)) if m.group(2) else 0
    return (min(r, INT_MAX), c)


def parse_range(ref):
    """'A1:B2' -> (r1, c1, r2, c2); a single cell gives r1=r2, c1=c2.  A sheet prefix is ignored."""
    if "!" in ref:
        ref = ref.rsplit("!", 1)[1]
    a, _, b = ref.partition(":")
    r1, c1 = parse_ref(a)
    r2, c2 = parse_ref(b) if b else (r1, c1)
    return (r1, c1, r2, c2)


_XSTR_RE = re.compile(r"_x([0-9A-Fa-f]{4})_")


def xstring(s):
    """ST_Xstring (ECMA-376 Part 1, 22.9.2.19): _xHHHH_ stands for the UTF-16 code unit HHHH."""
    if "_x" not in s:
        return s
    out = _XSTR_RE.sub(lambda m: chr(int(m.group(1), 16)), s)
    try:        # surrogate pairs written as two escapes
        return out.encode("utf-16", "surrogatepass").decode("utf-16")
    except UnicodeError:
        return out


def f64_bits(text):
    """IEEE-754 bit pattern (16 hex digits) of the double nearest to the decimal text; '' if unparsable"""
    try:
        x = float(text.strip())
    except (ValueError, AttributeError):
        return ""
    if x != x or x in (float("inf"), float("-inf")):
        return ""
    return "%016x" % struct.unpack("<Q", struct.pack("<d", x))[0]


def _int(v, default=-1):
    try:
        x = int(v)
    except (TypeError, ValueError):
        return default
    return x if -INT_MAX <= x <= INT_MAX else default


def _bool(v, default=False):
    if v is None:
        return default
    return v.strip() in ("1", "true", "on")


# ---------------------------------------------------------------------------------------------
# formula translation for shared formulas
# ---------------------------------------------------------------------------------------------
_CELL_TOK = re.compile(r"(\$?)([A-Za-z]{1,3})(\$?)([0-9]{1,7})")
_COLS_TOK = re.compile(r"(\$?)([A-Za-z]{1,3}):(\$?)([A-Za-z]{1,3})")
_ROWS_TOK = re.compile(r"(\$?)([0-9]{1,7}):(\$?)([0-9]{1,7})")
_IDENT = re.compile(r"[A-Za-z0-9_.\\?]")


def _shift_col(lock, name, d):
    if lock:
        return "$" + name
    n = col_to_num(name.upper()) + d
    return num_to_col(n) if 1 <= n <= MAX_COL else None


def _shift_row(lock, txt, d):
    if lock:
        return "$" + txt
    n = int(txt) + d
    return str(n) if 1 <= n <= MAX_ROW else None


def translate_formula(text, drow, dcol):
    """Move every relative A1-style reference of `text` by (drow, dcol); `$`-anchored parts stay.
    String literals, quoted sheet names, function names, defined names and structured references are
    copied unchanged.  A reference that leaves the grid becomes #REF!."""
    if drow == 0 and dcol == 0:
        return text
    out, i, n = [], 0, len(text)
    while i < n:
        ch = text[i]
        if ch == '"':                                   # string literal, "" is an escaped quote
            j = i + 1
            while j < n:
                if text[j] == '"':
                    if j + 1 < n and text[j + 1] == '"':
                        j += 2
                        continue
                    break
                j += 1
            out.append(text[i:j + 1])
            i = j + 1
            continue
        if ch == "'":                                   # quoted sheet name
            j = i + 1
            while j < n:
                if text[j] == "'":
                    if j + 1 < n and text[j + 1] == "'":
                        j += 2
                        continue
                    break
                j += 1
            out.append(text[i:j + 1])
            i = j + 1
            continue
        if ch == "[":                                   # structured reference / external workbook index
            depth, j = 0, i
            while j < n:
                if text[j] == "[":
                    depth += 1
                elif text[j] == "]":
                    depth -= 1
                    if depth == 0:
                        break
                j += 1
            out.append(text[i:j + 1])
            i = j + 1
            continue
        prev_ident = i > 0 and _IDENT.match(text[i - 1]) is not None
        if not prev_ident and (ch == "$" or ch.isalnum()):
            done = False
            for kind, rx in (("cell", _CELL_TOK), ("cols", _COLS_TOK), ("rows", _ROWS_TOK)):
                m = rx.match(text, i)
                if not m:
                    continue
                end = m.end()
                nxt = text[end] if end < n else ""
                if nxt and (_IDENT.match(nxt) or nxt in "(!"):
                    continue                            # LOG10(  Sheet1!  name1x
                if kind == "cell":
                    c = _shift_col(m.group(1), m.group(2), dcol)
                    r = _shift_row(m.group(3), m.group(4), drow)
                    out.append("#REF!" if c is None or r is None else c + r)
                elif kind == "cols":
                    a = _shift_col(m.group(1), m.group(2), dcol)
                    b = _shift_col(m.group(3), m.group(4), dcol)
                    out.append("#REF!" if a is None or b is None else a + ":" + b)
                else:
                    a = _shift_row(m.group(1), m.group(2), drow)
                    b = _shift_row(m.group(3), m.group(4), drow)
                    out.append("#REF!" if a is None or b is None else a + ":" + b)
                i = end
                done = True
                break
            if done:
                continue
            # an identifier (function, name, number): copy it whole so that its tail is not re-read
            j = i
            while j < n and (_IDENT.match(text[j]) or text[j] == "$"):
                j += 1
            j = max(j, i + 1)
            out.append(text[i:j])
            i = j
            continue
        out.append(ch)
        i += 1
    return "".join(out)


# ---------------------------------------------------------------------------------------------
# the package layer (OPC)
# ---------------------------------------------------------------------------------------------
def _xml_like(ctype, ext):
    ctype = (ctype or "").lower()
    return ctype.endswith("+xml") or ctype.endswith("/xml") or ext in ("xml", "rels", "vml")


class Package:
    """An OPC package: zip entries, content types, relationships.  Nothing is assumed about names."""

    def __init__(self, data):
        self.ok, self.error = True, ""
        self.entries, self.names, self._data, self.methods = [], [], {}, set()
        self._xml, self._wf, self._rels = {}, {}, {}
        try:
            z = zipfile.ZipFile(io.BytesIO(data))
            for info in z.infolist():
                self.entries.append(info.filename)
                self.methods.add({0: "stored", 8: "deflated"}.get(info.compress_type, "other"))
                if info.is_dir():
                    continue
                name = "/" + info.filename
                if name not in self._data:              # first entry wins, duplicates stay visible in .entries
                    self._data[name] = z.read(info)
            bad = z.testzip()
            if bad is not None:
                self.ok, self.error = False, "CRC error in " + bad
        except Exception as ex:      # BadZipFile, zlib.error, ...
            self.ok, self.error = False, "%s: %s" % (type(ex).__name__, ex)
        self.names = sorted(n for n in self._data if n != "/[Content_Types].xml")
        self._load_content_types()

    # -- parts -------------------------------------------------------------------------------
    def exists(self, part):
        return part in self._data and part != "/[Content_Types].xml"

    def read(self, part):
        return self._data.get(part, b"")

    def wellformed(self, part):
        if part not in self._wf:
            self.xml(part)
        return self._wf[part]

    def xml(self, part):
        """parsed root element, or None (absent part / not well-formed: see wellformed())"""
        if part in self._xml:
            return self._xml[part]
        root = None
        if part not in self._data:
            self._wf[part] = (False, "no such part")
        else:
            try:
                root = ET.fromstring(self._data[part])
                self._wf[part] = (True, "")
            except ET.ParseError as ex:
                self._wf[part] = (False, str(ex))
            except Exception as ex:                     # e.g. unknown encoding
                self._wf[part] = (False, "%s: %s" % (type(ex).__name__, ex))
        self._xml[part] = root
        return root

    # -- content types -----------------------------------------------------------------------
    def _load_content_types(self):
        self.ct_present = "/[Content_Types].xml" in self._data
        self.ct_defaults, self.ct_overrides = [], []
        root = self.xml("/[Content_Types].xml") if self.ct_present else None
        self.ct_wellformed = root is not None
        if root is None:
            return
        for el in root:
            if ns(el.tag) != CT_NS:
                continue
            if local(el.tag) == "Default":
                self.ct_defaults.append((el.get("Extension", ""), el.get("ContentType", "")))
            elif local(el.tag) == "Override":
                self.ct_overrides.append((el.get("PartName", ""), el.get("ContentType", "")))

    @staticmethod
    def ext_of(part):
        base = part.rsplit("/", 1)[-1]
        return base.rsplit(".", 1)[-1].lower() if "." in base else ""

    def content_type(self, part):
        """(content type, "override" | "default" | "none") by OPC 10.1.2.4: Override by part name
        (ASCII case-insensitive), else Default by extension (case-insensitive)."""
        pl = part.lower()
        for name, ctype in self.ct_overrides:
            if name.lower() == pl:
                return ctype, "override"
        ext = self.ext_of(part)
        for e, ctype in self.ct_defaults:
            if e.lower() == ext and ext != "":
                return ctype, "default"
        return "", "none"

    # -- relationships -----------------------------------------------------------------------
    @staticmethod
    def rels_part_of(part):
        if part == "/":
            return "/_rels/.rels"
        d, b = part.rsplit("/", 1)
        return d + "/_rels/" + b + ".rels"

    @staticmethod
    def source_of_rels(rels_part):
        """/xl/_rels/workbook.xml.rels -> /xl/workbook.xml ; /_rels/.rels -> / (the package itself)"""
        d, b = rels_part.rsplit("/", 1)
        base = b[:-5] if b.endswith(".rels") else b
        parent = d[:-len("/_rels")] if d.endswith("/_rels") else d
        if base == "":
            return parent + "/"
        return parent + "/" + base

    @staticmethod
    def resolve(source, target):
        """part name a relative reference `target` designates when used from `source` ("/" = package)"""
        t = target.split("#", 1)[0].replace("\\", "/")
        if t.startswith("/"):
            p = posixpath.normpath(t)
        else:
            base = "/" if source == "/" else source.rsplit("/", 1)[0] + "/"
            p = posixpath.normpath(posixpath.join(base, t))
        return p if p.startswith("/") else "/" + p

    def rels_of(self, part):
        if part in self._rels:
            return self._rels[part]
        items = []
        rp = self.rels_part_of(part)
        root = self.xml(rp) if rp in self._data else None
        if root is not None:
            for el in root:
                if local(el.tag) != "Relationship" or ns(el.tag) != PKG_REL_NS:
                    continue
                typ = el.get("Type", "")
                target = el.get("Target", "")
                external = el.get("TargetMode", "Internal") == "External"
                items.append({"id": el.get("Id", ""), "type": typ, "kind": typ.rstrip("/").rsplit("/", 1)[-1],
                              "target": target, "external": external,
                              "resolved": "" if external else self.resolve(part, target)})
        self._rels[part] = items
        return items

    def rel_target(self, part, rid):
        for it in self.rels_of(part):
            if it["id"] == rid:
                return it
        return None

    def all_rels_parts(self):
        return [n for n in self.names if n.endswith(".rels") and "/_rels/" in n]

    def workbook_part(self):
        for it in self.rels_of("/"):
            if it["kind"] == OFFICE_DOCUMENT_KIND and not it["external"]:
                return it["resolved"]
        return ""

    def by_type(self, kind, source=None):
        source = source or self.workbook_part()
        return [it["resolved"] for it in self.rels_of(source) if it["kind"] == kind and not it["external"]]


# ---------------------------------------------------------------------------------------------
# SpreadsheetML
# ---------------------------------------------------------------------------------------------
def _child(el, name):
    for ch in el:
        if local(ch.tag) == name and is_main(ch.tag):
            return ch
    return None


def _children(el, name):
    return [ch for ch in el if local(ch.tag) == name and is_main(ch.tag)]


def _rid_attr(el, name="id"):
    for nsu in DOC_REL_NS:
        v = el.get("{%s}%s" % (nsu, name))
        if v is not None:
            return v
    return ""


def _t_text(t_el, inherited_preserve=False):
    """text of a <t>: white space at both ends is kept only under xml:space="preserve"; ST_Xstring"""
    raw = t_el.text or ""
    sp = t_el.get("{%s}space" % XML_NS)
    preserve = (sp == "preserve") if sp is not None else inherited_preserve
    if not preserve:
        raw = raw.strip(" \t\r\n")
    return xstring(raw)


def string_item(el):
    """CT_Rst (a shared string item <si>, an inline string <is>, a comment <text>) -> (text, rich, runs)"""
    sp = el.get("{%s}space" % XML_NS) == "preserve"
    runs = _children(el, "r")
    t = _child(el, "t")
    if runs:
        texts = []
        if t is not None:                               # schema allows <t> followed by <r>*
            texts.append(_t_text(t, sp))
        for r in runs:
            rt = _child(r, "t")
            texts.append(_t_text(rt, sp) if rt is not None else "")
        return "".join(texts), True, texts
    if t is not None:
        s = _t_text(t, sp)
        return s, False, [s]
    return "", False, []


def decode_cell(raw, sst_items):
    """raw cell encoding -> (kind, value, num_bits, sst_index) by ST_CellType"""
    t = raw["t"] or "n"
    if t == "inlineStr":
        if raw["has_is"]:
            return "text", raw["is"], "", -1
        if raw["has_v"]:
            return "text", xstring(raw["v"]), "", -1
        return "blank", "", "", -1
    if not raw["has_v"]:
        if raw["has_is"]:
            return "text", raw["is"], "", -1
        return "blank", "", "", -1
    v = raw["v"]
    if t == "n":
        if v.strip() == "":
            return "blank", "", "", -1
        bits = f64_bits(v)
        return ("num", v.strip(), bits, -1) if bits else ("bad", v, "", -1)
    if t == "s":
        idx = _int(v.strip(), -1)
        if idx < 0:
            return "bad", v, "", -1
        if sst_items is None or idx >= len(sst_items):
            return "bad", v, "", idx
        return "text", sst_items[idx]["text"], "", idx
    if t == "str":
        return "text", xstring(v), "", -1
    if t == "b":
        vs = v.strip()
        if vs in ("1", "true"):
            return "bool", "TRUE", "", -1
        if vs in ("0", "false"):
            return "bool", "FALSE", "", -1
        return "bad", v, "", -1
    if t == "e":
        return "err", v.strip(), "", -1
    if t == "d":
        return "text", v.strip(), "", -1
    return "bad", v, "", -1


def _attrs(el):
    return {local(k): v for k, v in el.attrib.items()} if el is not None else {}


def _rect(ref):
    r1, c1, r2, c2 = parse_range(ref)
    return {"r1": r1, "c1": c1, "r2": r2, "c2": c2}


def _collect_dxf_ids(root):
    out = []
    for el in root.iter():
        for k, v in el.attrib.items():
            lk = local(k)
            if lk == "dxfId" or lk.endswith("DxfId"):
                out.append(_int(v, -1))
    return out


def decode_sheet(pkg, part, sst_items, want_cells=True):
    sh = {"part": part, "found": pkg.exists(part), "wellformed": False, "children": [], "children_ns_ok": True,
          "dimension": "", "rows": [], "cols": [], "merges": [], "hyperlinks": [], "cond_formats": [], "dxf_ids": [],
          "data_validations": [], "auto_filter": "", "protection": {}, "tab_color": {}, "table_parts": [],
          "drawing": "", "legacy_drawing": "", "comments": [], "tables": [], "root": ""}
    root = pkg.xml(part) if sh["found"] else None
    if root is None:
        return sh
    sh["wellformed"] = True
    sh["root"] = local(root.tag)
    for ch in root:
        if ns(ch.tag) == MC_NS:
            sh["children"].append("AlternateContent")
        else:
            sh["children"].append(local(ch.tag))
            if not is_main(ch.tag):
                sh["children_ns_ok"] = False
    if local(root.tag) != "worksheet":
        # chartsheet / dialogsheet: only the relationship references matter
        d = _child(root, "drawing")
        sh["drawing"] = _rid_attr(d) if d is not None else ""
        return sh
    dim = _child(root, "dimension")
    sh["dimension"] = dim.get("ref", "") if dim is not None else ""
    pr = _child(root, "sheetPr")
    if pr is not None:
        sh["tab_color"] = _attrs(_child(pr, "tabColor"))
    cols = _child(root, "cols")
    if cols is not None:
        for c in _children(cols, "col"):
            sh["cols"].append({"min": _int(c.get("min")), "max": _int(c.get("max")), "style": _int(c.get("style"), -1)})
    # ---- sheetData
    sd = _child(root, "sheetData")
    masters = {}          # si -> (row, col, text)
    next_row = 1
    if sd is not None:
        for row in _children(sd, "row"):
            rnum = _int(row.get("r"), -2) if row.get("r") is not None else next_row
            next_row = (rnum if rnum > 0 else next_row) + 1
            rec = {"r": rnum, "s": _int(row.get("s"), -1) if row.get("s") is not None else -1, "cells": []}
            next_col = 1
            for c in _children(row, "c"):
                ref = c.get("r")
                if ref is None:
                    crow, ccol = rnum, next_col
                    ref = ""
                else:
                    crow, ccol = parse_ref(ref)
                next_col = (ccol if ccol > 0 else next_col) + 1
                if not want_cells:
                    rec["cells"].append({"ref": ref, "r": crow, "c": ccol, "s": _int(c.get("s"), -1) if c.get("s") is not None else -1,
                                         "t": c.get("t", "")})
                    continue
                v = _child(c, "v")
                isel = _child(c, "is")
                f = _child(c, "f")
                raw = {"ref": ref, "r": crow, "c": ccol, "t": c.get("t", ""),
                       "s": _int(c.get("s"), -1) if c.get("s") is not None else -1,
                       "has_v": v is not None, "v": (v.text or "") if v is not None else "",
                       "has_is": isel is not None, "is": string_item(isel)[0] if isel is not None else "",
                       "f": {"present": f is not None, "t": f.get("t", "") if f is not None else "",
                             "si": _int(f.get("si"), -1) if f is not None and f.get("si") is not None else -1,
                             "ref": f.get("ref", "") if f is not None else "",
                             "text": (f.text or "") if f is not None else ""}}
                kind, value, bits, sidx = decode_cell(raw, sst_items)
                formula = raw["f"]["text"]
                shared_master = ""
                if raw["f"]["present"] and raw["f"]["t"] == "shared" and raw["f"]["si"] >= 0:
                    si = raw["f"]["si"]
                    if formula != "":
                        masters.setdefault(si, (crow, ccol, formula))
                    elif si in masters:
                        mr, mc, mt = masters[si]
                        formula = translate_formula(mt, crow - mr, ccol - mc)
                        shared_master = num_to_col(mc) + str(mr)
                raw.update({"kind": kind, "value": value, "num_bits": bits, "sst_index": sidx, "formula": formula,
                            "has_formula": raw["f"]["present"], "shared_master": shared_master})
                rec["cells"].append(raw)
            sh["rows"].append(rec)
    # ---- the other collections
    prot = _child(root, "sheetProtection")
    sh["protection"] = _attrs(prot)
    af = _child(root, "autoFilter")
    sh["auto_filter"] = af.get("ref", "") if af is not None else ""
    mc = _child(root, "mergeCells")
    if mc is not None:
        for m in _children(mc, "mergeCell"):
            ref = m.get("ref", "")
            sh["merges"].append(dict(_rect(ref), ref=ref))
    for cf in _children(root, "conditionalFormatting"):
        rules = [{"type": r.get("type", ""), "priority": _int(r.get("priority"), -1),
                  "dxf_id": _int(r.get("dxfId"), -1) if r.get("dxfId") is not None else -1} for r in _children(cf, "cfRule")]
        sh["cond_formats"].append({"sqref": cf.get("sqref", ""), "rules": rules})
    dvs = _child(root, "dataValidations")
    if dvs is not None:
        for dv in _children(dvs, "dataValidation"):
            f1, f2 = _child(dv, "formula1"), _child(dv, "formula2")
            sh["data_validations"].append({"sqref": dv.get("sqref", ""), "type": dv.get("type", ""),
                                           "formula1": (f1.text or "") if f1 is not None else "",
                                           "formula2": (f2.text or "") if f2 is not None else ""})
    sh["dxf_ids"] = _collect_dxf_ids(root)
    hl = _child(root, "hyperlinks")
    if hl is not None:
        for h in _children(hl, "hyperlink"):
            ref = h.get("ref", "")
            rid = _rid_attr(h)
            rel = pkg.rel_target(part, rid) if rid else None
            sh["hyperlinks"].append(dict(_rect(ref), ref=ref, rid=rid, location=h.get("location", ""),
                                         has_location=h.get("location") is not None,
                                         tooltip=h.get("tooltip", ""), display=h.get("display", ""),
                                         target=rel["target"] if rel else "", external=bool(rel and rel["external"]),
                                         resolved=rel is not None, rel_kind=rel["kind"] if rel else ""))
    d = _child(root, "drawing")
    sh["drawing"] = _rid_attr(d) if d is not None else ""
    d = _child(root, "legacyDrawing")
    sh["legacy_drawing"] = _rid_attr(d) if d is not None else ""
    tp = _child(root, "tableParts")
    if tp is not None:
        sh["table_parts"] = [_rid_attr(t) for t in _children(tp, "tablePart")]
    # ---- related parts: comments, tables
    for it in pkg.rels_of(part):
        if it["external"] or not pkg.exists(it["resolved"]):
            continue
        if it["kind"] == "comments":
            sh["comments"] += decode_comments(pkg, it["resolved"])
        elif it["kind"] == "table":
            t = decode_table(pkg, it["resolved"])
            if t is not None:
                sh["tables"].append(t)
    return sh


def decode_comments(pkg, part):
    root = pkg.xml(part)
    out = []
    if root is None:
        return out
    authors = []
    a = _child(root, "authors")
    if a is not None:
        authors = [xstring(x.text or "") for x in _children(a, "author")]
    cl = _child(root, "commentList")
    if cl is not None:
        for c in _children(cl, "comment"):
            ref = c.get("ref", "")
            r, col = parse_ref(ref)
            aid = _int(c.get("authorId"), -1)
            txt = _child(c, "text")
            out.append({"ref": ref, "r": r, "c": col, "author_id": aid,
                        "author": authors[aid] if 0 <= aid < len(authors) else "",
                        "text": string_item(txt)[0] if txt is not None else ""})
    return out


def decode_table(pkg, part):
    root = pkg.xml(part)
    if root is None:
        return None
    cols = []
    tc = _child(root, "tableColumns")
    if tc is not None:
        cols = [{"id": _int(c.get("id"), -1), "name": c.get("name", "")} for c in _children(tc, "tableColumn")]
    return {"part": part, "id": _int(root.get("id"), -1), "name": root.get("name", ""),
            "display_name": root.get("displayName", ""), "ref": root.get("ref", ""), "columns": cols,
            "dxf_ids": _collect_dxf_ids(root)}


# the default indexed colour palette, ECMA-376 Part 1, 18.8.27 indexedColors (64 and 65 are system colours)
INDEXED_PALETTE = (
    "000000 FFFFFF FF0000 00FF00 0000FF FFFF00 FF00FF 00FFFF 000000 FFFFFF FF0000 00FF00 0000FF FFFF00 FF00FF 00FFFF "
    "800000 008000 000080 808000 800080 008080 C0C0C0 808080 9999FF 993366 FFFFCC CCFFFF 660066 FF8080 0066CC CCCCFF "
    "000080 FF00FF FFFF00 00FFFF 800080 800000 008080 0000FF 00CCFF CCFFFF CCFFCC FFFF99 99CCFF FF99CC CC99FF FFCC99 "
    "3366FF 33CCCC 99CC00 FFCC00 FF9900 FF6600 666699 969696 003366 339966 003300 333300 993300 993366 333399 333333").split()


def color_argb(el, palette=None):
    """CT_Color -> "AARRGGBB": @rgb, or @indexed through the palette (the workbook's <indexedColors> if it has one,
    else the default); "" for absent, theme, auto and system colours"""
    if el is None:
        return ""
    if el.get("rgb") is not None:
        return el.get("rgb").upper()
    idx = _int(el.get("indexed"), -1) if el.get("indexed") is not None else -1
    pal = palette or INDEXED_PALETTE
    if 0 <= idx < len(pal) and idx < 64:
        v = pal[idx].upper()
        return v if len(v) == 8 else "FF" + v
    return ""


def _flag(el):
    """CT_BooleanProperty: <b/> and <b val="1"/> are true"""
    return el is not None and el.get("val", "1").strip() in ("1", "true", "on")


def decode_dxf(dxf, palette=None):
    """CT_Dxf (18.8.14) -> what it formats with: {"font": "" (no <font>) | "b" (bold) | "n" (a font, not bold),
    "italic": bool, "font_rgb", "fg", "bg" (patternFill fgColor/bgColor as AARRGGBB through color_argb, "" if absent / theme / system), "pattern",
    "border": style of the left edge ("" if none), "numfmt": formatCode ("" if no <numFmt>),
    "protection": bool (a <protection> child), "alignment": bool, "empty": bool (no child at all)}"""
    font, fill, border = _child(dxf, "font"), _child(dxf, "fill"), _child(dxf, "border")
    nf, prot, al = _child(dxf, "numFmt"), _child(dxf, "protection"), _child(dxf, "alignment")
    pf = _child(fill, "patternFill") if fill is not None else None
    fgc = _child(pf, "fgColor") if pf is not None else None
    bgc = _child(pf, "bgColor") if pf is not None else None
    fcol = _child(font, "color") if font is not None else None
    left = _child(border, "left") if border is not None else None
    lstyle = left.get("style", "") if left is not None else ""
    return {"font": "" if font is None else ("b" if _flag(_child(font, "b")) else "n"),
            "italic": _flag(_child(font, "i")) if font is not None else False,
            "font_rgb": color_argb(fcol, palette), "fg": color_argb(fgc, palette), "bg": color_argb(bgc, palette),
            "pattern": pf.get("patternType", "") if pf is not None else "",
            "border": "" if lstyle == "none" else lstyle,
            "numfmt": nf.get("formatCode", "") if nf is not None else "", "protection": prot is not None,
            "alignment": al is not None, "empty": len(list(dxf)) == 0}


def decode_styles(pkg, part):
    st = {"part": part, "present": False, "wellformed": False, "num_fmts": [], "fonts": 0, "fills": 0, "borders": 0,
          "cell_style_xfs": 0, "cell_xfs": [], "cell_styles": [], "dxfs": 0, "dxf_list": []}
    if not part or not pkg.exists(part):
        return st
    st["present"] = True
    root = pkg.xml(part)
    if root is None:
        return st
    st["wellformed"] = True

    def count(name, item):
        el = _child(root, name)
        return len(_children(el, item)) if el is not None else 0
    nf = _child(root, "numFmts")
    if nf is not None:
        st["num_fmts"] = [{"id": _int(x.get("numFmtId"), -1), "code": x.get("formatCode", "")} for x in _children(nf, "numFmt")]
    st["fonts"], st["fills"], st["borders"] = count("fonts", "font"), count("fills", "fill"), count("borders", "border")
    st["cell_style_xfs"] = count("cellStyleXfs", "xf")
    st["dxfs"] = count("dxfs", "dxf")
    dx = _child(root, "dxfs")
    if dx is not None:
        palette = None
        cols = _child(root, "colors")
        ic = _child(cols, "indexedColors") if cols is not None else None
        if ic is not None:
            palette = [x.get("rgb", "") for x in _children(ic, "rgbColor")]
        st["dxf_list"] = [decode_dxf(x, palette) for x in _children(dx, "dxf")]
    cx = _child(root, "cellXfs")
    if cx is not None:
        for xf in _children(cx, "xf"):
            st["cell_xfs"].append({k: (_int(xf.get(k), -2) if xf.get(k) is not None else -1)
                                   for k in ("numFmtId", "fontId", "fillId", "borderId", "xfId")})
    cs = _child(root, "cellStyles")
    if cs is not None:
        st["cell_styles"] = [{"name": x.get("name", ""), "xfId": _int(x.get("xfId"), -1)} for x in _children(cs, "cellStyle")]
    return st


def decode_sst(pkg, part, strings=True):
    out = {"part": part, "present": False, "wellformed": False, "count": 0, "items": []}
    if not part or not pkg.exists(part):
        return out, None
    out["present"] = True
    root = pkg.xml(part)
    if root is None:
        return out, None
    out["wellformed"] = True
    items = []
    for si in _children(root, "si"):
        text, rich, runs = string_item(si)
        items.append({"text": text, "rich": rich, "runs": runs})
    out["count"] = len(items)
    if strings:
        out["items"] = items
    return out, items


def _rel_uses(pkg, part, root):
    uses = []
    for el in root.iter():
        for k, v in el.attrib.items():
            n = ns(k)
            if n in DOC_REL_NS or (n == VML_OFFICE_NS and local(k) == "relid"):
                uses.append({"part": part, "elem": local(el.tag), "attr": local(k), "rid": v})
    return uses


def decode(data, cells=True, strings=True):
    """bytes of an .xlsx/.xlsm file -> abstract package + decoded content (see the module docstring)"""
    pkg = Package(data)
    out = {"ok": pkg.ok, "error": pkg.error, "entries": list(pkg.entries),
           "compression": sorted(pkg.methods),
           "content_types": {"present": pkg.ct_present, "wellformed": pkg.ct_wellformed,
                             "defaults": [{"ext": e, "type": t} for e, t in pkg.ct_defaults],
                             "overrides": [{"part": p, "type": t} for p, t in pkg.ct_overrides]},
           "parts": [], "rels": [], "rel_uses": [], "sheets": []}
    # ---- parts
    for name in pkg.names:
        ctype, src = pkg.content_type(name)
        ext = pkg.ext_of(name)
        is_xml = _xml_like(ctype, ext)
        wf, msg = (True, "")
        if is_xml:
            wf, msg = pkg.wellformed(name)
            root = pkg.xml(name)
            if root is not None and not name.endswith(".rels"):
                out["rel_uses"] += _rel_uses(pkg, name, root)
        out["parts"].append({"name": name, "ext": ext, "size": len(pkg.read(name)), "type": ctype, "type_src": src,
                             "is_xml": is_xml, "wellformed": wf, "xml_error": msg})
    # ---- relationships
    for rp in pkg.all_rels_parts():
        src = pkg.source_of_rels(rp)
        wf, _ = pkg.wellformed(rp)
        out["rels"].append({"part": rp, "source": src, "source_exists": src == "/" or pkg.exists(src),
                            "wellformed": wf, "items": [dict(it) for it in pkg.rels_of(src)]})
    # ---- workbook
    wbp = pkg.workbook_part()
    wb = {"part": wbp, "wellformed": False, "date1904": False, "active_tab": 0, "has_views": False, "sheets": [],
          "defined_names": [], "protection": {}}
    out["workbook"] = wb
    root = pkg.xml(wbp) if wbp and pkg.exists(wbp) else None
    sst_part = styles_part = ""
    if root is not None:
        wb["wellformed"] = True
        pr = _child(root, "workbookPr")
        wb["date1904"] = _bool(pr.get("date1904")) if pr is not None else False
        wb["protection"] = _attrs(_child(root, "workbookProtection"))
        bv = _child(root, "bookViews")
        if bv is not None:
            views = _children(bv, "workbookView")
            if views:
                wb["has_views"] = True
                wb["active_tab"] = _int(views[0].get("activeTab", "0"), -1)
        sheets = _child(root, "sheets")
        if sheets is not None:
            for s in _children(sheets, "sheet"):
                rid = _rid_attr(s)
                rel = pkg.rel_target(wbp, rid) if rid else None
                wb["sheets"].append({"name": s.get("name", ""), "sheet_id": _int(s.get("sheetId"), -1),
                                     "sheet_id_raw": s.get("sheetId", ""), "rid": rid, "state": s.get("state", "visible"),
                                     "part": rel["resolved"] if rel and not rel["external"] else "",
                                     "kind": rel["kind"] if rel else ""})
        dn = _child(root, "definedNames")
        if dn is not None:
            for d in _children(dn, "definedName"):
                wb["defined_names"].append({"name": d.get("name", ""),
                                            "local_sheet_id": _int(d.get("localSheetId"), -1) if d.get("localSheetId") is not None else -1,
                                            "hidden": _bool(d.get("hidden")), "text": d.text or ""})
        for it in pkg.rels_of(wbp):
            if it["external"]:
                continue
            if it["kind"] == "sharedStrings" and not sst_part:
                sst_part = it["resolved"]
            elif it["kind"] == "styles" and not styles_part:
                styles_part = it["resolved"]
    out["styles"] = decode_styles(pkg, styles_part)
    out["sst"], sst_items = decode_sst(pkg, sst_part, strings)
    for s in wb["sheets"]:
        sh = decode_sheet(pkg, s["part"], sst_items, cells) if s["part"] else \
            {"part": "", "found": False, "wellformed": False, "children": [], "children_ns_ok": True, "dimension": "",
             "rows": [], "cols": [], "merges": [], "hyperlinks": [], "cond_formats": [], "dxf_ids": [],
             "data_validations": [], "auto_filter": "", "protection": {}, "tab_color": {}, "table_parts": [],
             "drawing": "", "legacy_drawing": "", "comments": [], "tables": [], "root": ""}
        sh["name"], sh["kind"] = s["name"], s["kind"]
        out["sheets"].append(sh)
    return out


def decode_file(path, **kw):
    with open(path, "rb") as f:
        return decode(f.read(), **kw)


if __name__ == "__main__":          # python3 -m pydec.xlsx file.xlsx  -> summary
    import json
    import sys
    d = decode_file(sys.argv[1])
    for sh in d["sheets"]:
        sh["rows"] = "%d rows, %d cells" % (len(sh["rows"]), sum(len(r["cells"]) for r in sh["rows"]))
    d["sst"]["items"] = len(d["sst"]["items"])
    d["rel_uses"] = len(d["rel_uses"])
    json.dump(d, sys.stdout, indent=1, ensure_ascii=True)
