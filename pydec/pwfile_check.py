"""Is this byte string a complete password-protected (ECMA-376 agile) file of a given package?

Used by C13 only to *classify* what a save left at the destination path: a password-protected save
draws fresh salts, so its output cannot be compared with reference bytes.  classify() opens the
compound file with the independent reader pydec/cfb.py, derives the keys from the password
(hashlib), verifies the HMAC over the whole EncryptedPackage stream, decrypts the package and
compares its length and FNV-1a/64 fingerprint with those of the package the driver computed.
python3 stdlib + libcrypto through ctypes (fallback: the `openssl enc` command).  Never judges:
returns "new" or "other" plus a reason.
"""
import base64, ctypes, ctypes.util, hashlib, hmac, shutil, struct, subprocess
import xml.etree.ElementTree as ET

from pydec.cfb import read_cfb, CfbError

_lib = None


def _load():
    global _lib
    if _lib is not None:
        return _lib
    name = ctypes.util.find_library("crypto")
    if not name:
        _lib = False
        return _lib
    try:
        lib = ctypes.CDLL(name)
        V = ctypes.c_void_p
        lib.EVP_CIPHER_CTX_new.restype = V
        lib.EVP_CIPHER_CTX_free.argtypes = [V]
        lib.EVP_aes_256_cbc.restype = V
        lib.EVP_CipherInit_ex.argtypes = [V, V, V, ctypes.c_char_p, ctypes.c_char_p, ctypes.c_int]
        lib.EVP_CIPHER_CTX_set_padding.argtypes = [V, ctypes.c_int]
        lib.EVP_CipherUpdate.argtypes = [V, ctypes.c_char_p, ctypes.POINTER(ctypes.c_int), ctypes.c_char_p, ctypes.c_int]
        lib.EVP_CipherFinal_ex.argtypes = [V, ctypes.c_char_p, ctypes.POINTER(ctypes.c_int)]
        _lib = lib
    except (OSError, AttributeError):
        _lib = False
    return _lib


def _dec_ctypes(key, iv, data):
    lib = _lib
    ctx = lib.EVP_CIPHER_CTX_new()
    try:
        if lib.EVP_CipherInit_ex(ctx, lib.EVP_aes_256_cbc(), None, key, iv, 0) != 1:
            raise ValueError("EVP_CipherInit_ex")
        lib.EVP_CIPHER_CTX_set_padding(ctx, 0)
        out = ctypes.create_string_buffer(len(data) + 32)
        n1, n2 = ctypes.c_int(0), ctypes.c_int(0)
        if lib.EVP_CipherUpdate(ctx, out, ctypes.byref(n1), data, len(data)) != 1:
            raise ValueError("EVP_CipherUpdate")
        rest = ctypes.create_string_buffer(32)
        if lib.EVP_CipherFinal_ex(ctx, rest, ctypes.byref(n2)) != 1:
            raise ValueError("EVP_CipherFinal_ex")
        return out.raw[:n1.value] + rest.raw[:n2.value]
    finally:
        lib.EVP_CIPHER_CTX_free(ctx)


def _dec_cli(key, iv, data):
    exe = shutil.which("openssl")
    if not exe:
        raise RuntimeError("no AES implementation available (libcrypto / openssl)")
    p = subprocess.run([exe, "enc", "-aes-256-cbc", "-nopad", "-d", "-K", key.hex(), "-iv", iv.hex()],
                       input=data, stdout=subprocess.PIPE, stderr=subprocess.PIPE)
    if p.returncode != 0:
        raise RuntimeError("openssl enc failed")
    return p.stdout


_NIST = (bytes.fromhex("603deb1015ca71be2b73aef0857d77811f352c073b6108d72d9810a30914dff4"),
         bytes.fromhex("000102030405060708090a0b0c0d0e0f"),
         bytes.fromhex("6bc1bee22e409f96e93d7e117393172aae2d8a571e03ac9c9eb76fac45af8e51"),
         bytes.fromhex("f58c4c04d6e5f1ba779eabfb5f7bfbd69cfc4e967edb808d679f777bc6702c7d"))
_backend = None


def aes256_cbc_decrypt(key, iv, data):
    global _backend
    if len(key) != 32 or len(iv) != 16 or len(data) % 16:
        raise ValueError("AES-256-CBC arguments")
    if not data:
        return b""
    if _backend is None:
        k, v, pt, ct = _NIST
        cands = ([_dec_ctypes] if _load() else []) + [_dec_cli]
        for f in cands:
            try:
                if f(k, v, ct) == pt:
                    _backend = f
                    break
            except Exception:
                continue
        if _backend is None:
            raise RuntimeError("no working AES-256-CBC implementation (NIST SP 800-38A F.2.6 vector failed)")
    return _backend(key, iv, data)


def fnv1a64(b):
    h = 0xcbf29ce484222325
    for x in b:
        h = ((h ^ x) * 0x100000001b3) & 0xFFFFFFFFFFFFFFFF
    return "%016x" % h


BK_HMAC_KEY = bytes.fromhex("5fb2ad010cb9e1f6")
BK_HMAC_VAL = bytes.fromhex("a0677f02b22c8433")
BK_KEY = bytes.fromhex("146e0be7abacd0d6")
_keycache = {}


def _fit(b, n, pad):
    return b[:n] if len(b) >= n else b + bytes([pad]) * (n - len(b))


def classify(data, password, pkg_len, pkg_fnv):
    """-> ("new" | "other", reason)"""
    try:
        streams = read_cfb(data)
    except CfbError as e:
        return "other", "cfb: " + str(e)
    except Exception as e:                                    # a truncated file may break the reader in other ways
        return "other", "cfb reader: " + type(e).__name__
    info = streams.get("EncryptionInfo")
    pkg = streams.get("EncryptedPackage")
    if info is None or pkg is None:
        return "other", "stream missing: " + ",".join(sorted(streams))
    if len(info) < 9 or info[:8] != bytes([4, 0, 4, 0, 0x40, 0, 0, 0]):
        return "other", "EncryptionInfo prefix"
    try:
        root = ET.fromstring(info[8:])
    except ET.ParseError:
        return "other", "EncryptionInfo is not well-formed XML"
    ns = {"e": "http://schemas.microsoft.com/office/2006/encryption",
          "p": "http://schemas.microsoft.com/office/2006/keyEncryptor/password"}
    kd = root.find("e:keyData", ns)
    di = root.find("e:dataIntegrity", ns)
    ek = root.find("e:keyEncryptors/e:keyEncryptor/p:encryptedKey", ns)
    if kd is None or di is None or ek is None:
        return "other", "EncryptionInfo elements missing"
    try:
        if kd.get("hashAlgorithm") != "SHA512" or ek.get("hashAlgorithm") != "SHA512" or ek.get("keyBits") != "256":
            return "other", "unexpected algorithms"
        salt_pkg = base64.b64decode(kd.get("saltValue"))
        salt_key = base64.b64decode(ek.get("saltValue"))
        spin = int(ek.get("spinCount"))
        enc_key_value = base64.b64decode(ek.get("encryptedKeyValue"))
        enc_hmac_key = base64.b64decode(di.get("encryptedHmacKey"))
        enc_hmac_val = base64.b64decode(di.get("encryptedHmacValue"))
    except Exception:
        return "other", "EncryptionInfo attributes"
    ck = (password, salt_key, spin)
    h = _keycache.get(ck)
    if h is None:
        h = hashlib.sha512(salt_key + password.encode("utf-16-le")).digest()
        for i in range(spin):
            h = hashlib.sha512(struct.pack("<I", i) + h).digest()
        _keycache.clear()
        _keycache[ck] = h
    try:
        kkey = _fit(hashlib.sha512(h + BK_KEY).digest(), 32, 0x36)
        package_key = aes256_cbc_decrypt(kkey, _fit(salt_key, 16, 0x36), enc_key_value)[:32]
        iv1 = _fit(hashlib.sha512(salt_pkg + BK_HMAC_KEY).digest(), 16, 0x36)
        iv2 = _fit(hashlib.sha512(salt_pkg + BK_HMAC_VAL).digest(), 16, 0x36)
        hmac_key = aes256_cbc_decrypt(package_key, iv1, enc_hmac_key)[:64]
        hmac_val = aes256_cbc_decrypt(package_key, iv2, enc_hmac_val)[:64]
    except ValueError:
        return "other", "key material has a wrong size"
    if hmac.new(hmac_key, pkg, hashlib.sha512).digest() != hmac_val:
        return "other", "HMAC over EncryptedPackage does not verify"
    if len(pkg) < 8:
        return "other", "EncryptedPackage shorter than its length field"
    (n,) = struct.unpack_from("<Q", pkg, 0)
    body = pkg[8:]
    if n != pkg_len:
        return "other", f"declared package length {n}, expected {pkg_len}"
    if len(body) % 16 or len(body) < n:
        return "other", "EncryptedPackage body size"
    plain = bytearray()
    for i in range(0, len(body), 4096):
        iv = _fit(hashlib.sha512(salt_pkg + struct.pack("<I", i // 4096)).digest(), 16, 0x36)
        plain += aes256_cbc_decrypt(package_key, iv, body[i:i + 4096])
    plain = bytes(plain[:n])
    if fnv1a64(plain) != pkg_fnv:
        return "other", "decrypted package differs from the package of the workbook"
    return "new", "decrypts to the package, HMAC verifies"
