"""Minimal, library-independent package check for C11 (python3 stdlib only: zipfile + ElementTree).

view(data: bytes) -> {
  "zip":      bool     the bytes open as a zip archive
  "wf":       bool     every .xml / .rels part is well-formed XML (VML is not required to be XML)
  "dup":      [..]     member names that occur more than once in the archive
  "ct":       [..]     parts covered neither by an Override nor by a Default of [Content_Types].xml
  "missing":  [..]     "<rels part> -> <target>" for every internal relationship target that is not in the archive
  "orphans":  [..]     relationship parts whose source part is not in the archive
  "nosheet":  int      number of <sheet> entries of workbook.xml that do not resolve to a part of the archive
  "sheets":   [{       one entry per <sheet> of xl/workbook.xml, in workbook order
      "name", "part"   sheet name; the part its r:id resolves to through xl/_rels/workbook.xml.rels ("" if unresolved)
      "pno"            N if the part is xl/worksheets/sheetN.xml, else 0
      "exists"         the part is in the archive
      "rels"           the sheet part has a relationship part of its own
      "relsig"         digest of that relationship part's (Id, Type, Target, TargetMode) set ("" if none)
      "ids"            the Ids defined by the sheet's own relationship part (sorted)
      "used"           the r:id / r:embed / .. values used inside the sheet part (sorted, distinct)
      "unres"          those of "used" that its own relationship part does not define
      "tabs"           the table parts its relationship part points to, in relationship order:
                       [{"no": N of tableN.xml (0 if named otherwise), "name": name attribute ("" if the part is missing)}]
      "tablenames"     the names of "tabs", sorted
      "chartrefs"      sheet names that occur in <c:f> references of charts reachable from the sheet's drawing
  }]
}
It only projects; the judgement is made by TLC (spec/Trace_Lazy.tla).
"""
import hashlib, io, posixpath, re, zipfile
import xml.etree.ElementTree as ET

NS_MAIN = "http://schemas.openxmlformats.org/spreadsheetml/2006/main"
NS_R = "http://schemas.openxmlformats.org/officeDocument/2006/relationships"
NS_PR = "http://schemas.openxmlformats.org/package/2006/relationships"
NS_CT = "http://schemas.openxmlformats.org/package/2006/content-types"
NS_C = "http://schemas.openxmlformats.org/drawingml/2006/chart"


def empty():
    return {"zip": False, "wf": False, "dup": [], "ct": [], "missing": [], "orphans": [], "nosheet": 0, "sheets": []}


def _rels_of(part):
    d, b = posixpath.split(part)
    return posixpath.join(d, "_rels", b + ".rels")


def _source_of(relspart):
    d, b = posixpath.split(relspart)          # d = <dir>/_rels
    return posixpath.join(posixpath.dirname(d), b[:-len(".rels")])


def _resolve(source_part, target):
    if target.startswith("/"):
        return target.lstrip("/")
    return posixpath.normpath(posixpath.join(posixpath.dirname(source_part), target))


class _Parts(dict):
    """member name -> bytes, with every XML part parsed at most once (root(name) is None if malformed/absent)"""

    def __init__(self, *a):
        super().__init__(*a)
        self._roots = {}

    def root(self, name):
        if name not in self._roots:
            r = None
            if name in self:
                try:
                    r = ET.fromstring(self[name])
                except ET.ParseError:
                    r = None
            self._roots[name] = r
        return self._roots[name]


def _read_rels(parts, relspart):
    """[(Id, Type, Target, TargetMode)] of a relationship part, [] if absent / malformed"""
    root = parts.root(relspart)
    if root is None:
        return []
    return [(r.get("Id", ""), r.get("Type", ""), r.get("Target", ""), r.get("TargetMode", ""))
            for r in root.findall("{%s}Relationship" % NS_PR)]


def _sheet_refs(formula):
    """sheet name of a chart reference such as Sheet3!$E$5:$G$5 or 'My Sheet'!A1 ("" if unqualified)"""
    if "!" not in formula:
        return ""
    name = formula.rsplit("!", 1)[0]
    if name.startswith("'") and name.endswith("'"):
        name = name[1:-1].replace("''", "'")
    return name


def view(data):
    out = empty()
    try:
        z = zipfile.ZipFile(io.BytesIO(data))
        names = z.namelist()
        parts = _Parts()
        for n in names:
            if n not in parts:
                parts[n] = z.read(n)
    except Exception:
        return out
    out["zip"] = True
    out["dup"] = sorted({n for n in names if names.count(n) > 1})
    wf = True
    for n in parts:
        if (n.endswith(".xml") or n.endswith(".rels")) and parts.root(n) is None:
            wf = False
    out["wf"] = wf
    # content types
    defaults, overrides = set(), set()
    if "[Content_Types].xml" in parts:
        ct = parts.root("[Content_Types].xml")
        if ct is not None:
            defaults = {d.get("Extension", "").lower() for d in ct.findall("{%s}Default" % NS_CT)}
            overrides = {o.get("PartName", "") for o in ct.findall("{%s}Override" % NS_CT)}
    else:
        out["ct"].append("[Content_Types].xml")
    for n in sorted(parts):
        if n == "[Content_Types].xml" or n.endswith("/"):
            continue
        ext = n.rsplit(".", 1)[-1].lower() if "." in posixpath.basename(n) else ""
        if ("/" + n) not in overrides and ext not in defaults:
            out["ct"].append(n)
    # relationship parts: sources and targets
    for n in sorted(parts):
        if not n.endswith(".rels") or "/_rels/" not in ("/" + n):
            continue
        src = _source_of(n)
        if src not in ("", ".") and src not in parts:
            out["orphans"].append(n)
        for (_id, _ty, target, mode) in _read_rels(parts, n):
            if mode == "External":
                continue
            t = _resolve(src if src not in ("", ".") else "", target)
            if t not in parts:
                out["missing"].append(n + " -> " + t)
    # sheets
    wb = parts.root("xl/workbook.xml")
    if wb is not None:
        sheets_el = wb.find("{%s}sheets" % NS_MAIN)
        sheet_els = list(sheets_el) if sheets_el is not None else []
    else:
        out["wf"] = False
        sheet_els = []
    wbrels = {r[0]: r for r in _read_rels(parts, "xl/_rels/workbook.xml.rels")}
    for sh in sheet_els:
        rid = sh.get("{%s}id" % NS_R, "")
        e = {"name": sh.get("name", ""), "part": "", "pno": 0, "exists": False, "rels": False, "relsig": "", "ids": [],
             "used": [], "unres": [], "tabs": [], "tablenames": [], "chartrefs": []}
        rel = wbrels.get(rid)
        if rel is not None:
            e["part"] = _resolve("xl/workbook.xml", rel[2])
        part = e["part"]
        e["exists"] = part in parts
        if not e["exists"]:
            out["nosheet"] += 1
            out["sheets"].append(e)
            continue
        m = re.match(r"^xl/worksheets/sheet(\d+)\.xml$", part)
        if m:
            e["pno"] = int(m.group(1))
        rp = _rels_of(part)
        rels = _read_rels(parts, rp)
        e["rels"] = rp in parts
        if e["rels"]:
            e["relsig"] = hashlib.sha1(repr(sorted(rels)).encode()).hexdigest()[:16]
        e["ids"] = sorted({r[0] for r in rels})
        used = set()
        root = parts.root(part)
        if root is not None:
            pre = "{%s}" % NS_R
            for el in root.iter():
                for k, v in el.attrib.items():
                    if k.startswith(pre):
                        used.add(v)
        e["used"] = sorted(used)
        e["unres"] = sorted(used - set(e["ids"]))
        refs = set()
        for (_id, ty, target, mode) in rels:
            if mode == "External":
                continue
            t = _resolve(part, target)
            if ty.endswith("/table"):
                m2 = re.match(r"^table(\d+)\.xml$", posixpath.basename(t))
                nm = ""
                if t in parts:
                    nm = parts.root(t).get("name", "") if parts.root(t) is not None else "!malformed"
                e["tabs"].append({"no": int(m2.group(1)) if m2 else 0, "name": nm})
            if ty.endswith("/drawing") and t in parts:
                for (_i2, ty2, target2, mode2) in _read_rels(parts, _rels_of(t)):
                    if ty2.endswith("/chart") and mode2 != "External":
                        ch = _resolve(t, target2)
                        if parts.root(ch) is not None:
                            for f in parts.root(ch).iter("{%s}f" % NS_C):
                                r = _sheet_refs(f.text or "")
                                if r:
                                    refs.add(r)
        e["tablenames"] = sorted(t["name"] for t in e["tabs"])
        e["chartrefs"] = sorted(refs)
        out["sheets"].append(e)
    return out


def view_file(path):
    try:
        with open(path, "rb") as f:
            return view(f.read())
    except OSError:
        return empty()
