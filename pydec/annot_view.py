"""Independent projection of a written xlsx package for C06 (python3 stdlib only: zipfile + ElementTree).

It shares no code with the library under verification and not with pydec/xlsx.py either.  It follows
[Content_Types] is NOT consulted; the path is: xl/workbook.xml -> xl/_rels/workbook.xml.rels -> sheet part ->
<sheet part dir>/_rels/<sheet part>.rels.

view(bytes) -> {
  "wellformed": bool            workbook part, its rels, every sheet part and every sheet rels part parse (expat)
  "active":  int                activeTab of the first workbookView (0 when absent)
  "sheets": [ {"name": str, "state": "visible"|"hidden"|"veryHidden",
               "links":  [{"cell": "B2", "url": str, "loc": bool, "tip": str}],   # r:id resolved through the sheet's rels
               "merges": ["A1:B2", ..],
               "badrid": int} ]                                         # hyperlinks whose r:id does not resolve
  "names":  [ {"name": str, "local": int (-1 = none), "addr": str (element text), "hidden": bool} ]
}
It only projects; the judgement is made by TLC (Trace_Annot.tla).
"""
import io, posixpath, zipfile
import xml.etree.ElementTree as ET

M = "http://schemas.openxmlformats.org/spreadsheetml/2006/main"
R = "http://schemas.openxmlformats.org/officeDocument/2006/relationships"
P = "http://schemas.openxmlformats.org/package/2006/relationships"


def empty():
    return {"wellformed": False, "active": -1, "sheets": [], "names": []}


def _rels(parts, part):
    """relationships of `part` as {Id: (Type, Target, TargetMode)}; None if the rels part does not parse"""
    d, b = posixpath.split(part)
    rp = posixpath.join(d, "_rels", b + ".rels")
    if rp not in parts:
        return {}
    try:
        root = ET.fromstring(parts[rp])
    except ET.ParseError:
        return None
    out = {}
    for rel in root.findall("{%s}Relationship" % P):
        out[rel.get("Id")] = (rel.get("Type", ""), rel.get("Target", ""), rel.get("TargetMode", ""))
    return out


def _resolve(base_part, target):
    if target.startswith("/"):
        return target.lstrip("/")
    return posixpath.normpath(posixpath.join(posixpath.dirname(base_part), target))


def _bool(v):
    return v in ("1", "true")


def view(data):
    out = empty()
    z = zipfile.ZipFile(io.BytesIO(data))
    parts = {n: z.read(n) for n in z.namelist()}
    wbpart = "xl/workbook.xml"
    wb = ET.fromstring(parts[wbpart])
    out["wellformed"] = True
    wbrels = _rels(parts, wbpart)
    if wbrels is None:
        out["wellformed"] = False
        wbrels = {}
    out["active"] = 0
    bv = wb.find("{%s}bookViews" % M)
    if bv is not None:
        v = bv.find("{%s}workbookView" % M)
        if v is not None and v.get("activeTab") is not None:
            out["active"] = int(v.get("activeTab"))
    sheets = wb.find("{%s}sheets" % M)
    for sh in (sheets.findall("{%s}sheet" % M) if sheets is not None else []):
        item = {"name": sh.get("name", ""), "state": sh.get("state", "visible"), "links": [], "merges": [], "badrid": 0}
        rid = sh.get("{%s}id" % R)
        rel = wbrels.get(rid)
        part = _resolve(wbpart, rel[1]) if rel else None
        if part is None or part not in parts:
            out["wellformed"] = False
            out["sheets"].append(item)
            continue
        try:
            root = ET.fromstring(parts[part])
        except ET.ParseError:
            out["wellformed"] = False
            out["sheets"].append(item)
            continue
        srels = _rels(parts, part)
        if srels is None:
            out["wellformed"] = False
            srels = {}
        mc = root.find("{%s}mergeCells" % M)
        if mc is not None:
            item["merges"] = [m.get("ref", "") for m in mc.findall("{%s}mergeCell" % M)]
        hl = root.find("{%s}hyperlinks" % M)
        if hl is not None:
            for h in hl.findall("{%s}hyperlink" % M):
                r = h.get("{%s}id" % R)
                if r is not None:
                    t = srels.get(r)
                    if t is None:
                        item["badrid"] += 1
                        item["links"].append({"cell": h.get("ref", ""), "url": "!unresolved " + r, "loc": False, "tip": h.get("tooltip", "")})
                    else:
                        item["links"].append({"cell": h.get("ref", ""), "url": t[1], "loc": False, "tip": h.get("tooltip", "")})
                else:
                    item["links"].append({"cell": h.get("ref", ""), "url": h.get("location", ""), "loc": True, "tip": h.get("tooltip", "")})
        out["sheets"].append(item)
    dn = wb.find("{%s}definedNames" % M)
    if dn is not None:
        for d in dn.findall("{%s}definedName" % M):
            out["names"].append({"name": d.get("name", ""),
                                 "local": int(d.get("localSheetId")) if d.get("localSheetId") is not None else -1,
                                 "addr": "".join(d.itertext()), "hidden": _bool(d.get("hidden", "0"))})
    return out
