"""Cell references emitted in the sheet part of a saved workbook (C10: "every existing cell is emitted on save").

Independent of the library: zipfile + regular expressions only.  The first sheet is located through
xl/workbook.xml (first <sheet r:id=..>) and xl/_rels/workbook.xml.rels; the part is scanned for <row r=".."> and
<c r="..">.  A projection, not a judge: TLC compares the result with the specification's cell set.
"""
import io, re, zipfile

_A = "ABCDEFGHIJKLMNOPQRSTUVWXYZ"
_tag = re.compile(rb'<(row|c)\b[^>]*?\br="([^"]*)"')


def col_index(name):
    n = 0
    for ch in name.upper():
        n = n * 26 + _A.index(ch) + 1
    return n


def sheet_part_name(z, index=0):
    """Part name of the index-th sheet of the workbook, following the relationships from the workbook part."""
    wb = z.read("xl/workbook.xml")
    rids = re.findall(rb'<sheet\b[^>]*?\br:id="([^"]+)"', wb)
    rels = z.read("xl/_rels/workbook.xml.rels")
    target = None
    for m in re.finditer(rb'<Relationship\b[^>]*>', rels):
        tag = m.group(0)
        i = re.search(rb'\bId="([^"]+)"', tag)
        t = re.search(rb'\bTarget="([^"]+)"', tag)
        if i and t and index < len(rids) and i.group(1) == rids[index]:
            target = t.group(1).decode()
    if target is None:
        raise ValueError("sheet part not found")
    target = target.lstrip("/")
    return target if target.startswith("xl/") else "xl/" + target


def sheet_xml(data, index=0):
    with zipfile.ZipFile(io.BytesIO(data)) as z:
        return z.read(sheet_part_name(z, index))


def cell_refs(data, index=0):
    """(rows, cells): rows = the r of every <row> in document order; cells = [row, col] of every <c r=..> in
    document order (duplicates kept).  A <c> without a parsable reference is reported as [0, 0]."""
    xml = sheet_xml(data, index)
    rows, cells = [], []
    for m in _tag.finditer(xml):
        kind, ref = m.group(1), m.group(2)
        if kind == b"row":
            rows.append(int(ref) if ref.isdigit() and len(ref) <= 9 else 0)
        else:
            mm = re.fullmatch(rb'\$?([A-Za-z]{1,3})\$?([0-9]{1,9})', ref)
            cells.append([int(mm.group(2)), col_index(mm.group(1).decode())] if mm else [0, 0])
    n_c = len(re.findall(rb'<c[\s/>]', xml))
    if n_c != len(cells):                      # a <c> element without r attribute
        cells += [[0, 0]] * (n_c - len(cells))
    return rows, cells


def cell_refs_hex(hexstr, index=0):
    return cell_refs(bytes.fromhex(hexstr), index)
