"""Independent view of xlsx bytes for C04 (python3 stdlib only; built on pydec/xlsx.py's OPC layer, shares no code
with the library under verification).

view(data: bytes) -> {
  "ok":      bool    the bytes are a readable zip archive with a well-formed [Content_Types].xml
  "parts":   [{"name": "/xl/workbook.xml", "ct": content type ("" if none)}]   sorted by name
  "nparts":  int
  "strings": [str]   the string inventory: text of every item of the shared-string part (rich items: concatenated
                     runs), sorted (a multiset: duplicates are kept)
  "nstr":    int
  "vmlorphan": int   number of <v:imagedata> elements in VML drawing parts that carry neither o:relid nor r:id nor
                     r:pict (an image reference that designates nothing), the trigger of known finding C04-KF1
}
It only projects; the judgement is made by TLC (spec/Trace_Resave.tla).
"""
import re
from pydec import xlsx

_IMAGEDATA = re.compile(rb"<v:imagedata\b[^>]*>")


def empty():
    return {"ok": False, "parts": [], "nparts": 0, "strings": [], "nstr": 0, "vmlorphan": 0}


def view(data):
    out = empty()
    if not data:
        return out
    pkg = xlsx.Package(data)
    if not pkg.ok:
        return out
    out["ok"] = bool(pkg.ct_present and pkg.ct_wellformed)
    out["parts"] = [{"name": n, "ct": pkg.content_type(n)[0]} for n in pkg.names]
    out["nparts"] = len(out["parts"])
    wb = pkg.workbook_part()
    sst_part = ""
    if wb:
        for p in pkg.by_type("sharedStrings", wb):
            sst_part = p
            break
    if sst_part:
        _info, items = xlsx.decode_sst(pkg, sst_part, strings=True)
        if items:
            out["strings"] = sorted(it["text"] for it in items)
    out["nstr"] = len(out["strings"])
    orphan = 0
    for n in pkg.names:
        if n.lower().endswith(".vml"):
            for m in _IMAGEDATA.findall(pkg.read(n)):
                if b"o:relid" not in m and b"r:id" not in m and b"r:pict" not in m and b"r:href" not in m:
                    orphan += 1
    out["vmlorphan"] = orphan
    return out
