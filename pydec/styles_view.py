"""Minimal, library-independent projection of xl/styles.xml of a written package (python3 stdlib only).

view(bytes) -> {
  "wellformed": bool      the archive opens and xl/styles.xml parses (expat)
  "sizes": {"fonts", "fills", "borders", "numFmts", "cellXfs", "dxfs"}   number of child elements of each table
                          (an absent table counts 0)
  "declared_ok": bool     every table that has a count attribute declares its real number of children
  "xfs": [...]            the decoded cellXfs records (ids + apply flags), for diagnostics only
}
It only projects; the judgement (table sizes of consecutive saves are equal) is made by TLC in Trace_Styles.
"""
import io, zipfile
import xml.etree.ElementTree as ET

M = "http://schemas.openxmlformats.org/spreadsheetml/2006/main"
TABLES = {"fonts": "font", "fills": "fill", "borders": "border", "numFmts": "numFmt", "cellXfs": "xf", "dxfs": "dxf"}


def view(data):
    out = {"wellformed": False, "sizes": {k: 0 for k in TABLES}, "declared_ok": True, "xfs": []}
    try:
        z = zipfile.ZipFile(io.BytesIO(data))
        root = ET.fromstring(z.read("xl/styles.xml"))
    except Exception:
        return out
    out["wellformed"] = True
    for table, child in TABLES.items():
        el = root.find("{%s}%s" % (M, table))
        if el is None:
            continue
        n = len(el.findall("{%s}%s" % (M, child)))
        out["sizes"][table] = n
        cnt = el.get("count")
        if cnt is not None and cnt != str(n):
            out["declared_ok"] = False
    xfs = root.find("{%s}cellXfs" % M)
    if xfs is not None:
        for xf in xfs.findall("{%s}xf" % M):
            out["xfs"].append({k: xf.get(k, "") for k in ("numFmtId", "fontId", "fillId", "borderId", "applyFont",
                                                          "applyFill", "applyBorder", "applyNumberFormat",
                                                          "applyAlignment", "applyProtection")})
    return out
