"""pydec.decode_extract - the *extraction* side of C03 (owner: C03).

Built on pydec.xlsx (Package: OPC resolution through [Content_Types].xml and the _rels parts; helper
functions).  Where pydec.xlsx.decode *decodes* cells, this module only EXTRACTS the raw encodings that
spec/Decode.tla interprets (TLC is the judge), with the text exactly as the XML parser (expat) delivers
it, plus a few context-free renderings of the same text that TLC cannot compute itself:

  extract(data: bytes) -> {
    "ok": bool, "error": str,
    "sst":   [ {"rich": bool, "runs": [str], "runsx": [str], "cr": bool, "amb": bool, "hx": bool [, "xu", "du"],
                "ph": bool, "pht": str, "se": bool} ],                 # se: written as the empty-element tag <si/>
    "xfs":   [ {"id": int, "custom": bool, "code": str} ],            # cellXfs[i] -> numFmtId (-> <numFmt> code)
    "sheets":[ {"name": str, "kind": str, "noref": bool,
                "cells": [rawcell],                                     # document order
                "links": [ {"r","c","ext": bool,"val": str,"hasloc": bool,"loc": str,"tip": str,"skip": bool} ],
                                                    # ext: r:id present, val = Target of that relationship; location / tooltip
                                                    # attributes as written; skip: range ref or dangling r:id (not judged)
                "tcols": [[str]] } ],                                   # column names per table, sorted
    "names": [ {"name": str, "local": int} ] }                          # defined names, sorted

  rawcell = {"r","c",                 position (cells without r= continue after the previous cell / row); the
                                      specification derives it again from the next four fields (Decode!CellPosition)
             "nr": bool,              the <c> has no r= attribute
             "rf": bool,              the <c> is the first one of its <row> element
             "rra": int,              r= of that <row> (0 = absent)
             "rown": int,             the number this module derived for the cell's <row> element
             "rpre": [int],           r= (0 = absent) of the cell-less <row> elements between the previous cell's row
                                      and this one (only on the first cell of a row)
             "t": str, "s": int,      attributes as written ("" / -1 = absent)
             "hv": bool, "vx": str,   <v> present; its text (white space at both ends removed unless t="str")
             "v": str,                the same with ST_Xstring escapes (_xHHHH_) undone for t="str"
             "vt": str,               vx without outer white space
             "vb": str,               v as the bit pattern of the nearest double ("" unless t is ""/"n" and v is a number)
             "vi": int,               v as a non-negative integer (-1 if it is none)
             "his": bool, "isr": {"rich","runs","runsx","gb","cr","amb"},     <is> (CT_Rst); gb = the last run as
                                      a double ("" if it is no number)
             "cr": bool,              the sheet part contains a literal CR and this cell's text a line break
             "f": {"k": "none"|"normal"|"shared"|"array"|<other t=>, "si": int, "ht": bool, "text": str,
                   "toks": [token]}}  toks: the text tokenised (spec/Formula.tla token records) - only for a
                                      shared formula that carries text; [] otherwise
  runs = text of <t> (plain) or of every <r><t> (rich) with ST_Xstring escapes undone, runsx = before that;
  white space at both ends of a <t> is removed unless xml:space="preserve" is in effect, and `amb` says that
  this removal changed something (then the specification does not judge the outer white space: XML delivers
  it, Excel drops it);  hx = a text contains "_x": then xu / du are the UTF-16 code units of every run before
  and after the ST_Xstring decoding of pydec.xlsx.xstring - the specification decodes xu itself (Decode!XDecode,
  a disagreement is a tool error) and does not judge a text whose decoding has a lone surrogate (in runs it
  is shown as U+FFFD);  ph / pht = the item has phonetic runs <rPh> (not part of its text) / the text of the
  last one;  cr = the part contains a literal CR (after the prolog) and the text a line break -
  every conforming XML parser has normalised CR LF / CR to LF there.

The formula tokenizer is independent of the library's; TLC checks that the token list renders back to the
master's text (otherwise the children of that master are not judged).
"""
import re

from pydec import xlsx as X

WS = " \t\r\n"
MAXROW, MAXCOL = 1048576, 16384
ERRORS = ["#NULL!", "#DIV/0!", "#VALUE!", "#REF!", "#NAME?", "#NUM!", "#N/A", "#GETTING_DATA"]
_NUM_RE = re.compile(r"^[+-]?(?:\d+\.?\d*(?:[eE][+-]?\d+)?|\.\d+(?:[eE][+-]?\d+)?)$")


def num_bits(text):
    """bit pattern of the double nearest to a plain decimal numeral ('' if the text is none)"""
    return X.f64_bits(text) if _NUM_RE.match(text) else ""


def _child(el, name):
    for ch in el:
        if X.local(ch.tag) == name and X.is_main(ch.tag):
            return ch
    return None


def _children(el, name):
    return [ch for ch in el if X.local(ch.tag) == name and X.is_main(ch.tag)]


def _t_text(t_el, inherited):
    raw = t_el.text or ""
    sp = t_el.get("{%s}space" % X.XML_NS)
    preserve = (sp == "preserve") if sp is not None else inherited
    amb = False
    if not preserve:
        st = raw.strip(WS)
        amb = st != raw
        raw = st
    return raw, amb


def units(s):
    """UTF-16 code units of a text (a lone surrogate stays what it is)"""
    b = s.encode("utf-16-le", "surrogatepass")
    return [b[i] | (b[i + 1] << 8) for i in range(0, len(b), 2)]


def jsonable(s):
    """a text with every lone surrogate replaced by U+FFFD (lone surrogates cannot travel as JSON text)"""
    return s.encode("utf-16-le", "surrogatepass").decode("utf-16-le", "replace")


def xfields(rx):
    """for texts that contain "_x": the code units before (xu) and after (du) pydec.xlsx.xstring, per run, so that the
    specification can redo the ST_Xstring decoding itself (Decode!XDecode) and see lone surrogates"""
    if not any("_x" in s for s in rx):
        return {"hx": False}
    return {"hx": True, "xu": [units(s) for s in rx], "du": [units(X.xstring(s)) for s in rx]}


def rst(el, part_cr):
    """CT_Rst (<si>, <is>) -> {"rich","runs","runsx","cr","amb","hx"[,"xu","du"],"ph","pht"}
    ph = the item has phonetic runs (<rPh>), which are not part of its text; pht = text of the last one"""
    sp = el.get("{%s}space" % X.XML_NS) == "preserve"
    runs = _children(el, "r")
    t = _child(el, "t")
    rx, amb = [], False
    if runs:
        if t is not None:
            s, a = _t_text(t, sp)
            rx.append(s)
            amb = amb or a
        for r in runs:
            rt = _child(r, "t")
            s, a = _t_text(rt, sp) if rt is not None else ("", False)
            rx.append(s)
            amb = amb or a
        rich = True
    else:
        s, a = _t_text(t, sp) if t is not None else ("", False)
        rx, amb, rich = [s], a, False
    phs = _children(el, "rPh")
    pht = ""
    if phs:
        pt = _child(phs[-1], "t")
        pht = jsonable(X.xstring(_t_text(pt, sp)[0])) if pt is not None else ""
    out = {"rich": rich, "runs": [jsonable(X.xstring(s)) for s in rx], "runsx": rx,
           "cr": bool(part_cr and any("\n" in s for s in rx)), "amb": amb, "ph": bool(phs), "pht": pht}
    out.update(xfields(rx))
    return out


# ---------------------------------------------------------------------------------------------
# formula tokenizer (for the masters of shared formulas) -> token records of spec/Formula.tla
# ---------------------------------------------------------------------------------------------
_CELL = re.compile(r"(\$?)([A-Z]{1,3})(\$?)([1-9][0-9]{0,6})")
_COLS = re.compile(r"(\$?)([A-Z]{1,3}):(\$?)([A-Z]{1,3})(?![A-Za-z0-9_.$(])")
_ROWS = re.compile(r"(\$?)([1-9][0-9]{0,6}):(\$?)([1-9][0-9]{0,6})(?![A-Za-z0-9_.$(])")
_NUMBER = re.compile(r"(?:\d+\.?\d*|\.\d+)(?:[eE][+-]?\d+)?")
_IDENT = re.compile(r"[A-Za-z_\\\u0080-\uffff][A-Za-z0-9_.\\?\u0080-\uffff]*")
_SHEET = re.compile(r"([A-Za-z_\u0080-\uffff][A-Za-z0-9_.\u0080-\uffff]*(?::[A-Za-z_\u0080-\uffff][A-Za-z0-9_.\u0080-\uffff]*)?)!")
OPERAND_END = {"ref", "referr", "num", "str", "name", "bool", "err", "arr", "brk", "close", "post"}


def _geo(k, c1=0, r1=0, lc1=False, lr1=False, c2=0, r2=0, lc2=False, lr2=False):
    return {"k": k, "c1": c1, "r1": r1, "lc1": lc1, "lr1": lr1, "c2": c2, "r2": r2, "lc2": lc2, "lr2": lr2}


def _geometry(text, i):
    """a reference geometry starting at text[i] -> (geo, end) or None; ranges must be written normalised"""
    m = _CELL.match(text, i)
    if m:
        c1, r1 = X.col_to_num(m.group(2)), int(m.group(4))
        if c1 <= MAXCOL and r1 <= MAXROW:
            end = m.end()
            if end < len(text) and text[end] == ":":
                m2 = _CELL.match(text, end + 1)
                if m2:
                    c2, r2 = X.col_to_num(m2.group(2)), int(m2.group(4))
                    e2 = m2.end()
                    if c2 <= MAXCOL and r2 <= MAXROW and not (e2 < len(text) and re.match(r"[A-Za-z0-9_.$(]", text[e2])):
                        return _geo("rect", c1, r1, m.group(1) == "$", m.group(3) == "$",
                                    c2, r2, m2.group(1) == "$", m2.group(3) == "$"), e2
            if not (end < len(text) and re.match(r"[A-Za-z0-9_.$(!]", text[end])):
                return _geo("cell", c1, r1, m.group(1) == "$", m.group(3) == "$"), end
    m = _COLS.match(text, i)
    if m:
        c1, c2 = X.col_to_num(m.group(2)), X.col_to_num(m.group(4))
        if c1 <= MAXCOL and c2 <= MAXCOL:
            return _geo("cols", c1, 0, m.group(1) == "$", False, c2, 0, m.group(3) == "$", False), m.end()
    m = _ROWS.match(text, i)
    if m:
        r1, r2 = int(m.group(2)), int(m.group(4))
        if r1 <= MAXROW and r2 <= MAXROW:
            return _geo("rows", 0, r1, False, m.group(1) == "$", 0, r2, False, m.group(3) == "$"), m.end()
    return None


def _split_array(body):
    rows, row, cur, instr = [], [], [], False
    for ch in body:
        if instr:
            cur.append(ch)
            if ch == '"':
                instr = False
        elif ch == '"':
            instr = True
            cur.append(ch)
        elif ch == ",":
            row.append("".join(cur))
            cur = []
        elif ch == ";":
            row.append("".join(cur))
            rows.append(row)
            row, cur = [], []
        else:
            cur.append(ch)
    row.append("".join(cur))
    rows.append(row)
    return rows


def tokenize(text):
    """formula text (without '=') -> list of Formula.tla tokens; [] if the text cannot be tokenised"""
    toks, i, n = [], 0, len(text)

    def prev_kind():
        for t in reversed(toks):
            if t["k"] not in ("ws", "isect"):
                return t["k"]
        return ""
    try:
        while i < n:
            ch = text[i]
            if ch == " ":
                j = i
                while j < n and text[j] == " ":
                    j += 1
                toks.append({"k": "ws", "n": j - i})          # ws / isect decided afterwards
                i = j
            elif ch == '"':
                j, cs = i + 1, []
                while True:
                    if text[j] == '"':
                        if j + 1 < n and text[j + 1] == '"':
                            cs.append('"')
                            j += 2
                            continue
                        break
                    cs.append(text[j])
                    j += 1
                toks.append({"k": "str", "cs": cs})
                i = j + 1
            elif ch == "'":
                j, cs = i + 1, []
                while True:
                    if text[j] == "'":
                        if j + 1 < n and text[j + 1] == "'":
                            cs.append("'")
                            j += 2
                            continue
                        break
                    cs.append(text[j])
                    j += 1
                if text[j + 1] != "!":
                    return []
                if "[" in cs:                                   # external workbook: opaque
                    g = _geometry(text, j + 2)
                    end = g[1] if g else j + 2
                    toks.append({"k": "brk", "s": text[i:end]})
                    i = end
                    continue
                g = _geometry(text, j + 2)
                if g is None:                                   # 'Sheet'!name
                    m = _IDENT.match(text, j + 2)
                    end = m.end() if m else j + 2
                    toks.append({"k": "brk", "s": text[i:end]})
                    i = end
                    continue
                toks.append({"k": "ref", "qc": cs, "qq": True, "g": g[0]})
                i = g[1]
            elif ch == "{":
                j = text.index("}", i)
                toks.append({"k": "arr", "rows": _split_array(text[i + 1:j])})
                i = j + 1
            elif ch == "[":
                depth, j = 0, i
                while True:
                    if text[j] == "[":
                        depth += 1
                    elif text[j] == "]":
                        depth -= 1
                        if depth == 0:
                            break
                    j += 1
                j += 1
                while j < n and re.match(r"[A-Za-z0-9_.!$:]", text[j]):      # [1]Sheet1!$A$1
                    j += 1
                toks.append({"k": "brk", "s": text[i:j]})
                i = j
            elif ch == "#":
                for e in ERRORS:
                    if text.startswith(e, i):
                        toks.append({"k": "err", "s": e})
                        i += len(e)
                        break
                else:
                    return []
            elif ch == "(":
                toks.append({"k": "open", "s": "("})
                i += 1
            elif ch == ")":
                toks.append({"k": "close", "s": ")"})
                i += 1
            elif ch == ",":
                toks.append({"k": "sep", "s": ","})
                i += 1
            elif ch == "%":
                toks.append({"k": "post", "s": "%"})
                i += 1
            elif ch in "+-":
                toks.append({"k": "op" if prev_kind() in OPERAND_END else "pre", "s": ch})
                i += 1
            elif ch in "*/^&=":
                toks.append({"k": "op", "s": ch})
                i += 1
            elif ch in "<>":
                two = text[i:i + 2]
                if two in ("<=", ">=", "<>"):
                    toks.append({"k": "op", "s": two})
                    i += 2
                else:
                    toks.append({"k": "op", "s": ch})
                    i += 1
            else:
                g = _geometry(text, i)
                if g is not None:
                    toks.append({"k": "ref", "qc": [], "qq": False, "g": g[0]})
                    i = g[1]
                    continue
                m = _SHEET.match(text, i)
                if m:
                    g = _geometry(text, m.end())
                    if g is not None:
                        toks.append({"k": "ref", "qc": list(m.group(1)), "qq": False, "g": g[0]})
                        i = g[1]
                        continue
                    m2 = _IDENT.match(text, m.end())            # Sheet1!name
                    end = m2.end() if m2 else m.end()
                    toks.append({"k": "brk", "s": text[i:end]})
                    i = end
                    continue
                m = _NUMBER.match(text, i)
                if m and ch in "0123456789.":
                    toks.append({"k": "num", "s": m.group(0)})
                    i = m.end()
                    continue
                m = _IDENT.match(text, i)
                if not m:
                    return []
                word, end = m.group(0), m.end()
                if end < n and text[end] == "(":
                    toks.append({"k": "fn", "s": word})
                    i = end + 1
                elif end < n and text[end] == "[":              # Table1[Col]
                    depth, j = 0, end
                    while True:
                        if text[j] == "[":
                            depth += 1
                        elif text[j] == "]":
                            depth -= 1
                            if depth == 0:
                                break
                        j += 1
                    toks.append({"k": "brk", "s": text[i:j + 1]})
                    i = j + 1
                elif word in ("TRUE", "FALSE"):
                    toks.append({"k": "bool", "s": word})
                    i = end
                else:
                    toks.append({"k": "name", "cs": list(word)})
                    i = end
    except (IndexError, ValueError):
        return []
    # blanks between an operand end and an operand start are the intersection operator
    starts = {"ref", "referr", "num", "str", "name", "bool", "err", "arr", "brk", "open", "fn"}
    for k, t in enumerate(toks):
        if t["k"] == "ws" and 0 < k < len(toks) - 1 and toks[k - 1]["k"] in OPERAND_END and toks[k + 1]["k"] in starts:
            t["k"] = "isect"
    return toks


# ---------------------------------------------------------------------------------------------
# extraction
# ---------------------------------------------------------------------------------------------
def _styles(pkg, part):
    xfs = []
    root = pkg.xml(part) if part and pkg.exists(part) else None
    if root is None:
        return xfs
    codes = {}
    nf = _child(root, "numFmts")
    if nf is not None:
        for x in _children(nf, "numFmt"):
            try:
                codes[int(x.get("numFmtId"))] = x.get("formatCode", "")
            except (TypeError, ValueError):
                pass
    cx = _child(root, "cellXfs")
    if cx is not None:
        for xf in _children(cx, "xf"):
            try:
                nid = int(xf.get("numFmtId", "0"))
            except ValueError:
                nid = -1
            # the apply* flags are honoured by the reader under test; where a flag switches the number format
            # off the specification does not judge (id -1 is outside every list)
            off = xf.get("applyNumberFormat") in ("0", "false")
            if off:
                nid = -1
            xfs.append({"id": nid, "custom": nid in codes, "code": codes.get(nid, "")})
    return xfs


def _cell(c, crow, ccol, nr, part_cr, rowinfo):
    t = c.get("t", "")
    v = _child(c, "v")
    isel = _child(c, "is")
    f = _child(c, "f")
    vraw = (v.text or "") if v is not None else ""
    vx = vraw if t == "str" else vraw.strip(WS)
    vv = jsonable(X.xstring(vx)) if t == "str" else vx
    try:
        s = int(c.get("s")) if c.get("s") is not None else -1
    except ValueError:
        s = -2
    raw = {"r": crow, "c": ccol, "nr": nr, "t": t, "s": s, "hv": v is not None, "vx": vx, "v": vv, "vt": vx.strip(WS),
           "vb": num_bits(vx) if t in ("", "n") else "", "vi": int(vx) if (vx.isdigit() and len(vx) < 10) else -1,
           "his": isel is not None, "cr": bool(part_cr and t == "str" and "\n" in vx)}
    raw.update(rowinfo)
    raw.update(xfields([vx]) if t == "str" else {"hx": False})
    if isel is not None:
        item = rst(isel, part_cr)
        item["gb"] = num_bits(item["runsx"][-1]) if item["runsx"] else ""
        raw["isr"] = item
    else:
        raw["isr"] = {"rich": False, "runs": [], "runsx": [], "gb": "", "cr": False, "amb": False, "hx": False,
                      "ph": False, "pht": ""}
    if f is None:
        raw["f"] = {"k": "none", "si": -1, "ht": False, "text": "", "toks": []}
    else:
        k = f.get("t", "normal")
        text = f.text or ""
        try:
            si = int(f.get("si")) if f.get("si") is not None else -1
        except ValueError:
            si = -1
        raw["f"] = {"k": k, "si": si, "ht": text != "", "text": text,
                    "toks": tokenize(text) if (k == "shared" and text != "") else []}
    return raw


def _sheet(pkg, part, want_cells=True):
    out = {"cells": [], "links": [], "tcols": [], "noref": False}
    root = pkg.xml(part) if part and pkg.exists(part) else None
    if root is None or X.local(root.tag) != "worksheet":
        return out
    data = pkg.read(part)
    part_cr = b"\r" in data and b"\r" in re.sub(rb">\s*<", b"><", data[max(data.find(b"?>"), 0):])
    sd = _child(root, "sheetData")
    next_row, n_nr, n_c = 1, 0, 0
    rpre = []                       # r attributes (0 = absent) of the cell-less <row> elements since the last cell
    if sd is not None and want_cells:
        for row in _children(sd, "row"):
            try:
                rra = int(row.get("r")) if row.get("r") is not None else 0
            except ValueError:
                rra = 0
            rnum = rra if rra > 0 else next_row
            next_row = rnum + 1
            next_col = 1
            cs = _children(row, "c")
            if not cs:
                rpre.append(rra)
            for ci, c in enumerate(cs):
                # what the specification needs to derive the position itself (Decode!RowAfter / CellPosition)
                rowinfo = {"rf": ci == 0, "rra": rra, "rpre": rpre if ci == 0 else [], "rown": rnum}
                if ci == 0:
                    rpre = []
                ref = c.get("r")
                if ref is None:
                    crow, ccol, nr = rnum, next_col, True
                else:
                    crow, ccol = X.parse_ref(ref)
                    nr = False
                next_col = (ccol if ccol > 0 else next_col) + 1
                n_c += 1
                n_nr += 1 if nr else 0
                out["cells"].append(_cell(c, crow, ccol, nr, part_cr, rowinfo))
    out["noref"] = n_c > 0 and n_nr == n_c
    hl = _child(root, "hyperlinks")
    if hl is not None:
        for h in _children(hl, "hyperlink"):
            ref = h.get("ref", "")
            rid = ""
            for nsu in X.DOC_REL_NS:
                if h.get("{%s}id" % nsu) is not None:
                    rid = h.get("{%s}id" % nsu)
            rel = pkg.rel_target(part, rid) if rid else None
            r1, c1, r2, c2 = X.parse_range(ref)
            loc = h.get("location")
            skip = (r1, c1) != (r2, c2) or r1 < 1 or c1 < 1 or (rid != "" and rel is None) or (rid == "" and loc is None)
            out["links"].append({"r": r1, "c": c1, "ext": rid != "", "val": (rel["target"] if rel else "") if rid else "",
                                 "hasloc": loc is not None, "loc": loc or "", "tip": h.get("tooltip", ""),
                                 "skip": bool(skip)})
    for it in pkg.rels_of(part):
        if not it["external"] and it["kind"] == "table" and pkg.exists(it["resolved"]):
            troot = pkg.xml(it["resolved"])
            if troot is not None:
                tc = _child(troot, "tableColumns")
                out["tcols"].append([c.get("name", "") for c in _children(tc, "tableColumn")] if tc is not None else [])
    out["tcols"].sort()
    return out


def extract(data, want_cells=True):
    pkg = X.Package(data)
    out = {"ok": pkg.ok, "error": pkg.error, "sst": [], "xfs": [], "sheets": [], "names": []}
    wbp = pkg.workbook_part()
    root = pkg.xml(wbp) if wbp and pkg.exists(wbp) else None
    if root is None:
        out["ok"] = False
        out["error"] = out["error"] or "no workbook part"
        return out
    sst_part = styles_part = ""
    for it in pkg.rels_of(wbp):
        if it["external"]:
            continue
        if it["kind"] == "sharedStrings" and not sst_part:
            sst_part = it["resolved"]
        elif it["kind"] == "styles" and not styles_part:
            styles_part = it["resolved"]
    out["xfs"] = _styles(pkg, styles_part)
    sroot = pkg.xml(sst_part) if sst_part and pkg.exists(sst_part) else None
    if sroot is not None:
        d = pkg.read(sst_part)
        part_cr = b"\r" in re.sub(rb">\s*<", b"><", d[max(d.find(b"?>"), 0):])
        out["sst"] = [rst(si, part_cr) for si in _children(sroot, "si")]
        # se: the item is written as an empty-element tag <si/> (the element tree cannot tell it from <si></si>)
        tags = re.findall(rb"<(?:[A-Za-z_][\w.-]*:)?si(?:\s[^<>]*?)?(/?)>", d)
        for k, item in enumerate(out["sst"]):
            item["se"] = bool(len(tags) == len(out["sst"]) and tags[k] == b"/")
    sheets = _child(root, "sheets")
    if sheets is not None:
        for s in _children(sheets, "sheet"):
            rid = ""
            for nsu in X.DOC_REL_NS:
                if s.get("{%s}id" % nsu) is not None:
                    rid = s.get("{%s}id" % nsu)
            rel = pkg.rel_target(wbp, rid) if rid else None
            part = rel["resolved"] if rel and not rel["external"] else ""
            sh = _sheet(pkg, part, want_cells)
            sh["name"] = s.get("name", "")
            sh["kind"] = rel["kind"] if rel else ""
            out["sheets"].append(sh)
    dn = _child(root, "definedNames")
    if dn is not None:
        for d in _children(dn, "definedName"):
            try:
                loc = int(d.get("localSheetId")) if d.get("localSheetId") is not None else -1
            except ValueError:
                loc = -1
            out["names"].append({"name": d.get("name", ""), "local": loc})
    out["names"].sort(key=lambda x: (x["name"], x["local"]))
    return out
