"""Evaluator of the byte-string TERMS emitted by spec/PwdHash.tla (C15).

This is not an implementation of the password hash: it knows nothing about salts, spin counts or the
order of concatenation.  It interprets the term language of the specification

    Leaf(name)            value bound by the caller (alg: str, salt: str, spin: int, pw: str)
    Int(v)                integer constant
    Acc, Idx              the loop variables of the innermost Iter (bytes / int)
    U16LE(x)              str   -> bytes   UTF-16 little endian, no BOM
    B64Dec(x)             str   -> bytes   (strict RFC 4648 base64)
    B64Enc(x)             bytes -> str
    Cat(x, y)             bytes, bytes -> bytes
    LE32(n)               int   -> 4 bytes little endian
    H(alg, x)             hash function named by the ECMA-376 algorithm name `alg`
    Iter(n, first, init, body)   acc := init; for k in 0..n-1: acc := body[Acc:=acc, Idx:=first+k]

with hashlib, on the JSON text that TLC printed (ToJson(Template)).  The structure of the
computation - what is hashed, in which order, how often, starting from which counter - comes from the
specification only.  Results that cannot be computed are returned as strings starting with "!" (they
can never equal a base64 text), so that the caller's comparison (done by TLC) fails instead of this
module judging anything.
"""
import base64, binascii, hashlib, json, struct

# ECMA-376 Part 1, 18.8.? ST_AlgorithmName / 22.4.2.? : names as they appear in algorithmName
ALGS = {"SHA-512": "sha512", "SHA-384": "sha384", "SHA-256": "sha256", "SHA-1": "sha1", "MD5": "md5"}
MAX_SPIN = 10_000_000


class Uncomputable(Exception):
    pass


def _hash_ctor(name):
    if not isinstance(name, str) or name not in ALGS:
        raise Uncomputable("alg")
    return getattr(hashlib, ALGS[name])


def _compile(t):
    """Turn a term into a Python closure env -> value (env: dict with leaves, 'acc', 'idx')."""
    op = t["op"]
    if op == "Leaf":
        name = t["name"]
        return lambda env: env[name]
    if op == "Int":
        v = int(t["v"])
        return lambda env: v
    if op == "Acc":
        return lambda env: env["acc"]
    if op == "Idx":
        return lambda env: env["idx"]
    if op == "U16LE":
        x = _compile(t["x"])
        return lambda env: x(env).encode("utf-16-le")
    if op == "B64Dec":
        x = _compile(t["x"])

        def dec(env):
            s = x(env)
            try:
                return base64.b64decode(s.encode("ascii"), validate=True)
            except (binascii.Error, UnicodeEncodeError, ValueError):
                raise Uncomputable("base64")
        return dec
    if op == "B64Enc":
        x = _compile(t["x"])
        return lambda env: base64.b64encode(x(env)).decode("ascii")
    if op == "Cat":
        x, y = _compile(t["x"]), _compile(t["y"])
        return lambda env: x(env) + y(env)
    if op == "LE32":
        n = _compile(t["n"])

        def le32(env):
            v = n(env)
            if not (0 <= v < 1 << 32):
                raise Uncomputable("le32")
            return struct.pack("<I", v)
        return le32
    if op == "H":
        a, x = _compile(t["alg"]), _compile(t["x"])
        return lambda env: _hash_ctor(a(env))(x(env)).digest()
    if op == "Iter":
        n, first, init, body = (_compile(t[k]) for k in ("n", "first", "init", "body"))

        def it(env):
            cnt, f = n(env), first(env)
            if not isinstance(cnt, int) or cnt < 0 or cnt > MAX_SPIN:
                raise Uncomputable("spin")
            e = dict(env)
            e["acc"] = init(env)
            for k in range(cnt):
                e["idx"] = f + k
                e["acc"] = body(e)
            return e["acc"]
        return it
    raise ValueError("unknown term operator " + repr(op))


_cache = {}


def evaluate(term_json, binding):
    """term_json: the JSON text printed by TLC; binding: dict leaf name -> value."""
    f = _cache.get(term_json)
    if f is None:
        f = _cache[term_json] = _compile(json.loads(term_json))
    try:
        v = f(dict(binding))
    except Uncomputable as e:
        return "!" + str(e)
    return v if isinstance(v, str) else "!bytes:" + v.hex()


def evaluate_job(job):
    """(term_json, alg, salt, spin, pw) -> value; top-level so that it can run in a process pool."""
    term_json, alg, salt, spin, pw = job
    return evaluate(term_json, {"alg": alg, "salt": salt, "spin": spin, "pw": pw})


if __name__ == "__main__":
    import sys
    print(evaluate(sys.argv[1], {"alg": sys.argv[2], "salt": sys.argv[3], "spin": int(sys.argv[4]), "pw": sys.argv[5]}))
