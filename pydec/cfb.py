"""Compound File Binary (MS-CFB) reader, written from the format description only (python3 stdlib).

Shares no code with the `cfb` crate the library uses.  read_cfb(bytes) -> {stream path: bytes} for
every stream of the file ("EncryptionInfo", "EncryptedPackage", "\\x06DataSpaces/Version", ...).
Any structural defect raises CfbError(reason): the caller logs it, it never judges.
"""
import struct

SIG = bytes.fromhex("D0CF11E0A1B11AE1")
FREESECT, ENDOFCHAIN, FATSECT, DIFSECT = 0xFFFFFFFF, 0xFFFFFFFE, 0xFFFFFFFD, 0xFFFFFFFC
NOSTREAM = 0xFFFFFFFF


class CfbError(Exception):
    pass


def read_cfb(data):
    if len(data) < 512 or data[:8] != SIG:
        raise CfbError("no compound-file signature")
    minor, major, bom, sshift, mshift = struct.unpack_from("<HHHHH", data, 0x18)
    if bom != 0xFFFE:
        raise CfbError("byte order mark is not 0xFFFE")
    if (major, sshift) not in ((3, 9), (4, 12)):
        raise CfbError(f"major version {major} with sector shift {sshift}")
    if mshift != 6:
        raise CfbError(f"mini sector shift {mshift}")
    ssz, msz = 1 << sshift, 1 << mshift
    (ndir, nfat, dir_start, _tx, cutoff, minifat_start, nminifat, difat_start, ndifat) = \
        struct.unpack_from("<IIIIIIIII", data, 0x28)
    if cutoff != 4096:
        raise CfbError(f"mini stream cutoff {cutoff}")

    def sector(n):
        off = (n + 1) * ssz
        if n > 0xFFFFFFFA or off + ssz > len(data):
            # the last sector of a file may be short in files written by some producers; be strict:
            raise CfbError(f"sector {n} lies outside the file")
        return data[off:off + ssz]

    # DIFAT: 109 entries in the header, then chained DIFAT sectors
    difat = list(struct.unpack_from("<109I", data, 0x4C))
    s, seen = difat_start, 0
    while s not in (ENDOFCHAIN, FREESECT):
        seen += 1
        if seen > ndifat + 1 or seen > 1 << 20:
            raise CfbError("DIFAT chain too long / cyclic")
        sec = sector(s)
        ent = struct.unpack("<%dI" % (ssz // 4), sec)
        difat.extend(ent[:-1])
        s = ent[-1]
    fat_sectors = [x for x in difat if x != FREESECT]
    if len(fat_sectors) != nfat:
        raise CfbError(f"header says {nfat} FAT sectors, DIFAT lists {len(fat_sectors)}")
    fat = []
    for fs in fat_sectors:
        fat.extend(struct.unpack("<%dI" % (ssz // 4), sector(fs)))

    def chain(start, table, what):
        out, s, n = [], start, 0
        while s != ENDOFCHAIN:
            if s >= len(table):
                raise CfbError(f"{what}: chain leaves the allocation table at {s}")
            out.append(s)
            n += 1
            if n > len(table):
                raise CfbError(f"{what}: cyclic chain")
            s = table[s]
        return out

    def read_big(start, size, what):
        if size == 0:
            return b""
        secs = chain(start, fat, what)
        if len(secs) * ssz < size:
            raise CfbError(f"{what}: chain of {len(secs)} sectors is shorter than the declared size {size}")
        return b"".join(sector(x) for x in secs)[:size]

    # directory
    dir_bytes = b"".join(sector(x) for x in chain(dir_start, fat, "directory"))
    entries = []
    for i in range(len(dir_bytes) // 128):
        e = dir_bytes[i * 128:(i + 1) * 128]
        nlen = struct.unpack_from("<H", e, 0x40)[0]
        typ = e[0x42]
        if typ == 0:
            entries.append(None)
            continue
        if nlen < 2 or nlen > 64 or nlen % 2:
            raise CfbError(f"directory entry {i}: name length {nlen}")
        name = e[:nlen - 2].decode("utf-16-le")
        left, right, child = struct.unpack_from("<III", e, 0x44)
        start = struct.unpack_from("<I", e, 0x74)[0]
        size = struct.unpack_from("<Q", e, 0x78)[0]
        if major == 3:
            size &= 0xFFFFFFFF
        entries.append({"name": name, "type": typ, "left": left, "right": right, "child": child,
                        "start": start, "size": size})
    if not entries or entries[0] is None or entries[0]["type"] != 5:
        raise CfbError("first directory entry is not the root storage")
    root = entries[0]
    ministream = read_big(root["start"], root["size"], "mini stream") if root["size"] else b""
    minifat = []
    if nminifat:
        for x in chain(minifat_start, fat, "miniFAT"):
            minifat.extend(struct.unpack("<%dI" % (ssz // 4), sector(x)))

    def read_mini(start, size, what):
        if size == 0:
            return b""
        secs = chain(start, minifat, what)
        if len(secs) * msz < size:
            raise CfbError(f"{what}: mini chain shorter than the declared size {size}")
        out = []
        for x in secs:
            if (x + 1) * msz > len(ministream):
                raise CfbError(f"{what}: mini sector {x} outside the mini stream")
            out.append(ministream[x * msz:(x + 1) * msz])
        return b"".join(out)[:size]

    streams = {}
    visited = set()

    def walk(idx, prefix):
        # in-order walk of the sibling tree of one storage
        stack = [idx]
        while stack:
            k = stack.pop()
            if k == NOSTREAM:
                continue
            if k >= len(entries) or entries[k] is None:
                raise CfbError(f"directory tree refers to missing entry {k}")
            if k in visited:
                raise CfbError("directory tree is cyclic")
            visited.add(k)
            e = entries[k]
            path = prefix + e["name"]
            if e["type"] == 2:
                if path in streams:
                    raise CfbError(f"duplicate stream {path!r}")
                what = f"stream {path!r}"
                streams[path] = (read_mini if e["size"] < cutoff else read_big)(e["start"], e["size"], what)
            elif e["type"] == 1:
                walk(e["child"], path + "/")
            else:
                raise CfbError(f"directory entry {k} has type {e['type']}")
            stack.append(e["left"])
            stack.append(e["right"])

    visited.add(0)
    walk(root["child"], "")
    return streams
