"""Projection of CSV bytes into a grid of texts (C20).  Python stdlib only.

decode(bytes, enc)        bytes -> code points with the Python codec of the selected encoding
parse(cps, quote)         RFC-4180 reader, delimiter ',' and the given quote character (0 = none)

Nothing here judges: the grid goes into the trace event and TLC compares it with the grid the
specification computes (spec/Csv.tla: Grid).  The reader is written to the same definition as the
specification's reader (PInit/PStep/PEnd in Csv.tla); Trace_Csv.tla re-reads the decoded text with
the specification's reader on every event and reports any disagreement as a tool error.

Reader definition: records end at CRLF, CR or LF outside quotes; an empty line is a record with
one empty field (RFC 4180 grammar: a field may be empty); a final line break does not start another
record; blanks are part of a field.  Lenient like common readers: a quote character in an
unquoted field is literal, text after a closing quote is appended to the field, an unterminated
quoted field ends at the end of the text; `wf` tells whether the strict grammar was followed.
"""

# names of structs::CsvEncodeValues -> Python codec
CODECS = {
    "utf_8": "utf-8",
    "shift_jis": "shift_jis",
    "koi_8_u": "koi8_u",
    "koi_8_r": "koi8_r",
    "iso_8859_8_i": "iso8859_8",
    "gbk": "gbk",
    "euc_kr": "euc_kr",
    "big_5": "big5",
    "utf_16_le": "utf-16-le",
    "utf_16_be": "utf-16-be",
}

COMMA, CR, LF = 44, 13, 10


def decode(data, enc):
    """(ok, code points).  A byte sequence that is not valid in the encoding gives (False, [])."""
    try:
        s = data.decode(CODECS[enc], "strict")
    except (UnicodeDecodeError, ValueError):
        return False, []
    return True, [ord(ch) for ch in s]


def encode(cps, enc):
    """Used by the generator only: can the Python codec represent this text, and round-trip it?"""
    s = "".join(chr(c) for c in cps)
    return s.encode(CODECS[enc], "strict")


class _St:
    __slots__ = ("mode", "cr", "field", "rec", "recs", "wf")

    def __init__(self):
        self.mode, self.cr, self.field, self.rec, self.recs, self.wf = "sof", False, [], [], [], True

    def push_field(self):
        self.rec.append(self.field)
        self.field = []
        self.mode = "sof"

    def end_record(self, cr):
        self.push_field()
        self.recs.append(self.rec)
        self.rec = []
        self.cr = cr


def parse(cps, quote):
    """code points -> (grid, wf); grid = list of records, record = list of fields, field = list of code points"""
    st = _St()
    q = quote
    for ch in cps:
        if st.cr and ch == LF:
            st.cr = False
            continue
        st.cr = False
        m = st.mode
        if m == "sof":
            if q != 0 and ch == q:
                st.mode = "quo"
            elif ch == COMMA:
                st.push_field()
            elif ch == CR or ch == LF:
                st.end_record(ch == CR)
            else:
                st.mode = "unq"
                st.field = [ch]
        elif m == "unq":
            if ch == COMMA:
                st.push_field()
            elif ch == CR or ch == LF:
                st.end_record(ch == CR)
            else:
                st.field.append(ch)
                if q != 0 and ch == q:
                    st.wf = False
        elif m == "quo":
            if ch == q:
                st.mode = "qq"
            else:
                st.field.append(ch)
        else:  # "qq": a quote character seen inside a quoted field
            if ch == q:
                st.mode = "quo"
                st.field.append(ch)
            elif ch == COMMA:
                st.push_field()
            elif ch == CR or ch == LF:
                st.end_record(ch == CR)
            else:
                st.mode = "unq"
                st.field.append(ch)
                st.wf = False
    if not (st.mode == "sof" and not st.rec):
        if st.mode == "quo":
            st.wf = False
        st.end_record(False)
    return st.recs, st.wf
