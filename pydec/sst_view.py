"""Minimal, library-independent view of a written xlsx package for C12/C16 (python3 stdlib only).

view(bytes, universe) -> {
  "wellformed": bool,            every .xml/.rels part parses (expat)
  "present":  [..]               the strings of `universe` that occur anywhere in any part (decompressed bytes, or
                                 as the concatenated runs of a string item / inline string)
  "sst":      [..]               the <si> items of xl/sharedStrings.xml in order (concatenated <t> texts)
  "has_part": bool               xl/sharedStrings.xml is in the archive
  "has_rel":  bool               xl/_rels/workbook.xml.rels has a sharedStrings relationship
  "has_ct":   bool               [Content_Types].xml has an override for /xl/sharedStrings.xml
  "sheets":   [{"name":.., "cells":[[row, text], ..]}]   column-A text cells of every sheet, decoded by the
                                 ECMA-376 rules (t="s" through the table, t="inlineStr", t="str"), in workbook order
  "bad_index": int               number of t="s" cells whose index is outside the table
}
It only projects; the judgement is made by TLC (Trace_SST / Trace_ConcSave).
"""
import io, re, zipfile
import xml.etree.ElementTree as ET

NS = {"m": "http://schemas.openxmlformats.org/spreadsheetml/2006/main",
      "r": "http://schemas.openxmlformats.org/officeDocument/2006/relationships",
      "p": "http://schemas.openxmlformats.org/package/2006/relationships",
      "c": "http://schemas.openxmlformats.org/package/2006/content-types"}


def _si_text(si):
    return "".join((t.text or "") for t in si.iter("{%s}t" % NS["m"]))


def view(data, universe):
    out = {"wellformed": True, "present": [], "sst": [], "has_part": False, "has_rel": False, "has_ct": False,
           "sheets": [], "bad_index": 0}
    z = zipfile.ZipFile(io.BytesIO(data))
    names = z.namelist()
    parts = {n: z.read(n) for n in names}
    for n, b in parts.items():
        if n.endswith(".xml") or n.endswith(".rels") or n.endswith(".vml"):
            try:
                ET.fromstring(b)
            except ET.ParseError:
                out["wellformed"] = False
    blob = b"\n".join(parts.values())
    # a string counts as present when it occurs in the raw bytes of any part, or as the text of a string
    # item / inline string once its runs are concatenated (a rich text is stored run by run)
    joined = []
    for n, b in parts.items():
        if n.endswith(".xml"):
            try:
                root = ET.fromstring(b)
            except ET.ParseError:
                continue
            for el in root.iter():
                if el.tag in ("{%s}si" % NS["m"], "{%s}is" % NS["m"]):
                    joined.append(_si_text(el))
    out["present"] = sorted(s for s in universe if s.encode("utf-8") in blob or any(s in j for j in joined))
    out["has_part"] = "xl/sharedStrings.xml" in parts
    sst = []
    if out["has_part"]:
        root = ET.fromstring(parts["xl/sharedStrings.xml"])
        sst = [_si_text(si) for si in root.findall("m:si", NS)]
    out["sst"] = sst
    rels = {}
    if "xl/_rels/workbook.xml.rels" in parts:
        for rel in ET.fromstring(parts["xl/_rels/workbook.xml.rels"]).findall("p:Relationship", NS):
            rels[rel.get("Id")] = (rel.get("Type"), rel.get("Target"))
            if rel.get("Type", "").endswith("/sharedStrings"):
                out["has_rel"] = True
    if "[Content_Types].xml" in parts:
        for ov in ET.fromstring(parts["[Content_Types].xml"]).findall("c:Override", NS):
            if ov.get("PartName") == "/xl/sharedStrings.xml":
                out["has_ct"] = True
    wb = ET.fromstring(parts["xl/workbook.xml"])
    for sh in wb.find("m:sheets", NS).findall("m:sheet", NS):
        rid = sh.get("{%s}id" % NS["r"])
        target = rels.get(rid, (None, None))[1]
        cells = []
        path = None
        if target is not None:
            path = target.lstrip("/") if target.startswith("/") else "xl/" + target
        if path in parts:
            root = ET.fromstring(parts[path])
            for c in root.iter("{%s}c" % NS["m"]):
                ref = c.get("r", "")
                m = re.match(r"^A(\d+)$", ref)
                if not m:
                    continue
                t = c.get("t", "n")
                v = c.find("m:v", NS)
                text = None
                if t == "s" and v is not None:
                    i = int(v.text)
                    if 0 <= i < len(sst):
                        text = sst[i]
                    else:
                        out["bad_index"] += 1
                        text = "!bad-index"
                elif t == "inlineStr":
                    is_ = c.find("m:is", NS)
                    text = _si_text(is_) if is_ is not None else ""
                elif t == "str" and v is not None:
                    text = v.text or ""
                if text is not None:
                    cells.append([int(m.group(1)), text])
        out["sheets"].append({"name": sh.get("name"), "cells": sorted(cells)})
    return out
