"""Independent projection of the settings / metadata of a written xlsx package for X01 (python3 stdlib only).

The package is walked as ECMA-376 Part 2 describes (pydec.xlsx.Package: [Content_Types].xml, _rels from the package
root); nothing is assumed about the part names the library uses.  Absent attributes get the DEFAULTS OF ECMA-376
Part 1 (what any conforming reader assumes), so the result is "what the file states", not how it is encoded:

view(data: bytes) -> {
  "ok": bool, "err": str,
  "active": int,                                         bookViews/workbookView[1]@activeTab (default 0)
  "sheets": [ {"name", "state" (default "visible"),
      "tab":   [argb]                                    sheetPr/tabColor (rgb, or indexed through the default palette)
      "views": [ {"zoom" (100), "zoomn" (0), "grid" (true), "mode" ("normal"), "tabsel" (false), "tl" (""),
                  "pane": [ {"xs" ("0"), "ys" ("0"), "tl" (""), "ap" ("topLeft"), "st" ("split")} ],
                  "sel":  [ {"pane" ("topLeft"), "cell" (""), "sqref" ("A1")} ]} ],
      "selinfo": [ [ {"acid": activeCellId (0), "hits": [0-based indices of the sqref ranges that contain the active cell],
                     "firstsub": index of the first range whose TEXT contains the text of the active cell (number of
                                 ranges if none; only used to describe a known finding exactly)} ] ],
      "prot":  [ {"flags": {16 flags, ECMA defaults}, "tok": {"alg","hash","salt","spin","legacy"}} ],
      "ps":    {"orient" ("default"), "paper" (1), "scale" (100), "fitw" (1), "fith" (1)},
      "po":    {"hc" (false), "vc" (false)},
      "pm":    {"l","r","t","b","h","f"}                 numbers as shortest decimal text; "" when there is no pageMargins
      "hf":    {"h": oddHeader text, "f": oddFooter text},
      "hrows": [row numbers with hidden=1], "hcols": [column numbers with hidden=1] (min..max expanded),
      "af":    [autoFilter@ref],
      "dvs":   [ {"sqref","type" ("none"),"op" ("between"),"blank","showin","showerr","ptitle","prompt","etitle","emsg","f1","f2"} ],
      "cfs":   [ {"sqref","rules":[{"type","op" ("" if absent),"prio","stop","hasf","f","sty":[{"bold","fill"}],
                                   "text" (""),"rank" (0),"percent" (false),"bottom" (false)}]} ] } ],
  "props":  {"title","subject","creator","keywords","description","lastmod","category","version","revision","created",
             "modified"  (core part), "manager","company" (extended part)}   element text as the XML parser delivers it
  "custom": [ {"name", "kind": "str"|"date"|"num"|"bool"|"other", "v": text} ] }
view(data, raw=True) -> the same walk in the shape of the MODEL STATE of spec/Meta.tla (used to take a real-world file as
the initial state of a case): optional attributes whose absence the model distinguishes are reported as absent
(-1 for numbers and flags, "" for enumerations: zoom, zoomn, grid, mode, pane.ap, selection.pane, protection flags, page setup
numbers, validation / rule operators), a theme colour as "" (the library's get_argb cannot show it), sheets carry
"mat": true, "sstate": "", "acell": "", custom properties "n" / "b"; no "selinfo"; "core_seq": [{"k": property key or "" for
an element that is not one of the eleven core properties, "t": its text}] = the children of the core part in document order.
It only projects; TLC judges (spec/Trace_Meta.tla).
"""
from pydec import xlsx

PALETTE = ("000000 FFFFFF FF0000 00FF00 0000FF FFFF00 FF00FF 00FFFF 000000 FFFFFF FF0000 00FF00 0000FF FFFF00 FF00FF 00FFFF "
           "800000 008000 000080 808000 800080 008080 C0C0C0 808080 9999FF 993366 FFFFCC CCFFFF 660066 FF8080 0066CC CCCCFF "
           "000080 FF00FF FFFF00 00FFFF 800080 800000 008080 0000FF 00CCFF CCFFFF CCFFCC FFFF99 99CCFF FF99CC CC99FF FFCC99 "
           "3366FF 33CCCC 99CC00 FFCC00 FF9900 FF6600 666699 969696 003366 339966 003300 333300 993300 993366 333399 333333").split()
FLAGS = {"sheet": ("sheet", False), "objects": ("objects", False), "scenarios": ("scenarios", False),
         "formatCells": ("formatCells", True), "formatColumns": ("formatColumns", True), "formatRows": ("formatRows", True),
         "insertColumns": ("insertColumns", True), "insertRows": ("insertRows", True),
         "insertHyperlinks": ("insertHyperlinks", True), "deleteColumns": ("deleteColumns", True),
         "deleteRows": ("deleteRows", True), "selectLocked": ("selectLockedCells", False),
         "selectUnlocked": ("selectUnlockedCells", False), "sort": ("sort", True), "autoFilter": ("autoFilter", True),
         "pivotTables": ("pivotTables", True)}
CORE = {"title": "title", "subject": "subject", "creator": "creator", "keywords": "keywords", "description": "description",
        "lastModifiedBy": "lastmod", "category": "category", "version": "version", "revision": "revision",
        "created": "created", "modified": "modified"}
PROP_KEYS = ["title", "subject", "creator", "keywords", "description", "lastmod", "category", "version", "revision",
             "created", "modified", "manager", "company"]


def empty():
    return {"ok": False, "err": "", "active": -1, "sheets": [], "props": {k: "" for k in PROP_KEYS}, "custom": []}


def _tri(el, name):
    v = el.get(name)
    return -1 if v is None else (1 if v.strip() in ("1", "true", "on") else 0)


def _b(el, name, default):
    v = el.get(name)
    return default if v is None else v.strip() in ("1", "true", "on")


def _i(el, name, default):
    v = el.get(name)
    if v is None:
        return default
    try:
        return int(v)
    except ValueError:
        return -999


def _num(v, default):
    """a number attribute as its shortest decimal text ("1", "0.7")"""
    if v is None:
        return default
    try:
        x = float(v)
    except ValueError:
        return "?" + v
    return str(int(x)) if x == int(x) and abs(x) < 1e15 else repr(x)


def _color(el, raw=False):
    if el is None:
        return ""
    if el.get("theme") is not None:
        return ""                       # (a theme colour: outside this projection, as the library's get_argb says)
    if el.get("rgb") is not None:
        return el.get("rgb")
    if el.get("indexed") is not None:
        k = _i(el, "indexed", -1)
        return "FF" + PALETTE[k] if 0 <= k < len(PALETTE) else "indexed%d" % k
    return ""


def _kids(el, name):
    return [c for c in el if xlsx.local(c.tag) == name]


def _kid(el, name):
    for c in el:
        if xlsx.local(c.tag) == name:
            return c
    return None


def _contains(rng, cell):
    r1, c1, r2, c2 = xlsx.parse_range(rng)
    r, c = xlsx.parse_ref(cell)
    if r == 0 or c == 0:
        return False
    lo_r, hi_r = (r1 or 1), (r2 or xlsx.MAX_ROW)
    lo_c, hi_c = (c1 or 1), (c2 or xlsx.MAX_COL)
    return lo_r <= r <= hi_r and lo_c <= c <= hi_c


def _dxfs(pkg, raw=False):
    out = []
    for part in pkg.by_type("styles"):
        root = pkg.xml(part)
        if root is None:
            continue
        dx = _kid(root, "dxfs")
        for d in (_kids(dx, "dxf") if dx is not None else []):
            bold, fill = False, ""
            font = _kid(d, "font")
            if font is not None:
                b = _kid(font, "b")
                bold = b is not None and _b(b, "val", True)
            f = _kid(d, "fill")
            pf = _kid(f, "patternFill") if f is not None else None
            if pf is not None:
                fill = _color(_kid(pf, "fgColor"), raw)          # (the foreground colour of the pattern fill)
            out.append({"bold": bold, "fill": fill})
    return out


def _sheet(root, dxfs, raw=False):
    D = (lambda eff, absent: absent) if raw else (lambda eff, absent: eff)          # the value of an absent attribute
    sh = {"tab": [], "views": [], "selinfo": [], "prot": [], "af": [], "dvs": [], "cfs": [], "hrows": [], "hcols": [],
          "ps": {"orient": "default", "paper": D(1, -1), "scale": D(100, -1), "fitw": D(1, -1), "fith": D(1, -1)},
          "po": {"hc": False, "vc": False}, "pm": {k: "" for k in "lrtbhf"}, "hf": {"h": "", "f": ""}}
    pr = _kid(root, "sheetPr")
    if pr is not None and _kid(pr, "tabColor") is not None:
        sh["tab"] = [_color(_kid(pr, "tabColor"), raw)]
    svs = _kid(root, "sheetViews")
    for v in (_kids(svs, "sheetView") if svs is not None else []):
        panes = [{"xs": _num(p.get("xSplit"), "0"), "ys": _num(p.get("ySplit"), "0"), "tl": p.get("topLeftCell", ""),
                  "ap": p.get("activePane", D("topLeft", "")), "st": p.get("state", "split")} for p in _kids(v, "pane")]
        sels, info = [], []
        for s in _kids(v, "selection"):
            cell, sq = s.get("activeCell", ""), s.get("sqref", "A1")
            sels.append({"pane": s.get("pane", D("topLeft", "")), "cell": cell, "sqref": s.get("sqref", D("A1", ""))})
            ranges = sq.split()
            acid = _i(s, "activeCellId", 0)
            sub = [k for k, rg in enumerate(ranges) if cell and cell in rg]
            info.append({"acid": acid, "hits": [k for k, rg in enumerate(ranges) if _contains(rg, cell)] if cell else [acid],
                         "firstsub": sub[0] if sub else len(ranges)})
        sh["views"].append({"zoom": _i(v, "zoomScale", D(100, -1)), "zoomn": _i(v, "zoomScaleNormal", D(0, -1)),
                            "grid": _tri(v, "showGridLines") if raw else _b(v, "showGridLines", True), "mode": v.get("view", D("normal", "")),
                            "tabsel": _b(v, "tabSelected", False), "tl": v.get("topLeftCell", ""), "pane": panes, "sel": sels})
        sh["selinfo"].append(info)
    cols = _kid(root, "cols")
    for c in (_kids(cols, "col") if cols is not None else []):
        if _b(c, "hidden", False):
            lo, hi = _i(c, "min", 0), _i(c, "max", 0)
            if 1 <= lo <= hi <= xlsx.MAX_COL:
                sh["hcols"].extend(range(lo, hi + 1))
    sd = _kid(root, "sheetData")
    nxt = 1
    for r in (_kids(sd, "row") if sd is not None else []):
        n = _i(r, "r", nxt)
        nxt = n + 1
        if _b(r, "hidden", False):
            sh["hrows"].append(n)
    sp = _kid(root, "sheetProtection")
    if sp is not None:
        sh["prot"] = [{"flags": {k: (_tri(sp, a) if raw else _b(sp, a, d)) for k, (a, d) in FLAGS.items()},
                       "tok": {"alg": sp.get("algorithmName", ""), "hash": sp.get("hashValue", ""), "salt": sp.get("saltValue", ""),
                               "spin": _i(sp, "spinCount", 0), "legacy": sp.get("password", "")}}]
    af = _kid(root, "autoFilter")
    if af is not None:
        sh["af"] = [af.get("ref", "")]
    for cf in _kids(root, "conditionalFormatting"):
        rules = []
        for r in _kids(cf, "cfRule"):
            fs = _kids(r, "formula")
            dx = _i(r, "dxfId", -1)
            rules.append({"type": r.get("type", ""), "op": r.get("operator", ""), "prio": _i(r, "priority", 0),
                          "stop": _b(r, "stopIfTrue", False), "hasf": bool(fs), "f": ("".join(fs[0].itertext()) if fs else ""),
                          "sty": ([dict(dxfs[dx])] if 0 <= dx < len(dxfs) else ([] if dx == -1 else [{"bold": False, "fill": "dangling dxfId"}])),
                          "text": r.get("text", ""), "rank": _i(r, "rank", 0), "percent": _b(r, "percent", False),
                          "bottom": _b(r, "bottom", False)})
        sh["cfs"].append({"sqref": cf.get("sqref", ""), "rules": rules})
    dvs = _kid(root, "dataValidations")
    for d in (_kids(dvs, "dataValidation") if dvs is not None else []):
        f1, f2 = _kid(d, "formula1"), _kid(d, "formula2")
        sh["dvs"].append({"sqref": d.get("sqref", ""), "type": d.get("type", "none"), "op": d.get("operator", D("between", "")),
                          "blank": _b(d, "allowBlank", False), "showin": _b(d, "showInputMessage", False),
                          "showerr": _b(d, "showErrorMessage", False), "ptitle": d.get("promptTitle", ""),
                          "prompt": d.get("prompt", ""), "etitle": d.get("errorTitle", ""), "emsg": d.get("error", ""),
                          "f1": "".join(f1.itertext()) if f1 is not None else "",
                          "f2": "".join(f2.itertext()) if f2 is not None else ""})
    po = _kid(root, "printOptions")
    if po is not None:
        sh["po"] = {"hc": _b(po, "horizontalCentered", False), "vc": _b(po, "verticalCentered", False)}
    pm = _kid(root, "pageMargins")
    if pm is not None:
        sh["pm"] = {"l": _num(pm.get("left"), ""), "r": _num(pm.get("right"), ""), "t": _num(pm.get("top"), ""),
                    "b": _num(pm.get("bottom"), ""), "h": _num(pm.get("header"), ""), "f": _num(pm.get("footer"), "")}
    ps = _kid(root, "pageSetup")
    if ps is not None:
        sh["ps"] = {"orient": ps.get("orientation", "default"), "paper": _i(ps, "paperSize", D(1, -1)), "scale": _i(ps, "scale", D(100, -1)),
                    "fitw": _i(ps, "fitToWidth", D(1, -1)), "fith": _i(ps, "fitToHeight", D(1, -1))}
    hf = _kid(root, "headerFooter")
    if hf is not None:
        for tag, key in (("oddHeader", "h"), ("oddFooter", "f")):
            el = _kid(hf, tag)
            if el is not None:
                sh["hf"][key] = "".join(el.itertext())
    if raw:
        del sh["selinfo"]
        sh.update({"mat": True, "sstate": "", "acell": ""})
    return sh


def view(data, raw=False):
    out = empty()
    pkg = xlsx.Package(data)
    if raw:
        out["core_seq"] = []
    if not pkg.ok:
        out["err"] = pkg.error
        return out
    wbpart = pkg.workbook_part()
    wb = pkg.xml(wbpart) if wbpart else None
    if wb is None:
        out["err"] = "no readable workbook part"
        return out
    out["ok"] = True
    out["active"] = 0
    bv = _kid(wb, "bookViews")
    if bv is not None and _kids(bv, "workbookView"):
        out["active"] = _i(_kids(bv, "workbookView")[0], "activeTab", 0)
    dxfs = _dxfs(pkg, raw)
    sheets = _kid(wb, "sheets")
    for s in (_kids(sheets, "sheet") if sheets is not None else []):
        rid = xlsx._rid_attr(s)
        rel = pkg.rel_target(wbpart, rid)
        root = pkg.xml(rel["resolved"]) if rel and not rel["external"] else None
        if root is None:
            out["ok"] = False
            out["err"] = "sheet part of %r missing or not well-formed" % s.get("name", "")
            continue
        item = _sheet(root, dxfs, raw)
        item["name"] = s.get("name", "")
        item["state"] = s.get("state", "visible")
        out["sheets"].append(item)
    for it in pkg.rels_of("/"):
        if it["external"]:
            continue
        root = pkg.xml(it["resolved"]) if pkg.exists(it["resolved"]) else None
        if it["kind"] == "core-properties":
            if root is None:
                out["ok"], out["err"] = False, "core properties part missing or not well-formed"
                continue
            seq = []
            for el in root:
                k = CORE.get(xlsx.local(el.tag))
                if k:
                    out["props"][k] = "".join(el.itertext())
                seq.append({"k": k or "", "t": "".join(el.itertext())})
            if raw:
                out["core_seq"] = seq
        elif it["kind"] == "extended-properties":
            if root is None:
                out["ok"], out["err"] = False, "extended properties part missing or not well-formed"
                continue
            for el in root:
                if xlsx.local(el.tag) == "Manager":
                    out["props"]["manager"] = "".join(el.itertext())
                elif xlsx.local(el.tag) == "Company":
                    out["props"]["company"] = "".join(el.itertext())
        elif it["kind"] == "custom-properties":
            if root is None:
                out["ok"], out["err"] = False, "custom properties part missing or not well-formed"
                continue
            for p in _kids(root, "property"):
                kind, v = "other", ""
                for c in p:
                    kind = {"lpwstr": "str", "filetime": "date", "i4": "num", "bool": "bool"}.get(xlsx.local(c.tag), "other")
                    v = "".join(c.itertext())
                    break
                item = {"name": p.get("name", ""), "kind": kind, "v": v}
                if raw:
                    try:
                        n = int(v) if kind == "num" else 0
                    except ValueError:
                        n = 0
                    item.update({"n": n if -2 ** 31 <= n < 2 ** 31 else 0, "b": kind == "bool" and v.strip() in ("true", "1"),
                                 "v": v if kind in ("str", "date") else ""})
                out["custom"].append(item)
    return out
