"""strace log of one save  ->  protocol events for spec/Trace_SaveAtomic.tla (C13).

It only projects: every system call of the traced process that concerns a file of the destination
directory becomes one event, in log order, with its arguments and its result exactly as strace
printed them; nothing is judged, nothing is reordered, nothing is dropped except calls on other
files (shared libraries, /proc, the two marker paths).  The only aggregation: consecutive write
calls on the same file that were all complete (returned what was requested) are one event with
their number (cnt) and byte total - the compound-file writer makes thousands of 2..8 byte writes.

Events ("Sys"): call open|write|rename|unlink|trunc|close|sync, f (file the call acts on: "dest",
"tmp" = <dest>tmp, "x" = any other file of the directory), g (second file of a rename, else ""),
n bytes requested, m bytes done, res ok|short|err, errno, cnt, and for open the flags wr/creat/trunc.
A call that was entered but never returned because the process was killed ("= ?") did not run and
produces no event; the kill itself is the Crash event.
"""
import os, re

_line = re.compile(r"^(?:\[pid\s+)?(\d+)\]?\s+(.*)$")
_call = re.compile(r"^(\w+)\((.*)\)\s+=\s+(-?\d+|\?)(?:\s+(\w+))?(?:\s+\((.*?)\))?(\s+\(INJECTED\))?\s*$")
_str = re.compile(r'"((?:[^"\\]|\\.)*)"')


class StraceError(Exception):
    pass


def _unescape(s):
    return s.encode("latin1", "backslashreplace").decode("unicode_escape")


def _args(s):
    """split the argument text at top-level commas (strings may contain commas)"""
    out, cur, depth, instr, i = [], [], 0, False, 0
    while i < len(s):
        ch = s[i]
        if instr:
            cur.append(ch)
            if ch == "\\":
                i += 1
                cur.append(s[i])
            elif ch == '"':
                instr = False
        elif ch == '"':
            instr = True
            cur.append(ch)
        elif ch in "([{":
            depth += 1
            cur.append(ch)
        elif ch in ")]}":
            depth -= 1
            cur.append(ch)
        elif ch == "," and depth == 0:
            out.append("".join(cur).strip())
            cur = []
        else:
            cur.append(ch)
        i += 1
    if cur:
        out.append("".join(cur).strip())
    return out


def _path(arg):
    m = _str.match(arg)
    return _unescape(m.group(1)) if m else None


def project(lines, dest, tmp, directory):
    """-> (events, info).  info: killed (bool), window (bool: both markers seen or killed inside),
    calls: the per-name index (counted from process start, as strace's `when=` counts) of every
    projected call, markers: the same for the two marker opens of the child - for building kill points."""
    dest, tmp, directory = os.path.normpath(dest), os.path.normpath(tmp), os.path.normpath(directory)

    def which(p):
        if p is None:
            return ""
        p = os.path.normpath(p if os.path.isabs(p) else os.path.join(directory, p))
        if p == dest:
            return "dest"
        if p == tmp:
            return "tmp"
        if os.path.dirname(p) == directory:
            return "x"
        return ""

    events, fds, counts, calls, markers = [], {}, {}, [], {}
    killed = False
    unfinished = {}
    for raw in lines:
        m = _line.match(raw)
        if not m:
            raise StraceError("unparsable strace line: " + raw[:200])
        pid, text = m.group(1), m.group(2)
        if text.startswith("+++ killed by SIGKILL"):
            killed = True
            continue
        if text.startswith("+++") or text.startswith("---"):
            continue                                   # exit / signal notifications (SIGXFSZ is ignored by the child)
        if text.endswith("<unfinished ...>"):
            unfinished[pid] = text[:-len("<unfinished ...>")].rstrip()
            continue
        mr = re.match(r"^<\.\.\. (\w+) resumed>(.*)$", text)
        if mr:
            text = unfinished.pop(pid, mr.group(1) + "(") + mr.group(2).lstrip()
        mc = _call.match(text)
        if not mc:
            raise StraceError("unparsable system call: " + text[:200])
        name, argtext, rv, errno = mc.group(1), mc.group(2), mc.group(3), mc.group(4) or ""
        counts[name] = counts.get(name, 0) + 1
        if rv == "?":
            calls.append({"name": name, "index": counts[name], "ran": False})
            continue                                   # entered, never ran: the process was killed
        rv = int(rv)
        a = _args(argtext)
        ev = None
        if name in ("open", "openat", "creat"):
            pa = a[1] if name == "openat" else a[0]
            flags = "O_WRONLY|O_CREAT|O_TRUNC" if name == "creat" else (a[2] if name == "openat" else a[1])
            f = which(_path(pa))
            if (_path(pa) or "").startswith("/verif-c13-marker/"):
                markers[_path(pa).rsplit("/", 1)[1]] = {"name": name, "index": counts[name]}
            if f:
                wr = "O_WRONLY" in flags or "O_RDWR" in flags
                ev = {"call": "open", "f": f, "g": "", "n": 0, "m": 0, "wr": wr, "creat": "O_CREAT" in flags,
                      "trunc": "O_TRUNC" in flags}
                if rv >= 0:
                    fds[rv] = f
        elif name in ("write", "pwrite64", "writev", "pwritev"):
            fd = int(a[0])
            if fd in fds:
                if name in ("writev", "pwritev"):
                    n = sum(int(x) for x in re.findall(r"iov_len=(\d+)", argtext))
                else:
                    n = int(a[2])
                ev = {"call": "write", "f": fds[fd], "g": "", "n": n, "m": max(rv, 0), "wr": True, "creat": False, "trunc": False}
        elif name in ("rename", "renameat", "renameat2"):
            pa, pb = (a[0], a[1]) if name == "rename" else (a[1], a[3])
            f, g = which(_path(pa)), which(_path(pb))
            if f or g:
                ev = {"call": "rename", "f": f or "outside", "g": g or "outside", "n": 0, "m": 0, "wr": False, "creat": False, "trunc": False}
        elif name in ("unlink", "unlinkat"):
            f = which(_path(a[0] if name == "unlink" else a[1]))
            if f:
                ev = {"call": "unlink", "f": f, "g": "", "n": 0, "m": 0, "wr": False, "creat": False, "trunc": False}
        elif name in ("link", "linkat"):
            pa, pb = (a[0], a[1]) if name == "link" else (a[1], a[3])
            f, g = which(_path(pa)), which(_path(pb))
            if g:                                      # a new name for a file: same effect on g as a rename that keeps f
                raise StraceError("link() into the destination directory is not modelled: " + text[:200])
        elif name in ("ftruncate", "truncate"):
            f = fds.get(int(a[0]), "") if name == "ftruncate" else which(_path(a[0]))
            if f:
                ev = {"call": "trunc", "f": f, "g": "", "n": int(a[1]), "m": 0, "wr": True, "creat": False, "trunc": True}
        elif name in ("fsync", "fdatasync"):
            fd = int(a[0])
            if fd in fds:
                ev = {"call": "sync", "f": fds[fd], "g": "", "n": 0, "m": 0, "wr": False, "creat": False, "trunc": False}
        elif name == "close":
            fd = int(a[0])
            if fd in fds:
                ev = {"call": "close", "f": fds.pop(fd), "g": "", "n": 0, "m": 0, "wr": False, "creat": False, "trunc": False}
        elif name in ("sendfile", "copy_file_range"):          # bytes arriving in a file: a write of that many bytes
            fd = int(a[0]) if name == "sendfile" else int(a[2])
            if fd in fds:
                n = int(a[3]) if name == "sendfile" else int(a[4])
                ev = {"call": "write", "f": fds[fd], "g": "", "n": n, "m": max(rv, 0), "wr": True, "creat": False, "trunc": False}
        elif name in ("lseek", "dup", "dup2", "dup3"):
            pass
        if ev is None:
            continue
        if rv < 0:
            ev["res"], ev["errno"] = "err", errno
        elif ev["call"] == "write" and ev["m"] < ev["n"]:
            ev["res"], ev["errno"] = "short", ""
        else:
            ev["res"], ev["errno"] = "ok", ""
        ev["cnt"] = 1
        ev["a"] = "Sys"
        calls.append({"name": name, "index": counts[name], "ran": True, "call": ev["call"], "f": ev["f"]})
        last = events[-1] if events else None
        if (ev["call"] == "write" and ev["res"] == "ok" and last and last["call"] == "write" and last["res"] == "ok"
                and last["f"] == ev["f"]):
            last["n"] += ev["n"]
            last["m"] += ev["m"]
            last["cnt"] += 1
        else:
            events.append(ev)
    return events, {"killed": killed, "calls": calls, "counts": counts, "markers": markers}


def case_events(raw):
    """The Raw record of harness/src/bin/saveatomic.rs -> the event list of the case."""
    fault = raw["fault"]
    traced = fault.get("t") != "killtime"
    fin = raw["final"]
    begin = {"a": "Begin", "case": raw["case"], "kind": "path", "inst": raw["inst"], "size": raw["size"],
             "existed": raw["existed"],
             "tmp0": "dir" if fault.get("t") == "tmpisdir" else ("stale" if raw.get("stale", 0) > 0 else "absent"),
             "tmp0len": 0 if fault.get("t") == "tmpisdir" else raw.get("stale", 0), "traced": traced,
             "fault": fault_text(fault)}
    evs = [begin]
    info = {"killed": False, "calls": [], "counts": {}, "markers": {}}
    if traced:
        sys_events, info = project(raw["lines"], raw["dest"], raw["tmp"], raw["dir"])
        evs += sys_events
    st = raw["status"]
    if st in ("ok", "err", "panic"):
        evs.append({"a": "Return", "outcome": st})
    elif st == "killed":
        evs.append({"a": "Crash"})
    else:
        raise StraceError(f"case {raw['case']}: the child ended with status {st}")
    evs.append({"a": "Final", "dest": fin["dest"], "destlen": fin["destlen"], "tmp": fin["tmp"], "tmplen": fin["tmplen"]})
    return evs, info


def fault_text(f):
    t = f.get("t")
    if t == "fsize":
        return f"RLIMIT_FSIZE={f['k']}"
    if t == "inject":
        return "strace inject " + " ".join(f["exprs"])
    if t == "killtime":
        return f"SIGKILL after {f['us']} us"
    return t
