"""pydec.build_xlsx - a template xlsx WRITER for the grammar-based generator of C03.

python3 standard library only (zipfile); it shares nothing with umya-spreadsheet (and nothing with the
reading side pydec.xlsx either).  It turns a *file model* - the state of the GenFile state machine of
spec/Decode.tla as TLC prints it, or the same structure made by checks/c03.py - into the bytes of a
valid .xlsx package.  It never judges and never interprets: every field of the model is written down
literally (the raw encoding of each cell: t=, <v>, <is>, s=, <f t= si= ref=>text</f>).

build(model) -> bytes

model = {
 "sheets": [ {"name": str,                                  # sheet name (attribute, entity-escaped)
              "rownr": [int],                              # rows whose <row> is written without r= (optional)
              "erows": [int],                              # rows written as cell-less <row/> elements (optional)
              "cells": [ {"r": int, "c": int,              # position; document order = sorted by (r, c)
                          "nr": bool,                       # written without r= (optional key; the position must then be
                                                            #   the one document order implies)
                          "t": "" | "n" | "s" | "str" | "inlineStr" | "b" | "e",      # "" = attribute absent
                          "hv": bool, "v": str,            # <v> present, its text
                          "his": bool, "isr": {"rich": bool, "runs": [str]},          # <is> present: <t> or <r><t>..
                                                            # (optional "ph": str on a string item adds a phonetic run
                                                            #  <rPh><t>ph</t></rPh><phoneticPr/>)
                                                            # (optional "sp": bool on a string item overrides where
                                                            #  xml:space="preserve" is written on its <t> elements)
                          "s": int,                         # style index, -1 = attribute absent
                          "f": {"k": "none" | "normal" | "shared" | "array",
                                "si": int, "ht": bool, "text": str, "ref": str}} ],
              "links": [ {"r": int, "c": int, "ext": bool, "val": str,     # ext: r:id -> relationship with Target val (External)
                          "hasloc": bool, "loc": str,                        # location= attribute (alone, or with r:id: a fragment)
                          "tip": str, "disp": str} ],                        # tooltip= / display= attributes ("" = absent)
                                                                             # (old form: ext False and val = the location)
              "tcols": [str] } ],                          # column names of one table (header cells are not added)
 "sst":   [ {"rich": bool, "runs": [str]} ],               # shared string items (plain: one run; no run: <si/>)
 "xfs":   [ int ],                                          # cellXfs: numFmtId per xf (xf 0 is the default format)
 "numfmts": [ {"id": int, "code": str} ],                  # custom number formats
 "names": [ {"name": str, "text": str, "local": int} ],    # defined names (local = -1: workbook scope)
 "opts":  {"spans": bool,      # row spans= attribute
           "dim": bool,        # <dimension> element
           "tn": bool,         # write t="n" on numeric cells whose model says t = "n" (else as the model says)
           "ent": "named" | "numeric",      # how XML-special characters are escaped (&amp; vs &#38; ...)
           "spall": bool,      # xml:space="preserve" on every <t> (else only where the text has outer white space)
           "rowr": bool,       # r= attribute on <row> and <c> (False: omitted - positions are then implied,
                               #   which is only possible when rows start at 1 and cells at A without gaps)
           "applynf": "absent" | "1",       # applyNumberFormat attribute of the cell xfs
           "rawcr": bool,      # write a CR of a text literally (an XML parser then delivers LF) instead of &#13;
           "indent": bool,     # insignificant white space (line break + blanks) between the elements inside <sheetData>,
                               #   <row>, <c>, <is>, <r>, <sst>, <si> (never inside <t>, <v>, <f>)
           "nosp": bool } }    # never write xml:space="preserve" (outer white space of a text is then unprotected)
"""
import io
import zipfile

NS_MAIN = "http://schemas.openxmlformats.org/spreadsheetml/2006/main"
NS_R = "http://schemas.openxmlformats.org/officeDocument/2006/relationships"
NS_PKG_REL = "http://schemas.openxmlformats.org/package/2006/relationships"
NS_CT = "http://schemas.openxmlformats.org/package/2006/content-types"
REL = "http://schemas.openxmlformats.org/officeDocument/2006/relationships/"
CT = "application/vnd.openxmlformats-officedocument.spreadsheetml."
DECL = '<?xml version="1.0" encoding="UTF-8" standalone="yes"?>\n'
WS = " \t\r\n"


def colname(n):
    s = ""
    while n > 0:
        n, r = divmod(n - 1, 26)
        s = chr(65 + r) + s
    return s


def esc(s, mode, attr, rawcr=False):
    """XML escaping of character data (attr=False) or of a double-quoted attribute value (attr=True)."""
    out = []
    for ch in s:
        o = ord(ch)
        if ch == "&":
            out.append("&amp;" if mode == "named" else "&#38;")
        elif ch == "<":
            out.append("&lt;" if mode == "named" else "&#60;")
        elif ch == ">":
            out.append("&gt;" if mode == "named" else "&#x3E;")
        elif ch == '"' and (attr or mode == "numeric"):
            out.append("&quot;" if mode == "named" else "&#34;")
        elif ch == "'" and mode == "numeric":
            out.append("&apos;")
        elif attr and ch in "\t\n\r":
            out.append("&#%d;" % o)
        elif ch == "\r" and not rawcr:
            out.append("&#13;")                # a literal CR would be normalised to LF by an XML parser
        elif o > 126 and mode == "numeric":
            out.append("&#x%X;" % o)
        else:
            out.append(ch)
    return "".join(out)


def ind(opts, depth):
    """insignificant white space between elements (option indent): a line break and 2*depth blanks"""
    return ("\n" + "  " * depth) if opts.get("indent") else ""


def t_elem(text, opts, sp=None):
    if sp is None:
        sp = (opts.get("spall") or (text != "" and (text[0] in WS or text[-1] in WS))) and not opts.get("nosp")
    a = ' xml:space="preserve"' if sp else ""
    return "<t%s>%s</t>" % (a, esc(text, opts["ent"], False, opts.get("rawcr", False)))


def rst_body(item, opts, depth=0):
    """content of a CT_Rst element (<si> or <is>) whose start tag sits at indentation level `depth`"""
    i1, i2, i0 = ind(opts, depth + 1), ind(opts, depth + 2), ind(opts, depth)
    if item["rich"]:
        parts = []
        for i, run in enumerate(item["runs"]):
            rpr = (i2 + "<rPr><b/><sz val=\"11\"/><rFont val=\"Calibri\"/></rPr>") if i % 2 == 0 else ""
            parts.append("%s<r>%s%s%s%s</r>" % (i1, rpr, i2, t_elem(run, opts, item.get("sp")), i1))
        return "".join(parts) + phonetic(item, opts, i1, i2) + i0
    return i1 + t_elem(item["runs"][0] if item["runs"] else "", opts, item.get("sp")) + phonetic(item, opts, i1, i2) + i0


def phonetic(item, opts, i1, i2):
    """<rPh> + <phoneticPr> of a string item that has a phonetic text ("ph"); they are not part of the item's text"""
    if not item.get("ph"):
        return ""
    return '%s<rPh sb="0" eb="1">%s%s%s</rPh>%s<phoneticPr fontId="0"/>' % (i1, i2, t_elem(item["ph"], opts), i1, i1)


def cell_xml(c, opts):
    a = []
    if opts.get("rowr", True) and not c.get("nr"):
        a.append('r="%s%d"' % (colname(c["c"]), c["r"]))
    if c["s"] >= 0:
        a.append('s="%d"' % c["s"])
    if c["t"] != "" and not (c["t"] == "n" and not opts.get("tn", True)):
        a.append('t="%s"' % c["t"])
    body = []
    f = c["f"]
    if f["k"] != "none":
        fa = []
        if f["k"] != "normal":
            fa.append('t="%s"' % f["k"])
        if f["ref"] != "":
            fa.append('ref="%s"' % f["ref"])
        if f["k"] == "shared":
            fa.append('si="%d"' % f["si"])
        fa = (" " + " ".join(fa)) if fa else ""
        body.append(ind(opts, 4) + ("<f%s>%s</f>" % (fa, esc(f["text"], opts["ent"], False)) if f["ht"] else "<f%s/>" % fa))
    if c["hv"]:
        v = c["v"]
        sp = ' xml:space="preserve"' if (v != "" and (v[0] in WS or v[-1] in WS) and not opts.get("nosp")) else ""
        body.append(ind(opts, 4) + "<v%s>%s</v>" % (sp, esc(v, opts["ent"], False, opts.get("rawcr", False))))
    if c["his"]:
        body.append(ind(opts, 4) + "<is>%s</is>" % rst_body(c["isr"], opts, 4))
    if not body:
        return ind(opts, 3) + ("<c %s/>" % " ".join(a) if a else "<c/>")
    return ind(opts, 3) + "<c%s>%s%s</c>" % ((" " + " ".join(a)) if a else "", "".join(body), ind(opts, 3))


def sheet_xml(sh, opts, link_rids, table_rid):
    rows = {}
    for c in sh["cells"]:
        rows.setdefault(c["r"], []).append(c)
    out = [DECL, '<worksheet xmlns="%s" xmlns:r="%s">' % (NS_MAIN, NS_R)]
    if opts.get("dim") and sh["cells"]:
        r1, r2 = min(rows), max(rows)
        c1 = min(c["c"] for c in sh["cells"])
        c2 = max(c["c"] for c in sh["cells"])
        out.append('<dimension ref="%s%d:%s%d"/>' % (colname(c1), r1, colname(c2), r2))
    out.append('<sheetViews><sheetView workbookViewId="0"/></sheetViews><sheetFormatPr defaultRowHeight="15"/>')
    rownr = set(sh.get("rownr", []))
    for r in sh.get("erows", []):                  # cell-less <row> elements
        rows.setdefault(r, [])
    if rows:
        out.append("<sheetData>")
        for r in sorted(rows):
            cs = sorted(rows[r], key=lambda c: c["c"])
            a = []
            if opts.get("rowr", True) and r not in rownr:
                a.append('r="%d"' % r)
            if not cs:
                out.append(ind(opts, 2) + "<row%s/>" % ((" " + " ".join(a)) if a else ""))
                continue
            if opts.get("spans"):
                a.append('spans="%d:%d"' % (cs[0]["c"], cs[-1]["c"]))
            out.append(ind(opts, 2) + "<row%s>" % ((" " + " ".join(a)) if a else ""))
            out.extend(cell_xml(c, opts) for c in cs)
            out.append(ind(opts, 2) + "</row>")
        out.append(ind(opts, 1) + "</sheetData>")
    else:
        out.append("<sheetData/>")
    if sh["links"]:
        out.append("<hyperlinks>")
        for i, h in enumerate(sh["links"]):
            ref = "%s%d" % (colname(h["c"]), h["r"])
            a = ['ref="%s"' % ref]
            if h["ext"]:
                a.append('r:id="%s"' % link_rids[i])
            hasloc = h.get("hasloc", not h["ext"])
            if hasloc:
                a.append('location="%s"' % esc(h.get("loc", h["val"]) if "loc" in h else h["val"], opts["ent"], True))
            if h.get("tip"):
                a.append('tooltip="%s"' % esc(h["tip"], opts["ent"], True))
            if h.get("disp"):
                a.append('display="%s"' % esc(h["disp"], opts["ent"], True))
            out.append("<hyperlink %s/>" % " ".join(a))
        out.append("</hyperlinks>")
    out.append('<pageMargins left="0.7" right="0.7" top="0.75" bottom="0.75" header="0.3" footer="0.3"/>')
    if table_rid:
        out.append('<tableParts count="1"><tablePart r:id="%s"/></tableParts>' % table_rid)
    out.append("</worksheet>")
    return "".join(out)


def styles_xml(model, opts):
    out = [DECL, '<styleSheet xmlns="%s">' % NS_MAIN]
    nf = model.get("numfmts", [])
    if nf:
        out.append('<numFmts count="%d">' % len(nf))
        for x in nf:
            out.append('<numFmt numFmtId="%d" formatCode="%s"/>' % (x["id"], esc(x["code"], opts["ent"], True)))
        out.append("</numFmts>")
    out.append('<fonts count="1"><font><sz val="11"/><name val="Calibri"/><family val="2"/></font></fonts>')
    out.append('<fills count="2"><fill><patternFill patternType="none"/></fill><fill><patternFill patternType="gray125"/></fill></fills>')
    out.append('<borders count="1"><border><left/><right/><top/><bottom/><diagonal/></border></borders>')
    out.append('<cellStyleXfs count="1"><xf numFmtId="0" fontId="0" fillId="0" borderId="0"/></cellStyleXfs>')
    xfs = model.get("xfs") or [0]
    out.append('<cellXfs count="%d">' % len(xfs))
    for i, nid in enumerate(xfs):
        ap = ' applyNumberFormat="1"' if (opts.get("applynf") == "1" and nid != 0) else ""
        out.append('<xf numFmtId="%d" fontId="0" fillId="0" borderId="0" xfId="0"%s/>' % (nid, ap))
    out.append("</cellXfs>")
    out.append('<cellStyles count="1"><cellStyle name="Normal" xfId="0" builtinId="0"/></cellStyles>')
    out.append('<dxfs count="0"/></styleSheet>')
    return "".join(out)


def build(model):
    opts = dict({"spans": False, "dim": False, "tn": True, "ent": "named", "spall": False, "rowr": True,
                 "applynf": "1"}, **model.get("opts", {}))
    mode = opts["ent"]
    sheets = model["sheets"]
    sst = model.get("sst", [])
    parts = {}
    overrides = [("/xl/workbook.xml", CT + "sheet.main+xml"), ("/xl/styles.xml", CT + "styles+xml")]
    wb_rels = []
    # ---- workbook
    wb = [DECL, '<workbook xmlns="%s" xmlns:r="%s"><bookViews><workbookView/></bookViews><sheets>' % (NS_MAIN, NS_R)]
    tno = 0
    for i, sh in enumerate(sheets, 1):
        rid = "rId%d" % i
        wb.append('<sheet name="%s" sheetId="%d" r:id="%s"/>' % (esc(sh["name"], mode, True), i, rid))
        wb_rels.append((rid, REL + "worksheet", "worksheets/sheet%d.xml" % i, False))
        overrides.append(("/xl/worksheets/sheet%d.xml" % i, CT + "worksheet+xml"))
        rels, link_rids, table_rid, k = [], {}, "", 0
        for j, h in enumerate(sh.get("links", [])):
            if h["ext"]:
                k += 1
                link_rids[j] = "rId%d" % k
                rels.append((link_rids[j], REL + "hyperlink", h["val"], True))
        if sh.get("tcols"):
            tno += 1
            k += 1
            table_rid = "rId%d" % k
            rels.append((table_rid, REL + "table", "../tables/table%d.xml" % tno, False))
            cols = sh["tcols"]
            ref = "A1:%s2" % colname(len(cols))
            t = [DECL, '<table xmlns="%s" id="%d" name="Table%d" displayName="Table%d" ref="%s" totalsRowShown="0">'
                 % (NS_MAIN, tno, tno, tno, ref), '<autoFilter ref="%s"/>' % ref, '<tableColumns count="%d">' % len(cols)]
            for ci, cn in enumerate(cols, 1):
                t.append('<tableColumn id="%d" name="%s"/>' % (ci, esc(cn, mode, True)))
            t.append('</tableColumns><tableStyleInfo name="TableStyleMedium2" showFirstColumn="0" showLastColumn="0" '
                     'showRowStripes="1" showColumnStripes="0"/></table>')
            parts["xl/tables/table%d.xml" % tno] = "".join(t)
            overrides.append(("/xl/tables/table%d.xml" % tno, CT + "table+xml"))
        parts["xl/worksheets/sheet%d.xml" % i] = sheet_xml(sh, opts, link_rids, table_rid)
        if rels:
            parts["xl/worksheets/_rels/sheet%d.xml.rels" % i] = rels_xml(rels, mode)
    wb.append("</sheets>")
    names = model.get("names", [])
    if names:
        wb.append("<definedNames>")
        for d in names:
            loc = ' localSheetId="%d"' % d["local"] if d["local"] >= 0 else ""
            wb.append('<definedName name="%s"%s>%s</definedName>' % (esc(d["name"], mode, True), loc, esc(d["text"], mode, False)))
        wb.append("</definedNames>")
    wb.append("</workbook>")
    parts["xl/workbook.xml"] = "".join(wb)
    n = len(sheets)
    wb_rels.append(("rId%d" % (n + 1), REL + "styles", "styles.xml", False))
    parts["xl/styles.xml"] = styles_xml(model, opts)
    if sst:
        wb_rels.append(("rId%d" % (n + 2), REL + "sharedStrings", "sharedStrings.xml", False))
        overrides.append(("/xl/sharedStrings.xml", CT + "sharedStrings+xml"))
        s = [DECL, '<sst xmlns="%s" count="%d" uniqueCount="%d">' % (NS_MAIN, len(sst), len(sst))]
        for item in sst:
            if not item["rich"] and not item["runs"]:
                s.append(ind(opts, 1) + "<si/>")           # the empty item as an empty-element tag
            else:
                s.append(ind(opts, 1) + "<si>%s</si>" % rst_body(item, opts, 1))
        s.append(ind(opts, 0) + "</sst>")
        parts["xl/sharedStrings.xml"] = "".join(s)
    parts["xl/_rels/workbook.xml.rels"] = rels_xml(wb_rels, mode)
    parts["_rels/.rels"] = rels_xml([("rId1", REL + "officeDocument", "xl/workbook.xml", False)], mode)
    ct = [DECL, '<Types xmlns="%s"><Default Extension="rels" ContentType="application/vnd.openxmlformats-package.relationships+xml"/>'
          '<Default Extension="xml" ContentType="application/xml"/>' % NS_CT]
    for p, t in overrides:
        ct.append('<Override PartName="%s" ContentType="%s"/>' % (p, t))
    ct.append("</Types>")
    buf = io.BytesIO()
    with zipfile.ZipFile(buf, "w", zipfile.ZIP_DEFLATED) as z:
        z.writestr("[Content_Types].xml", "".join(ct).encode("utf-8"))
        for name in ["_rels/.rels", "xl/workbook.xml", "xl/_rels/workbook.xml.rels"]:
            z.writestr(name, parts.pop(name).encode("utf-8"))
        for name in sorted(parts):
            z.writestr(name, parts[name].encode("utf-8"))
    return buf.getvalue()


def rels_xml(rels, mode):
    out = [DECL, '<Relationships xmlns="%s">' % NS_PKG_REL]
    for rid, typ, target, external in rels:
        out.append('<Relationship Id="%s" Type="%s" Target="%s"%s/>'
                   % (rid, typ, esc(target, mode, True), ' TargetMode="External"' if external else ""))
    out.append("</Relationships>")
    return "".join(out)
