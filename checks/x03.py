"""X03 (extension domain "Media") - the life cycle of images and charts.

Spec: spec/Media.tla (properties P1-P5 in its header).  MC_Media*.cfg: TLC checks InGrid, NamesUnique, RoundTrip,
SaveAlwaysWorks, OthersUntouched, RawKept, ReloadIdentity over all histories of depth 2 (thorough: 3) on a 6x5 grid with
three sheets, three picture files and three charts, RemoveUndoesInsert / ModelRemovalsAllowed on every state of depth 1
(thorough: 2), and must *refute* two deviant designs (media parts chosen by file name only; a save that fails on a
dangling chart reference) - these are the findings X03-KF1 / X03-KF2.
Behaviours of the specification (every depth-1 path over the rich initial workbooks - thorough: + a sample of the
depth-2 paths -, TLC-simulated histories of 12 operations on a 14x9 grid), generated histories at the real grid
limits over all 13 chart kinds, histories on corpus files (eager and lazy) and one exemplar per open finding are
executed by harness/src/bin/media.rs; pydec/media_view.py decodes every written package independently;
spec/Trace_Media.tla judges every step (deviations X03-KF1..KF6, /verif/ext_findings.json).
"""
import json, os, shutil
from concurrent.futures import ProcessPoolExecutor
import vlib
from pydec import media_view

CORPUS = os.path.join(vlib.REPO, "tests", "test_files")
IMAGES = os.path.join(vlib.REPO, "images")
MAXROW, MAXCOL = 1048576, 16384
QUICK_FILES = ["aaa.xlsx", "issue_190.xlsx", "google.xlsx", "libre2.xlsx", "issue_219.xlsx", "issue_188_3.xlsx"]
THOROUGH_FILES = QUICK_FILES + ["aaa.xlsm", "libre.xlsm", "issue_188.xlsx", "issue_216.xlsx", "issue_189.xlsx",
                                "issue_208.xlsx", "issue_244.xlsx"]

K1 = {"r1": 2, "c1": 1, "r2": 4, "c2": 3, "ct": "lineChart", "ser": ["Data!$A$1:$A$4", "Data!$B$1:$B$4"],
      "refs": ["Data", "Data"], "qn": 0, "ti": "T1", "tt": "T1"}
K2 = {"r1": 1, "c1": 2, "r2": 3, "c2": 4, "ct": "pieChart", "ser": ["Data!$C$1:$C$4"], "refs": ["Data"], "qn": 0,
      "ti": " T 2 ", "tt": "T 2"}
CHART_KINDS = ["lineChart", "line3DChart", "pieChart", "pie3DChart", "doughnutChart", "scatterChart", "barChart",
               "bar3DChart", "radarChart", "bubbleChart", "areaChart", "area3DChart", "ofPieChart"]


# ---------------------------------------------------------------------------------------------
# picture files: the tokens A, B, C of the bounded model and a few more for the generated histories
# ---------------------------------------------------------------------------------------------
class Pool:
    def __init__(self, tmp):
        self.files = {}
        spec = {"A": ("a", "logo.png", "sample1.png"), "B": ("b", "logo.png", "sample2.png"),
                "C": ("c", "pic.png", "sample1.png"), "D": ("d", "sample3.png", "sample3.png"),
                "E": ("e", "sample4.png", "sample4.png"), "F": ("f", "pic.png", "sample4.png"),
                "H": ("h", "logo #2.png", "sample4.png"), "W": ("w", "photo.webpic", "sample4.png"),
                "I": ("i", "image1.png", "sample3.png")}       # (the name of a media part of most corpus files)
        for tok, (sub, name, src) in spec.items():
            d = os.path.join(tmp, "pool", sub)
            os.makedirs(d, exist_ok=True)
            path = os.path.join(d, name)
            shutil.copyfile(os.path.join(IMAGES, src), path)
            with open(path, "rb") as f:
                data = f.read()
            # size of a PNG: IHDR width and height (big endian) at bytes 16..24; a one-cell anchor made by new_image
            # has the picture's pixel size at 9525 EMU per pixel
            w, h = int.from_bytes(data[16:20], "big"), int.from_bytes(data[20:24], "big")
            self.files[tok] = {"path": path, "nm": name, "nk": media_view.name_kind(name), "dg": media_view.token(data),
                               "ext": [w * 9525, h * 9525]}

    def step(self, st):
        """AddImage / ChangeImage steps name a file token: give the driver the path and the judge what the file is"""
        st = dict(st)
        f = self.files[st.pop("f")]
        st.update(path=f["path"], nm=f["nm"], nk=f["nk"], dg=f["dg"], ext=f["ext"])
        return st


def closed(steps):
    """End a TLC history with an eager save+reload, unless it opened the workbook lazily (a final save could then meet
    a chart over a still-raw sheet: out of contract, see Reload in spec/Media.tla) or ends with a reload anyway."""
    if any(st["a"] == "Reload" and st["lazy"] for st in steps) or steps[-1]["a"] == "Reload":
        return steps
    return steps + [{"a": "Reload", "lazy": False}]


def expand(pool, hist):
    """A TLC behaviour (first record: the initial workbook with its objects) as a driver script: the initial objects
    are added through the API, one validated step each."""
    init = hist[0]
    steps = [{"a": "Init", "src": {"kind": "new", "sheets": [s["name"] for s in init["sheets"]]}}]
    for k, s in enumerate(init["sheets"], 1):
        for im in s["imgs"]:
            tok = next(t for t in "ABC" if (im["nm"], im["dg"]) == {"A": ("logo.png", "dA"), "B": ("logo.png", "dB"),
                                                                    "C": ("pic.png", "dA")}[t])
            steps.append(pool.step({"a": "AddImage", "s": k, "f": tok, "r": im["r1"], "c": im["c1"]}))
        for ch in s["charts"]:
            steps.append({"a": "AddChart", "s": k, "ch": {x: ch[x] for x in K1}})
    nsetup = len(steps)
    for st in hist[1:]:
        st = dict(st)
        if st["a"] in ("AddImage", "ChangeImage"):
            st = pool.step(st)
        elif st["a"] == "AddChart":
            st["ch"] = {x: st["ch"][x] for x in K1}
        steps.append(st)
    return steps, nsetup


# ---------------------------------------------------------------------------------------------
# generated histories at the real grid limits and with every chart kind
# ---------------------------------------------------------------------------------------------
def limit_cases(pool, rng, count):
    cases = []
    for k in range(count):
        far = rng.random() < 0.6
        r0 = MAXROW - rng.randint(6, 60) if far else rng.randint(2, 9)
        c0 = MAXCOL - rng.randint(6, 30) if far else rng.randint(2, 7)
        kind = CHART_KINDS[k % len(CHART_KINDS)]
        nser = {"doughnutChart": 2, "scatterChart": 2, "bubbleChart": 3, "ofPieChart": 2}.get(kind, rng.randint(1, 3))
        ser = [f"Data!${'ABC'[j % 3]}$1:${'ABC'[j % 3]}$4" for j in range(nser)]
        title = rng.choice(["", "Sales", "a&b <c>", "グラフ", " lead", "two  words "])
        ch = {"r1": r0, "c1": c0, "r2": r0 + 3, "c2": c0 + 2, "ct": kind, "ser": ser, "refs": ["Data"] * nser, "qn": 0,
              "ti": title, "tt": title.strip(" ")}
        steps = [{"a": "Init", "src": {"kind": "new", "sheets": ["Data", "Edge", "Far"]}},
                 {"a": "AddChart", "s": 2, "ch": ch},
                 pool.step({"a": "AddImage", "s": 2, "f": rng.choice("ABCDEF"), "r": r0 + 1, "c": c0 + 1}),
                 pool.step({"a": "AddImage", "s": 3, "f": rng.choice("DEF"), "r": MAXROW, "c": MAXCOL}),
                 pool.step({"a": "AddImage", "s": 3, "f": rng.choice("ADE"), "r": 1, "c": 1})]
        top = {"row": r0 + 3, "col": c0 + 2}
        lim = {"row": MAXROW, "col": MAXCOL}
        for _ in range(rng.randint(1, 5)):
            ax = rng.choice(["row", "col"])
            x = rng.random()
            if x < 0.35:
                room = lim[ax] - top[ax]
                if room <= 0:
                    continue
                n = rng.choice([1, room, max(1, room - 1), rng.randint(1, room)])
                p = max(1, min(lim[ax], rng.choice([1, 2, top[ax] - 3, top[ax] - 1, top[ax], top[ax] + 1, lim[ax]])))
                steps.append({"a": "Insert", "s": 2, "ax": ax, "p": p, "n": n, "lvl": rng.choice(["wb", "ws"])})
                top[ax] += n
            elif x < 0.7:
                p = max(1, min(lim[ax], rng.choice([1, 2, top[ax] - 4, top[ax] - 2, top[ax], top[ax] + 1, lim[ax] - 1, lim[ax]])))
                n = max(1, min(rng.choice([1, 2, 3, lim[ax] - p + 1]), lim[ax] - p + 1))
                steps.append({"a": "Remove", "s": 2, "ax": ax, "p": p, "n": n, "lvl": rng.choice(["wb", "ws"])})
            else:
                steps.append({"a": "Reload", "lazy": rng.random() < 0.3})
                if steps[-1]["lazy"]:
                    steps.append({"a": "ReadSheet", "s": 1})
        steps.append({"a": "Reload", "lazy": False})
        cases.append({"steps": steps, "kind": "grid-limit"})
    return cases


# ---------------------------------------------------------------------------------------------
# corpus files
# ---------------------------------------------------------------------------------------------
def corpus_cases(pool, chk, rng):
    files = QUICK_FILES if chk.tier == "quick" else THOROUGH_FILES
    cases, used = [], []
    for f in files:
        path = os.path.join(CORPUS, f)
        if not os.path.exists(path):
            continue
        v = media_view.view_file(path)
        if not v["ok"] or v["bad"]:
            continue
        used.append(f)
        names = [s["name"] for s in v["sheets"]]
        refs = {r for s in v["sheets"] for c in s["charts"] for r in c["refs"]}
        with_objs = [i for i, s in enumerate(v["sheets"], 1) if s["imgs"] or s["charts"]]
        free = [i for i, s in enumerate(v["sheets"], 1) if s["name"] not in refs]

        def src(lazy):
            return {"a": "Init", "src": {"kind": "file", "path": path, "lazy": lazy}}
        cases.append({"steps": [src(False), {"a": "Reload", "lazy": False}, {"a": "Reload", "lazy": True},
                                {"a": "Reload", "lazy": False}], "kind": "corpus"})
        cases.append({"steps": [src(True), {"a": "Reload", "lazy": True}, {"a": "Reload", "lazy": False}], "kind": "corpus"})
        # one sheet materialised and edited, the others stay raw (the sheets its charts read are materialised too)
        for i in (with_objs or [1])[:3]:
            need = sorted({names.index(r) + 1 for c in v["sheets"][i - 1]["charts"] for r in c["refs"] if r in names} - {i})
            steps = [src(True)] + [{"a": "ReadSheet", "s": j} for j in need]
            steps.append(pool.step({"a": "AddImage", "s": i, "f": rng.choice("ABDE"), "r": 40, "c": 30}))
            steps.append(pool.step({"a": "AddImage", "s": i, "f": "I", "r": 41, "c": 31}))
            steps.append({"a": "AddChart", "s": i, "ch": chart_over(names[i - 1])})
            steps.append({"a": "Reload", "lazy": True})
            steps.append({"a": "Reload", "lazy": False})
            cases.append({"steps": steps, "kind": "corpus"})
        # eager: structural edits on a sheet no chart reads, removing objects, removing another sheet
        for i in [x for x in free if x in with_objs][:2]:
            steps = [src(False), {"a": "Insert", "s": i, "ax": "row", "p": 1, "n": 2, "lvl": rng.choice(["wb", "ws"])},
                     {"a": "Insert", "s": i, "ax": "col", "p": 2, "n": 1, "lvl": rng.choice(["wb", "ws"])},
                     {"a": "Reload", "lazy": False},
                     {"a": "Remove", "s": i, "ax": "row", "p": 1, "n": 2, "lvl": rng.choice(["wb", "ws"])},
                     {"a": "Remove", "s": i, "ax": "row", "p": rng.randint(3, 30), "n": rng.randint(1, 4), "lvl": "ws"},
                     {"a": "Reload", "lazy": False}]
            cases.append({"steps": steps, "kind": "corpus"})
        for i in with_objs[:2]:
            s = v["sheets"][i - 1]
            steps = [src(False)]
            if s["imgs"]:
                steps.append({"a": "RemoveImage", "s": i, "i": rng.randint(1, len(s["imgs"]))})
                if len(s["imgs"]) > 1:
                    steps.append(pool.step({"a": "ChangeImage", "s": i, "i": 1, "f": rng.choice("ABDE")}))
                    steps.append({"a": "MoveImage", "s": i, "i": 1, "r": 7, "c": 9})
            if s["charts"]:
                steps.append({"a": "RemoveChart", "s": i, "i": rng.randint(1, len(s["charts"]))})
            steps.append(pool.step({"a": "AddImage", "s": len(names) if len(names) != i else 1, "f": "I", "r": 3, "c": 3}))
            others = [j for j in range(1, len(names) + 1) if j != i and names[j - 1] not in refs]
            if others:
                steps.append({"a": "RemoveSheet", "s": rng.choice(others)})
            steps.append({"a": "Reload", "lazy": False})
            cases.append({"steps": steps, "kind": "corpus"})
    chk.extra["corpus_files"] = used
    return cases


def chart_over(name):
    """a line chart over A1:A4 of the sheet `name`: "raw" is the formula as a user passes it (quoted where the formula
    grammar needs it), "ser" its canonical form"""
    raw = ("'" + name.replace("'", "''") + "'" if media_view.needs_quotes(name) else name) + "!$A$1:$A$4"
    return dict(K1, ser=[name + "!$A$1:$A$4"], raw=[raw], refs=[name], qn=1 if media_view.needs_quotes_no_blank(name) else 0)


def kf_exemplars(pool):
    """One history per open finding, part of every run (so that each KNOWN-FINDING line is deterministic)."""
    new = {"a": "Init", "src": {"kind": "new", "sheets": ["Data", "S1", "S2"]}}
    return [
        # KF1: two pictures from files of the same name with different bytes, on two sheets
        [new, pool.step({"a": "AddImage", "s": 2, "f": "A", "r": 3, "c": 2}),
         pool.step({"a": "AddImage", "s": 3, "f": "B", "r": 5, "c": 4}), {"a": "Reload", "lazy": False}],
        # KF2: the sheet a chart takes its data from is renamed / removed, then the workbook is saved
        [new, {"a": "AddChart", "s": 2, "ch": K1}, {"a": "RenameSheet", "s": 1, "name": "Zed"}, {"a": "Reload", "lazy": False},
         {"a": "RenameSheet", "s": 1, "name": "Data"}, {"a": "Reload", "lazy": False},
         {"a": "RemoveSheet", "s": 1}, {"a": "Reload", "lazy": False}],
        # KF3: a title with surrounding white space
        [new, {"a": "AddChart", "s": 2, "ch": K2}, {"a": "Reload", "lazy": False}, {"a": "Reload", "lazy": True}],
        # KF4: a data sheet whose name needs quotes and holds no blank; one that holds a blank (quoted: fine)
        [{"a": "Init", "src": {"kind": "new", "sheets": ["My-Data", "S1", "My Data(2)"]}},
         {"a": "AddChart", "s": 2, "ch": chart_over("My Data(2)")}, {"a": "Reload", "lazy": False},
         {"a": "AddChart", "s": 2, "ch": chart_over("My-Data")}, {"a": "Reload", "lazy": False}],
        # KF5: a picture file with a '#' in its name;  KF6: a picture file with an extension unknown to the writer
        [new, pool.step({"a": "AddImage", "s": 2, "f": "H", "r": 2, "c": 2}), pool.step({"a": "AddImage", "s": 3, "f": "D", "r": 2, "c": 2}),
         {"a": "Reload", "lazy": False}, {"a": "Reload", "lazy": True}, {"a": "Reload", "lazy": False}],
        [new, pool.step({"a": "AddImage", "s": 2, "f": "W", "r": 2, "c": 2}), {"a": "Reload", "lazy": False}],
    ]


# ---------------------------------------------------------------------------------------------
def gen_cases(chk, pool):
    rng = chk.rng
    quick = chk.tier == "quick"
    cases = []
    for script in kf_exemplars(pool):
        cases.append({"steps": script, "kind": "finding-exemplar"})
    n0 = len(cases)
    r = vlib.run_tlc("MC_Media", "MC_Media_replay.cfg", workers=4, coverage=False)
    if not r.ok or not r.replays:
        raise vlib.ToolError("replay generation (depth 1) failed: " + (r.violation or r.out[-500:]))
    for rp in r.replays:
        steps, ns = expand(pool, rp)
        cases.append({"steps": closed(steps), "kind": "tlc-path", "setup": ns})
    n1 = len(cases)
    if not quick:
        r2 = vlib.run_tlc("MC_Media", "MC_Media_replay_d2.cfg", workers=4, coverage=False, timeout=3000)
        if not r2.ok or not r2.replays:
            raise vlib.ToolError("replay generation (depth 2) failed")
        d2 = r2.replays if len(r2.replays) <= 12000 else rng.sample(r2.replays, 12000)
        for rp in d2:
            steps, ns = expand(pool, rp)
            cases.append({"steps": closed(steps), "kind": "tlc-path", "setup": ns})
    n1b = len(cases)
    nsim = 900 if quick else 6000
    rs = vlib.run_tlc("MC_Media", "MC_Media_sim.cfg", workers=1, coverage=False, simulate=f"num={nsim}",
                      extra=["-depth", "14", "-seed", str(chk.seed)], timeout=3000)
    if rs.rc != 0 or rs.violation or not rs.replays:
        raise vlib.ToolError("TLC simulation of MC_Media_sim.cfg failed: " + (rs.violation or rs.out[-500:]))
    seen = set()
    for rp in rs.replays:
        key = json.dumps(rp, sort_keys=True)
        if key in seen:
            continue
        seen.add(key)
        steps, ns = expand(pool, rp)
        cases.append({"steps": closed(steps), "kind": "tlc-sim", "setup": ns})
    n2 = len(cases)
    cases += limit_cases(pool, rng, 300 if quick else 2500)
    n3 = len(cases)
    cases += corpus_cases(pool, chk, rng)
    chk.extra["cases"] = {"finding_exemplars": n0, "tlc_paths_depth1": n1 - n0, "tlc_paths_depth2": n1b - n1,
                          "tlc_simulated_histories": n2 - n1b, "grid_limit_histories": n3 - n2,
                          "corpus_histories": len(cases) - n3}
    for i, c in enumerate(cases):
        c["case"] = i
    return cases


def describe(case, ev, detail):
    if ev is None:
        return detail
    keep = {k: v for k, v in ev.items() if k not in ("obs", "exp", "pkg", "src", "path")}
    return f"step {json.dumps(keep)[:300]}: {detail}"


def _view(path):
    return media_view.view_file(path)


def judge(chk, cases, tmp):
    dcases = [{"case": c["case"], "tmp": tmp, "steps": c["steps"]} for c in cases]
    events = vlib.run_cases("media", dcases, timeout=120 if chk.tier == "quick" else 600)
    # the independent view of every written package and of every source file
    paths = set()
    for evs in events:
        for e in evs:
            if e.get("a") == "Reload" and e.get("file"):
                paths.add(e["file"])
            elif e.get("a") == "Init" and e["src"]["kind"] == "file":
                paths.add(e["src"]["path"])
    paths = sorted(paths)
    if len(paths) > 40:
        with ProcessPoolExecutor(max_workers=4) as ex:
            views = dict(zip(paths, ex.map(_view, paths, chunksize=16)))
    else:
        views = {p: _view(p) for p in paths}
    for evs in events:
        for e in evs:
            # (classification of the observed picture names: a function of the name, used by deviation triggers only)
            for sheet in e.get("obs", []):
                for im in sheet["imgs"]:
                    im["nk"] = media_view.name_kind(im["nm"])
            if e.get("a") == "Init":
                if e["src"]["kind"] == "file":
                    e["exp"] = views[e["src"]["path"]]["sheets"]
                    e["lazy"] = bool(e["src"]["lazy"])
                else:
                    e["exp"] = [{"name": n, "imgs": [], "charts": [], "oth": 0, "closure": ""} for n in e["src"]["sheets"]]
                    e["lazy"] = False
            elif e.get("a") == "Reload":
                e["pkg"] = views[e["file"]] if e.get("file") else media_view.empty()
                if e.get("file") and e["file"].startswith(tmp) and os.path.exists(e["file"]):
                    os.remove(e["file"])
    out = vlib.validate("Trace_Media", "Trace_Media.cfg", events, chk.open_ids, "x03", chunk_events=1500, jobs=4)
    first = {}
    for ci, off, detail in out["mismatch"]:
        if ci not in first or off < first[ci][0]:
            first[ci] = (off, detail)
    for ci, (off, detail) in first.items():
        if detail.startswith('<<"gen"'):
            raise vlib.ToolError(f"generator produced an out-of-contract step (case {cases[ci]['case']} "
                                 f"{json.dumps(cases[ci]['steps'])[:600]}, step {off}): {detail}")
    chk.process_validation(out, cases, events, "media", describe)
    chk.extra["saves_with_a_raw_sheet_drawing_compared"] = chk.extra.get("saves_with_a_raw_sheet_drawing_compared", 0) + out["notes"]
    return events


def with_tmp(fn):
    vlib.ensure_dirs()
    tmp = os.path.join(vlib.WORK, f"media-{os.getpid()}")
    shutil.rmtree(tmp, ignore_errors=True)
    os.makedirs(tmp)
    try:
        return fn(tmp)
    finally:
        shutil.rmtree(tmp, ignore_errors=True)


def refute(chk, cfg, invariants):
    dev = vlib.run_tlc("MC_Media", cfg, workers=2, coverage=False)
    if dev.violation is None or not any(i in dev.violation for i in invariants):
        raise vlib.ToolError(f"TLC did not refute {'/'.join(invariants)} for the design of {cfg}: "
                             f"the invariant would be vacuous ({dev.violation})")
    chk.extra.setdefault("deviant_designs_refuted", {})[cfg] = dev.violation


ACTIONS = ["AddImageAny", "AddChartAny", "RemoveImageAny", "RemoveChartAny", "ChangeImageAny", "MoveImageAny", "MoveChartAny",
           "InsertAny", "RemoveAny", "AddSheetAny", "RemoveSheetAny", "RenameSheetAny", "ReadSheetAny", "ReloadAny"]


def run(chk):
    quick = chk.tier == "quick"
    vlib.tlc_mc("MC_Media", "MC_Media.cfg", workers=4, check=chk, must_take=ACTIONS)
    vlib.tlc_mc("MC_Media", "MC_Media_ops.cfg" if quick else "MC_Media_ops_thorough.cfg", workers=4, check=chk,
                must_take=["InsertAny", "RemoveAny"], timeout=3000)
    if not quick:
        vlib.tlc_mc("MC_Media", "MC_Media_thorough.cfg", workers=4, check=chk, must_take=ACTIONS, timeout=7200, heap="8g")
    refute(chk, "MC_Media_deviant_key.cfg", ["RoundTrip", "ReloadIdentityMC"])
    refute(chk, "MC_Media_deviant_cache.cfg", ["SaveAlwaysWorks"])

    def body(tmp):
        pool = Pool(tmp)
        cases = gen_cases(chk, pool)
        used = {st["a"] for c in cases for st in c["steps"]}
        missing = {"AddImage", "AddChart", "RemoveImage", "RemoveChart", "ChangeImage", "MoveImage", "MoveChart", "Insert",
                   "Remove", "AddSheet", "RemoveSheet", "RenameSheet", "ReadSheet", "Reload"} - used
        if missing:
            raise vlib.ToolError(f"vacuous run: no generated history uses {sorted(missing)}")
        events = judge(chk, cases, tmp)
        if not chk.extra.get("saves_with_a_raw_sheet_drawing_compared"):
            raise vlib.ToolError("vacuous run: no save compared the drawing of a still-raw sheet with the loaded file (P5)")
        return cases, events
    cases, events = with_tmp(body)
    chk.evaluations = len(cases)
    chk.nontrivial = {json.dumps([{k: v for k, v in st.items() if k != "path"} for st in c["steps"]], sort_keys=True)
                      for c in cases if len(c["steps"]) > 2}
    chk.rule = ("a case is an initial workbook (built through the API from a bounded-model state, or a corpus file opened "
                "eagerly or lazily) plus a history of add/remove/replace/move image, add/remove/move chart, insert/remove "
                "rows/columns (workbook and sheet level), add/remove/rename sheet, read_sheet and save+reload (eager/lazy); "
                "cases = every depth-1 path of the bounded model over the rich initial workbooks (thorough: + sampled "
                "depth-2 paths), TLC-simulated histories of 12 operations, generated histories at the real grid limits "
                "over all 13 chart kinds, histories on corpus files, one exemplar per open finding; non-trivial = at "
                "least two steps after Init; distinct = different step lists")
    k = next((i for i, c in enumerate(cases) if c["kind"] == "tlc-path"), 0)
    last = events[k][-1]
    chk.sample({"script": [{x: v for x, v in st.items() if x != "path"} for st in cases[k]["steps"]],
                "last_event": {x: last.get(x) for x in ("a", "outcome", "sv", "ld")},
                "package_seen_by_pydec": {"ok": last.get("pkg", {}).get("ok"), "bad": last.get("pkg", {}).get("bad")}})
    chk.sample({"script": [{x: v for x, v in st.items() if x != "path"} for st in cases[-1]["steps"]]})
    chk.assumptions += [
        "picture content = FNV-1a/length token of the bytes, computed by the driver from Image::get_image_data and by "
        "pydec/media_view.py from the media part a picture's blip resolves to; picture names and part names are never "
        "compared; anchors = from/to cell and EMU offsets; chart = kind, series formulas (cat/val/xVal/yVal/bubbleSize), "
        "title text; other anchors (shapes, connectors, OLE frames) are only counted",
        "chart series always refer to a sheet that is not structurally edited (how references move is property C08); "
        "in-range arguments only (nothing pushed beyond XFD1048576)",
        "a marker inside a removed band: the object may be removed or kept with that marker anywhere in 1..old line "
        "(the crate's behaviour there is undocumented); generated histories follow the crate's current choice (removed)",
        "a save while a materialised sheet's chart reads a still-raw sheet (known finding C11-KF3) is out of contract: "
        "lazy histories materialise the data sheet first",
        "valid package = pydec/media_view.py (on pydec/xlsx.py): zip readable, no duplicate member, XML parts well-formed, "
        "every relationship target and source exists, content types cover every part with drawing/chart/image types of "
        "the right family, no unreferenced drawing/chart/image part, no drawing shared by sheets, no chart shared by "
        "frames, every r:id/r:embed used by a sheet's <drawing> or inside a drawing part resolves with the right kind",
    ]


def replay(chk, path):
    with open(path) as f:
        rp = json.load(f)
    case = rp["script"]
    case.setdefault("case", 0)

    def body(tmp):
        # picture files are recreated under this run's scratch directory
        pool = Pool(tmp)
        bypath = {}
        for tok, f in pool.files.items():
            bypath[(f["nm"], f["dg"])] = f["path"]
        for st in case["steps"]:
            if st.get("a") in ("AddImage", "ChangeImage"):
                st["path"] = bypath[(st["nm"], st["dg"])]
        judge(chk, [case], tmp)
    with_tmp(body)
