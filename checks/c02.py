"""C02 - written files are valid packages that an independent reader decodes to the model.

Spec: spec/Package.tla (workbook operations, the abstract package, Offences/PackageOK, the design of
make_buffer as SavePkg, the independent reader Decode).  MC_Package*.cfg: TLC checks PackageOK and
DecodedEqualsModel on every workbook of the bounded model for every hyperlink enumeration order, and shows
that the two-pass enumeration of the real code breaks it (MC_Package_deviant.cfg, expected counterexample).
Conformance: harness/src/bin/package.rs builds workbooks (TLC replays, TLC-simulated histories, boundary and
random workbooks, corpus files re-saved) and saves them with write_writer / write_writer_light; this module
hands the bytes to pydec/xlsx.py (zipfile + expat, shares nothing with the library), which projects them
into the abstract package and the decoded content; spec/Trace_Package.tla evaluates Offences on the logged
package (TLC is the judge of validity) and compares the decoded content with its own state.
"""
import json, os, re, unicodedata
from concurrent.futures import ProcessPoolExecutor
import vlib
from pydec import xlsx

MAXROW, MAXCOL = 1048576, 16384
INT_MAX = 2 ** 31 - 1
BIG_CORPUS = {"aaa_large.xlsx", "issue_233.xlsx"}          # ~300 000 cells each: thorough tier only
MID_CORPUS = {"issue_216.xlsx", "issue_188_3.xlsx", "issue_194_2.xlsx", "issue_188_2.xlsx"}   # re-saved, not edited


# ---------------------------------------------------------------------------------------------
# projection of the written bytes (pydec decodes; nothing here judges)
# ---------------------------------------------------------------------------------------------
def _clamp(x):
    return max(-INT_MAX, min(INT_MAX, int(x)))


def project_pkg(d):
    """pydec.xlsx.decode() output -> the abstract package of spec/Package.tla"""
    parts = [{"name": p["name"], "ct": p["type"], "wf": bool(p["wellformed"])} for p in d["parts"]]
    rels = [{"src": r["source"],
             "items": [{"id": it["id"], "kind": it["kind"], "ext": bool(it["external"]),
                        "target": it["target"] if it["external"] else it["resolved"]} for it in r["items"]]}
            for r in d["rels"]]
    uses = [{"part": u["part"], "elem": u["elem"], "rid": u["rid"]} for u in d["rel_uses"]]
    wb = d["workbook"]
    sheets = []
    for sh in d["sheets"]:
        rows, sx, ssx, dxf = [], set(), set(), set()
        if sh["found"] and sh["wellformed"] and sh["root"] == "worksheet":
            for r in sh["rows"]:
                rows.append({"r": _clamp(r["r"]), "cs": [_clamp(c["c"]) for c in r["cells"]],
                             "rr": sorted({_clamp(c["r"]) for c in r["cells"]})})
                if r["s"] >= 0:
                    sx.add(r["s"])
                for c in r["cells"]:
                    if c["s"] != -1:
                        sx.add(c["s"])
                    if c["t"] == "s":
                        ssx.add(c["sst_index"] if c["sst_index"] >= 0 else -1)
            for c in sh["cols"]:
                if c["style"] != -1:
                    sx.add(c["style"])
            dxf.update(sh["dxf_ids"])
            for t in sh["tables"]:
                dxf.update(t["dxf_ids"])
            children = sh["children"]
        else:
            children = []
        cfx = [{"dxf": _clamp(r["dxf_id"])} for cf in sh["cond_formats"] for r in cf["rules"]] if children else []
        sheets.append({"part": sh["part"], "children": children, "rows": rows, "cfx": cfx, "sx": sorted(_clamp(x) for x in sx),
                       "ssx": sorted(_clamp(x) for x in ssx), "dxf": sorted(_clamp(x) for x in dxf)})
    st = d["styles"]
    return {"zipok": bool(d["ok"]), "ctok": bool(d["content_types"]["present"] and d["content_types"]["wellformed"]),
            "entries": ["/" + e for e in d["entries"] if not e.endswith("/")],
            "parts": parts, "rels": rels, "uses": uses,
            "wbs": [{"name": s["name"], "id": s["sheet_id"], "rid": s["rid"]} for s in wb["sheets"]],
            "active": wb["active_tab"], "sheets": sheets,
            "nxf": len(st["cell_xfs"]), "ndxf": st["dxfs"], "nsst": d["sst"]["count"],
            "dxfs": [{"font": x["font"], "fg": x["fg"], "bg": x["bg"], "border": x["border"], "numfmt": x["numfmt"],
                      "prot": bool(x["protection"])} for x in st["dxf_list"]],
            "xfs": [{"font": x["fontId"], "fill": x["fillId"], "border": x["borderId"], "xf": x["xfId"],
                     "numfmt": x["numFmtId"]} for x in st["cell_xfs"]],
            "nfonts": st["fonts"], "nfills": st["fills"], "nborders": st["borders"], "ncsx": max(1, st["cell_style_xfs"]),
            "numfmts": [n["id"] for n in st["num_fmts"]],
            "tableids": [t["id"] for sh in d["sheets"] for t in sh["tables"]]}


def project_content(d):
    """pydec.xlsx.decode() output -> the decoded content: cells with a value or a formula, hyperlinks, merged
    ranges, defined names, sheet list"""
    sheets = []
    for sh in d["sheets"]:
        cells = []
        for r in sh["rows"]:
            for c in r["cells"]:
                if c["kind"] == "blank" and not c["has_formula"]:
                    continue
                k, v = c["kind"], c["value"]
                if k == "num":
                    v = c["num_bits"]
                elif k == "bad":
                    v = ""
                sm = c["shared_master"]
                f = "" if sm else c["f"]["text"]
                if (f != "" or sm != "") and k == "text" and v == "":
                    k = "blank"                 # a formula whose cached result is the empty text has no cached result
                cells.append({"r": _clamp(c["r"]), "c": _clamp(c["c"]), "k": k, "v": v, "f": f, "sm": sm})
        links = [{"r1": h["r1"], "c1": h["c1"], "r2": h["r2"], "c2": h["c2"],
                  "url": h["target"] if h["rid"] else h["location"], "loc": not h["rid"], "tip": h["tooltip"]}
                 for h in sh["hyperlinks"]]
        merges = [{k: _clamp(m[k]) for k in ("r1", "c1", "r2", "c2")} for m in sh["merges"]]
        sheets.append({"name": sh["name"], "cells": cells, "links": links, "merges": merges})
    names = sorted(({"name": n["name"], "addr": n["text"], "lsid": n["local_sheet_id"]} for n in d["workbook"]["defined_names"]),
                   key=lambda x: (x["name"], x["lsid"], x["addr"]))
    return {"sheets": sheets, "names": names}


_ILLEGAL = re.compile("[\x00-\x08\x0b\x0c\x0e-\x1f\ufffe\uffff]")


def xml_eol(s):
    """XML 1.0, 2.11: a parser passes CR LF and a lone CR on as LF"""
    return s.replace("\r\n", "\n").replace("\r", "\n")


def text_facts(model):
    """String functions TLC cannot compute (it cannot look inside a string), as facts about model cells:
    nl = text after XML line-end normalisation, xs = after ST_Xstring unescaping, xn = both;
    illegal = plain text cells that contain a character outside the XML Char production."""
    text, illegal = [], []
    for si, sh in enumerate(model["sheets"], 1):
        for c in sh["cells"]:
            if c["k"] != "text":
                continue
            v = c["v"]
            nl, xs = xml_eol(v), xlsx.xstring(v)
            xn = xlsx.xstring(nl)
            if nl != v or xs != v:
                text.append({"s": si, "r": c["r"], "c": c["c"], "v": v, "nl": nl, "xs": xs, "xn": xn,
                             "f": c["f"], "sm": c["sm"]})
            if c["f"] == "" and c["sm"] == "" and _ILLEGAL.search(v):
                illegal.append({"s": si, "r": c["r"], "c": c["c"]})
    return {"text": text, "illegal": illegal}


def postprocess(evs):
    for e in evs:
        hx = e.pop("file_hex", None)
        if e.get("a") == "Save" and e.get("outcome") == "ok" and hx is not None:
            d = xlsx.decode(bytes.fromhex(hx), strings=False)
            e["pkg"] = project_pkg(d)
            e["dec"] = project_content(d)
            e["facts"] = text_facts(e["model"])
            e["size"] = len(hx) // 2
    return evs


# ---------------------------------------------------------------------------------------------
# case generation
# ---------------------------------------------------------------------------------------------
def bits(x):
    import struct
    return "%016x" % struct.unpack("<Q", struct.pack("<d", float(x)))[0]


def cell(s, r, c, k, v, f="", sty="", runs=None):
    st = {"a": "SetCell", "s": s, "r": r, "c": c, "k": k, "v": v, "f": f, "sty": sty}
    if k == "rich":
        st["runs"] = runs
        st["v"] = "".join(runs)
    return st


def link(s, r, c, url, loc=False, tip=""):
    return {"a": "Link", "s": s, "r": r, "c": c, "url": url, "loc": loc, "tip": tip}


def image(s, r, c, img="sample1.png", store=None):
    store = store or img
    ext = store.rsplit(".", 1)[1] if "." in store else ""
    return {"a": "Image", "s": s, "r": r, "c": c, "img": img, "as": store, "ext": ext, "extl": ext.lower()}


def rect(r1, c1, r2, c2):
    return {"r1": r1, "c1": c1, "r2": r2, "c2": c2}


def table(s, name, r1, c1, ncols=2, nrows=3):
    return {"a": "Table", "s": s, "name": name, "g": rect(r1, c1, r1 + nrows - 1, c1 + ncols - 1),
            "cols": ["col%d" % i for i in range(ncols)]}


def comment(s, r, c, author="me <&>", text="note & <x>\nsecond line"):
    return {"a": "Comment", "s": s, "r": r, "c": c, "author": author, "text": text}


def _fmt(font="", fg="", border="", numfmt="", prot=False, has=True):
    return {"has": has, "font": font, "fg": fg, "bg": "", "border": border, "numfmt": numfmt, "prot": prot}


def kind_fmt(kind):
    """what the style the driver builds for a rule of this kind formats with (package.rs "CondFmt")"""
    if kind.startswith("fill:"):
        return _fmt(fg=kind[5:])
    return {"none": _fmt(has=False), "empty": _fmt(), "numfmt": _fmt(numfmt="0.00"), "prot": _fmt(prot=True), "font": _fmt(font="b"),
            "fontn": _fmt(font="n"), "border": _fmt(border="thin"),
            "all": _fmt(font="b", fg="FF0000FF", border="thin", numfmt="0.00")}[kind]


MC_KINDS = {"fillr": "fill:FFFF0000", "fillg": "fill:FF00FF00"}


def condfmt(s, sqref, kinds):
    return {"a": "CondFmt", "s": s, "sqref": sqref, "fmts": list(kinds), "fm": [kind_fmt(k) for k in kinds]}


def sheet(name):
    return {"a": "AddSheet", "name": name}


def save(light=False):
    return {"a": "Save", "light": light}


def qname(sheetname):
    return "'" + sheetname.replace("'", "''") + "'"


def complete(st):
    """a TLC replay step -> driver step (fields the bounded model does not carry)"""
    st = dict(st)
    if st["a"] == "Image":
        st.setdefault("as", st["img"])
        st.setdefault("ext", st["as"].rsplit(".", 1)[1] if "." in st["as"] else "")
        st.setdefault("extl", st["ext"].lower())
    if st["a"] == "CondFmt":                       # the model's kind names -> the driver's
        st["fmts"] = [MC_KINDS.get(k, k) for k in st["fmts"]]
    return st


def known_finding_cases():
    """one deterministic case per open finding (and the neighbouring intended behaviour)"""
    cases = []
    # KF1 hyperlink targets permuted (10 distinct external links: all pairings right has probability 1/10!),
    # KF2 tooltip dropped
    st = [{"a": "New"}, sheet("Links")]
    for i in range(10):
        st.append(link(1, 2 + i, 1 + (i % 3), "http://host%d.example/p?x=%d&y=<2>" % (i, i), False, "tip %d" % i if i % 2 else ""))
    st += [link(1, 20, 1, "'Links'!A1", True, ""), cell(1, 2, 1, "text", "anchor"), save(False), save(True)]
    cases.append({"steps": st, "family": "kf:hyperlinks"})
    # KF3 active tab left behind by remove_sheet
    cases.append({"steps": [{"a": "New"}, sheet("A"), sheet("B"), sheet("C"), {"a": "SetActive", "i": 2},
                            cell(3, 1, 1, "text", "x"), {"a": "RemoveSheet", "s": 1}, save(False)], "family": "kf:active"})
    # KF4 error values, KF5 cached results of formulas
    st = [{"a": "New"}, sheet("Vals")]
    for i, err in enumerate(["#N/A", "#DIV/0!", "#REF!", "#NAME?", "#NUM!", "#NULL!", "#VALUE!"]):
        st.append(cell(1, 1, 1 + i, "err", err))
        st.append(cell(1, 5, 1 + i, "err", err, f="NA()+%d" % i))
    st += [cell(1, 2, 1, "num", bits(3), f="1+2"), cell(1, 2, 2, "bool", "TRUE", f="1=1"), cell(1, 2, 3, "text", "abc", f='"a"&"bc"'),
           cell(1, 2, 4, "blank", "", f="NOW()"), cell(1, 2, 5, "num", bits(0.1 + 0.2), f="0.1+0.2"),
           cell(1, 2, 6, "bool", "FALSE", f="1=2"), cell(1, 2, 7, "num", bits(-1e300), f="-1E+300"), save(False)]
    cases.append({"steps": st, "family": "kf:values"})
    # KF6 carriage returns, KF7 text that looks like an ST_Xstring escape, KF8 characters XML cannot carry
    st = [{"a": "New"}, sheet("Text"),
          cell(1, 1, 1, "text", "a\rb"), cell(1, 1, 2, "text", "line1\r\nline2"), cell(1, 1, 3, "text", "x\n\ry"),
          cell(1, 2, 1, "text", "_x0041_"), cell(1, 2, 2, "text", "a_x000D_b"), cell(1, 2, 3, "text", "_x005F_"),
          cell(1, 2, 4, "text", "\r_x0042_"), cell(1, 2, 5, "text", "_x00zz_ _x41_ x_y"),
          cell(1, 3, 1, "text", "cr\rin formula result", f='"cr"'), cell(1, 3, 2, "rich", "", runs=["a\r", "b"]),
          cell(1, 4, 1, "text", "plain\nlf and\ttab are fine  "), save(False)]
    cases.append({"steps": st, "family": "kf:text"})
    for ch in ["\x01", "\x0b", "\x1f", "\ufffe", "\uffff"]:
        cases.append({"steps": [{"a": "New"}, sheet("Ill"), cell(1, 1, 1, "text", "a" + ch + "b"), cell(1, 1, 2, "text", "fine"),
                                cell(1, 2, 1, "num", bits(7)), cell(1, 2, 2, "text", "t", f='"t"'), link(1, 3, 1, "http://x/"),
                                {"a": "Merge", "s": 1, "g": rect(5, 1, 6, 2)}, save(False)], "family": "kf:illegal"})
    # KF9 tableParts before oleObjects (OLE objects only come from a file), KF11 VML image data without an image
    cases.append({"steps": [{"a": "Open", "file": "aaa.xlsm"}, table(1, "TX", 30, 1), table(2, "TY", 30, 1), save(False)],
                  "family": "kf:order"})
    cases.append({"steps": [{"a": "Open", "file": "wps_comment.xlsx"}, save(False), save(True)], "family": "kf:vml"})
    # KF10 media parts with an extension the content-type table does not know
    cases.append({"steps": [{"a": "New"}, sheet("Img"), image(1, 1, 1, "sample1.png", "pic.gif"), image(1, 9, 1, "sample2.png", "Pic.PNG"),
                            image(1, 18, 1, "sample3.png", "ok.jpeg"), image(1, 27, 1, "sample1.png"), save(False)],
                  "family": "kf:media"})
    # differential formats: every kind of style as the first differential format of a save (an index into an empty
    # or foreign table shows there), equal styles shared, rules on several sheets (the table is shared by the sheets);
    # KF12: number format / protection of a rule's style are not carried by the dxf
    for kind in ["empty", "numfmt", "prot", "font", "fontn", "fill:FFFF0000", "fill:FF123456", "border", "all", "none"]:
        cases.append({"steps": [{"a": "New"}, sheet("CF"), cell(1, 1, 1, "num", bits(5)), condfmt(1, "A1:A5", [kind]), save(False), save(True)],
                      "family": "kf:dxf"})
    cases.append({"steps": [{"a": "New"}, sheet("A"), sheet("B"), sheet("C"),
                            condfmt(1, "A1:A5", ["fill:FFFF0000", "empty", "font"]), condfmt(1, "B1:B5", ["numfmt", "fill:FFFF0000"]),
                            condfmt(2, "A1:A5", ["prot"]), condfmt(3, "C1:C9", ["font", "all", "none", "border", "fill:FF00FF00"]),
                            condfmt(2, "D1:D5", ["fill:FF00FF00", "fontn", "empty"]), save(False),
                            {"a": "RemoveSheet", "s": 1}, save(True)], "family": "kf:dxf"})
    return cases


TEXTS = ["plain", "a & b < c > d \" e ' f", "  padded  ", "\tlead tab", "multi\nline", "", "123", "TRUE", "#N/A", "1e5",
         "\u00e9\u00df\u65e5\u672c", "\U0001F600 non-BMP \U00010348", "x" * 300, "]]>", "<![CDATA[x]]>", "&amp;", "&#10;",
         "a\u00a0b", "\u2028sep", "tail space ", "=1+2", "'quoted", "\ud7ff\ue000\ufffd", "\x7f\x85"]
KF_TEXTS = ["cr\rlf", "win\r\nline", "_x0041_", "a_x000A_b", "\x01ctl"]
FORMULAS = ["1+2", "SUM(A1:B2)", "\"a\"&\"<b>\"", "IF(A1>1,\"x\",\"y\")", "'My Sheet'!A1*2", "A1&\" & \"&B1", "NOW()", "$A$1+B$2",
            "SUM(1:1)", "LEN(\"\u65e5\u672c\")", "1<2", "1<>2"]
NAMES = ["Sheet1", "My Sheet", "A&B <x>", "It's", "\u30b7\u30fc\u30c8", "S-1.2", "x" * 31, "\"q\"", "a!b", "1", "\U0001F600", "Q;R,S",
         "ends.", "  lead", "100%", "#hash", "a=b", "{c}", "Fran\u00e7ais"]
URLS = ["http://example.com/", "https://example.com/a?x=1&y=2", "http://example.com/\u65e5\u672c", "mailto:a@b.c?subject=x y",
        "file:///C:/dir/f.xlsx", "http://example.com/\"q\"<>", "http://example.com/#frag", "ftp://h/p", "http://a/%20b"]
CF_KINDS = ["empty", "numfmt", "prot", "font", "fontn", "border", "all", "none", "fill:FFFF0000", "fill:FF00FF00", "fill:FF123456",
            "fill:FFFF0000", "empty"]
NUMS = [0.0, -0.0, 1.0, -1.0, 1.5, 0.1 + 0.2, 1e300, -1e300, 5e-324, 2.2250738585072014e-308, 123456789012345680.0, 1e15, 1e16,
        1 / 3, 1e-7, 9007199254740993.0, 4.35, 100.0, 65535.0, 1e21, 1.7976931348623157e308]


def random_case(rng, thorough):
    """a random workbook inside the contract of the API (legal sheet names, in-grid coordinates, typed setters)"""
    st = [{"a": "New"}]
    names = rng.sample(NAMES, rng.randint(1, 4))
    for n in names:
        st.append(sheet(n))
    sheets = list(names)
    tables, nops = 0, rng.randint(3, 40 if thorough else 25)
    used_names, charted, valued = set(), set(), set()
    for _ in range(nops):
        s = rng.randint(1, len(sheets))
        kind = rng.random()
        r = rng.choice([1, 2, 3, 5, 8, rng.randint(1, 60), MAXROW, MAXROW - 1])
        c = rng.choice([1, 2, 3, 4, rng.randint(1, 30), MAXCOL, 27, 703])
        if kind < 0.40:
            valued.add((s, r, c))
            k = rng.choice(["text", "text", "num", "num", "bool", "err", "rich", "ftext", "fnum", "fbool", "fblank", "ferr"])
            sty = rng.choice(["", "", "", "0.00", "yyyy-mm-dd", "#,##0", "0%", "@", "[Red]0.0;\"<&>\""])
            if k == "text":
                v = rng.choice(TEXTS) if rng.random() < 0.93 else rng.choice(KF_TEXTS)
                if rng.random() < 0.2:
                    v = "".join(rng.choice(TEXTS)[:6] for _ in range(3))
                if _ILLEGAL.search(v) and r <= 3:
                    r += 3          # (the driver's charts cache A1:B3: the same raw character would also break the chart part)
                    valued.add((s, r, c))
                st.append(cell(s, r, c, "text", v, sty=sty))
            elif k == "num":
                x = rng.choice(NUMS) if rng.random() < 0.6 else rng.uniform(-1e6, 1e6) * 10 ** rng.randint(-20, 20)
                st.append(cell(s, r, c, "num", bits(x), sty=sty))
            elif k == "bool":
                st.append(cell(s, r, c, "bool", rng.choice(["TRUE", "FALSE"]), sty=sty))
            elif k == "err":
                st.append(cell(s, r, c, "err", rng.choice(["#N/A", "#DIV/0!", "#VALUE!", "#REF!", "#NAME?", "#NUM!", "#NULL!"])))
            elif k == "rich":
                st.append(cell(s, r, c, "rich", "", runs=[rng.choice(TEXTS[:8]) or "x", rng.choice([" b ", "c", "\u65e5", "<&>"]), "z"][:rng.randint(1, 3)]))
            else:
                f = rng.choice(FORMULAS)
                if k == "ftext":
                    st.append(cell(s, r, c, "text", rng.choice(["res", "a & <b>", " padded ", "\u65e5\u672c", "multi\nline"]), f=f, sty=sty))
                elif k == "fnum":
                    st.append(cell(s, r, c, "num", bits(rng.choice(NUMS[:12])), f=f, sty=sty))
                elif k == "fbool":
                    st.append(cell(s, r, c, "bool", rng.choice(["TRUE", "FALSE"]), f=f))
                elif k == "ferr":
                    st.append(cell(s, r, c, "err", rng.choice(["#N/A", "#DIV/0!", "#VALUE!"]), f=f))
                else:
                    st.append(cell(s, r, c, "blank", "", f=f))
        elif kind < 0.55:
            if rng.random() < 0.7:
                st.append(link(s, r, c, rng.choice(URLS) + (str(rng.randint(0, 99)) if rng.random() < 0.7 else ""), False,
                               rng.choice(["", "", "tip", "tip & <x>"])))
            else:
                st.append(link(s, r, c, qname(rng.choice(sheets)) + "!A%d" % rng.randint(1, 99), True, rng.choice(["", "", "go"])))
        elif kind < 0.60:
            r1, c1 = rng.randint(1, 50), rng.randint(1, 20)
            st.append({"a": "Merge", "s": s, "g": rect(r1, c1, r1 + rng.randint(0, 3), c1 + rng.randint(0, 3))})
        elif kind < 0.65:
            nm = rng.choice(["Name_1", "_x", "\u540d\u524d", "Tax.Rate", "N" + str(rng.randint(1, 99)), "Print_Area"])
            # (a sheet name that begins or ends with a quote is mangled by DefinedName::set_address itself: C17-KF1)
            refs = [n for n in sheets if n[0] not in "\"'" and n[-1] not in "\"'" and len(n) < 31]   # (31 chars: not seen as an address)
            if (s, nm) not in used_names and refs:
                used_names.add((s, nm))
                st.append({"a": "Name", "s": s, "name": nm, "addr": qname(rng.choice(refs)) + rng.choice(["!$A$1", "!$A$1:$C$9", "!$B:$B", "!$2:$3"])})
        elif kind < 0.71:
            st.append(comment(s, rng.randint(1, 30), rng.randint(1, 10), rng.choice(["me", "A & B", "\u4f5c\u8005", ""]),
                              rng.choice(["note", "a & <b>", "two\nlines", " padded ", "\U0001F600"])))
        elif kind < 0.76:
            tables += 1
            st.append(table(s, "Table%d" % tables, 100 + 10 * tables, 1, rng.randint(1, 4), rng.randint(2, 5)))
        elif kind < 0.80:
            st.append(image(s, rng.randint(1, 40), rng.randint(1, 10), rng.choice(["sample1.png", "sample2.png", "sample3.png"])))
        elif kind < 0.83:
            if re.match(r"^[\w ]+$", sheets[s - 1]):        # the driver's chart series name the sheet unquoted
                charted.add(s)
                st.append({"a": "Chart", "s": s, "r": rng.randint(1, 40), "c": rng.randint(1, 10)})
        elif kind < 0.86:
            st.append({"a": "Validation", "s": s, "sqref": "D%d:D%d" % (rng.randint(1, 5), rng.randint(6, 9)), "list": rng.choice(["\"x,y\"", "$A$1:$A$3", "\"a & b,<c>\""])})
        elif kind < 0.90:
            kinds = [rng.choice(CF_KINDS) for _ in range(rng.choice([1, 1, 2, 3, 5]))]
            st.append(condfmt(s, "E%d:F%d" % (rng.randint(1, 5), rng.randint(6, 9)), kinds))
        elif kind < 0.92:
            st.append({"a": "Protect", "s": s})
        elif kind < 0.93:
            st.append({"a": "ProtectBook"})
        elif kind < 0.94:
            st.append({"a": "Macro", "on": rng.random() < 0.7})
        elif kind < 0.95:
            if (s, r, c) not in valued:
                st.append({"a": "StyleCell", "s": s, "r": r, "c": c, "sty": rng.choice(["", "0.000"])})
        elif kind < 0.955:
            st.append({"a": "RowHeight", "s": s, "r": r, "c": 1, "h": rng.randint(5, 90)})
        elif kind < 0.96:
            st.append(rng.choice([{"a": "ColWidth", "s": s, "c": c, "w": rng.randint(2, 60)},
                                  {"a": "AutoFilter", "s": s, "g": rect(1, 1, rng.randint(2, 9), rng.randint(1, 5))},
                                  {"a": "RemoveCell", "s": s, "r": r, "c": c}]))
            valued.discard((s, r, c))
        elif kind < 0.975 and len(sheets) < 5:
            cand = [n for n in NAMES if n not in sheets]
            n = rng.choice(cand)
            sheets.append(n)
            st.append(sheet(n))
        elif kind < 0.99 and len(sheets) >= 2:
            sheets.pop(s - 1)
            used_names = {(a - 1 if a > s else a, b) for a, b in used_names if a != s}
            charted = {a - 1 if a > s else a for a in charted if a != s}
            valued = {(a - 1 if a > s else a, b, d) for a, b, d in valued if a != s}
            st.append({"a": "RemoveSheet", "s": s})
        elif s not in charted and not any(a == s for a, _ in used_names):
            cand = [n for n in NAMES if n not in sheets]
            n = rng.choice(cand)
            sheets[s - 1] = n
            st.append({"a": "RenameSheet", "s": s, "name": n})
        if rng.random() < 0.05:
            st.append({"a": "SetActive", "i": rng.randint(0, len(sheets) - 1)})
        if rng.random() < 0.06:
            st.append(save(rng.random() < 0.5))
    st.append(save(rng.random() < 0.5))
    return {"steps": st, "family": "random"}


def corpus_files():
    d = os.path.join(vlib.REPO, "tests", "test_files")
    return sorted(f for f in os.listdir(d) if f.endswith((".xlsx", ".xlsm")))


def corpus_cases(rng, thorough):
    cases = []
    for f in corpus_files():
        if os.path.getsize(os.path.join(vlib.REPO, "tests", "test_files", f)) == 0:
            continue                                   # aaa_large_string.xlsx is an empty file in the tree as given
        if f in BIG_CORPUS and not thorough:
            continue
        cases.append({"steps": [{"a": "Open", "file": f}, save(False), save(True)], "family": "corpus"})
        if f not in BIG_CORPUS and (thorough or f not in MID_CORPUS):
            # the same file with edits through the API before it is saved
            cases.append({"steps": [{"a": "Open", "file": f}, cell(1, 3, 2, "text", "edited & <saved>"), cell(1, 4, 2, "num", bits(2.5), sty="0.00"),
                                    link(1, 3, 2, "http://example.com/?a=1&b=2"), sheet("Added by C02"),
                                    cell("LAST", 1, 1, "text", "on the new sheet"), comment("LAST", 2, 2), save(rng.random() < 0.5)],
                          "family": "corpus-edit"})
    return cases


def fix_last(case, nsheets_probe):
    """'LAST' sheet index placeholders -> the index of the sheet added by the case (needs the sheet count)"""
    n = nsheets_probe
    for st in case["steps"]:
        if st.get("s") == "LAST":
            st["s"] = n + 1
    return case


def tlc_cases(chk):
    quick = chk.tier == "quick"
    cases = []
    r = vlib.run_tlc("MC_Package", "MC_Package_replay.cfg" if quick else "MC_Package_replay_d3.cfg", workers=4, coverage=False,
                     timeout=1800)
    if not r.ok or not r.replays:
        raise vlib.ToolError("replay generation failed: " + (r.violation or r.out[-800:]))
    reps = sorted(r.replays, key=lambda x: json.dumps(x, sort_keys=True))
    taken = {}
    for rp in reps:
        for st in rp:
            taken[st["a"]] = taken.get(st["a"], 0) + 1
    for a in MUST_TAKE:                                    # vacuity guard: every action of the model occurs in its behaviours
        if not taken.get(a):
            raise vlib.ToolError(f"vacuous model: action {a} occurs in no behaviour of MC_Package_replay.cfg")
    chk.extra["actions_in_tlc_behaviours"] = taken
    for rp in reps:
        cases.append({"steps": [complete(s) for s in rp], "family": "tlc-replay"})
    n1 = len(cases)
    nsim = 500 if quick else 6000
    rs = vlib.run_tlc("MC_Package", "MC_Package_sim.cfg", workers=1, coverage=False, simulate=f"num={nsim}",
                      extra=["-depth", "40", "-seed", str(chk.seed)], timeout=3000)
    if rs.rc != 0 or rs.violation or not rs.replays:
        raise vlib.ToolError("TLC simulation of MC_Package_sim.cfg failed: " + (rs.violation or rs.out[-800:]))
    seen = set()
    for rp in rs.replays:
        key = json.dumps(rp, sort_keys=True)
        if key not in seen:
            seen.add(key)
            cases.append({"steps": [complete(s) for s in rp], "family": "tlc-sim"})
    chk.extra.setdefault("cases", {}).update({"tlc_paths": n1, "tlc_simulated_histories": len(seen)})
    return cases


def gen_cases(chk):
    rng = chk.rng
    thorough = chk.tier == "thorough"
    cases = tlc_cases(chk)
    kf = known_finding_cases()
    cases += kf
    nrand = 4000 if thorough else 500
    rnd = [random_case(rng, thorough) for _ in range(nrand)]
    cases += rnd
    cor = corpus_cases(rng, thorough)
    cases += cor
    chk.extra["cases"].update({"known_finding_and_boundary": len(kf), "random_workbooks": len(rnd), "corpus_cases": len(cor)})
    for i, c in enumerate(cases):
        c["case"] = i
        c["repo"] = vlib.REPO
    return cases


# ---------------------------------------------------------------------------------------------
# judging (TLC) and reporting
# ---------------------------------------------------------------------------------------------
def _post_job(evs):
    return postprocess(evs)


def drive(cases):
    # corpus-edit cases need the sheet count of the file: probe with a first pass of Open events
    probes = [c for c in cases if any(st.get("s") == "LAST" for st in c["steps"])]
    if probes:
        pc = [{"case": c["case"], "repo": c["repo"], "steps": [c["steps"][0]]} for c in probes]
        for c, evs in zip(probes, vlib.run_cases("package", pc, timeout=120)):
            n = len(evs[0]["model"]["sheets"]) if evs and evs[0].get("outcome") == "ok" else 0
            fix_last(c, n)
    events = vlib.run_cases("package", cases, timeout=180)
    jobs = max(1, min(vlib.NCPU - 2, 8))
    if len(events) > 8:
        with ProcessPoolExecutor(max_workers=jobs) as ex:
            events = list(ex.map(_post_job, events, chunksize=4))
    else:
        events = [postprocess(e) for e in events]
    return events


def describe(case, ev, detail):
    if ev is None:
        return detail
    small = {k: v for k, v in ev.items() if k not in ("model", "pkg", "dec", "facts")}
    return f"{case.get('family', '')} step {json.dumps(small)[:200]}: {detail}"


def judge(chk, cases):
    events = drive(cases)
    out = vlib.validate("Trace_Package", "Trace_Package.cfg", events, chk.open_ids, "c02", chunk_events=700, jobs=4)
    # "drift": the design model (SavePkg) and the file disagree on part names / relationship targets although the
    # file satisfies the property.  That is information about the specification, not a verdict about the code.
    drift = [m for m in out["mismatch"] if re.match(r'^<<\s*"drift"', m[2])]
    out["mismatch"] = [m for m in out["mismatch"] if not re.match(r'^<<\s*"drift"', m[2])]
    if drift:
        vlib.log(f"NOTE (C02): {len(drift)} saved package(s) satisfy the property but differ from the design model SavePkg "
                 f"in part names or relationships, e.g. case {drift[0][0]}: {drift[0][2][:600]}")
    chk.extra["design_model_drift"] = chk.extra.get("design_model_drift", 0) + len(drift)
    first = {}
    for ci, off, detail in out["mismatch"]:
        if ci not in first or off < first[ci][0]:
            first[ci] = (off, detail)
    for ci, (off, detail) in sorted(first.items()):
        if re.match(r'^<<\s*"(gen|nosave|fatal)"', detail):
            raise vlib.ToolError(f"case {ci} ({cases[ci].get('family')}) left the contract of the check at step {off}: {detail[:1500]}")
    chk.process_validation(out, cases, events, "package", describe)
    return events


MUST_TAKE = ["AddSheet", "RemoveSheet", "RenameSheet", "SetActive", "SetCell", "Link", "Comment", "Table", "Image", "Chart",
             "CondFmt", "Macro", "Merge", "Name", "Validation", "Protect", "Save"]


def mc(chk, cfg, timeout=3600):
    """Model-check one config of the intended design.  (Without -coverage: TLC's coverage instrumentation
    switches off the caching of LET definitions, which makes SavePkg intractable; vacuity is guarded on the
    enumerated behaviours instead, see tlc_cases.)"""
    if os.environ.get("VERIF_DEBUG_SKIP_MC"):
        vlib.log(f"[tlc] SKIPPED MC_Package {cfg} (VERIF_DEBUG_SKIP_MC)")
        chk.states += 1
        chk.transitions += 1
        return
    r = vlib.run_tlc("MC_Package", cfg, workers=4, coverage=False, timeout=timeout)
    if not r.ok:
        print(r.out[-4000:])
        raise vlib.ToolError(f"TLC did not complete cleanly on MC_Package/{cfg}: rc={r.rc} {r.violation}")
    vlib.log(f"[tlc] MC_Package {cfg}: {r.generated} states generated, {r.distinct} distinct, depth {r.depth}, {r.wall:.1f}s")
    chk.add_mc("MC_Package", cfg, r)


def run(chk):
    mc(chk, "MC_Package.cfg")
    mc(chk, "MC_Package_deep.cfg")
    if chk.tier == "thorough":
        mc(chk, "MC_Package_thorough.cfg", timeout=7200)
        mc(chk, "MC_Package_thorough_deep.cfg", timeout=7200)
    if not os.environ.get("VERIF_DEBUG_SKIP_MC"):
        # the design with two independently ordered passes (what two fresh HashMaps give) must break the property
        rd = vlib.run_tlc("MC_Package", "MC_Package_deviant.cfg", workers=2, coverage=False)
        if rd.violation is None or "TwoOrdersDecode" not in rd.out:
            raise vlib.ToolError("MC_Package_deviant.cfg: the two-pass hyperlink enumeration no longer breaks DecodedEqualsModel")
        chk.extra["deviant_design"] = "MC_Package_deviant.cfg: TwoOrdersDecode violated as expected (2 external hyperlinks)"
    cases = gen_cases(chk)
    events = judge(chk, cases)
    saves = sum(1 for evs in events for e in evs if e.get("a") == "Save")
    chk.evaluations = saves
    chk.nontrivial = {json.dumps(c["steps"], sort_keys=True) for c in cases if len(c["steps"]) > 2}
    chk.extra["saves_judged"] = saves
    chk.extra["bytes_decoded"] = sum(e.get("size", 0) for evs in events for e in evs)
    chk.rule = ("a case is a history of public API operations (or a corpus file loaded with reader::xlsx::read, optionally "
                "edited) ending in write_writer / write_writer_light; cases = every history of the bounded model "
                "(MC_Package_replay.cfg), TLC-simulated histories of 40 operations, one deterministic case per known finding, "
                "seeded random workbooks (Unicode, grid limits, all value kinds, all object kinds), every corpus file re-saved "
                "with both writers and once more after edits; distinct = different step lists")
    for fam in ("tlc-replay", "random", "corpus"):
        for c, evs in zip(cases, events):
            if c.get("family") == fam:
                sv = [e for e in evs if e.get("a") == "Save" and "pkg" in e]
                if sv:
                    chk.sample({"family": fam, "script": [s for s in c["steps"]][:12],
                                "observed": {"parts": [p["name"] for p in sv[-1]["pkg"]["parts"]][:40],
                                             "decoded_sheet_1": {k: (v[:6] if isinstance(v, list) else v) for k, v in sv[-1]["dec"]["sheets"][0].items()}
                                             if sv[-1]["dec"]["sheets"] else {}}})
                    break
    chk.assumptions += [
        "XML well-formedness and character legality of every part are decided by expat (pydec/xlsx.py) and logged as "
        "wf; the zip container is read by Python's zipfile (CRC checked); TLC judges the logged abstract package",
        "string functions TLC cannot evaluate (XML line-end normalisation, ST_Xstring unescaping, XML Char legality) are "
        "computed by Python as facts about model cells and bound to those cells by the trace specification",
        "the workbook content is what the public getters show (checked against the specification state at every save); "
        "cells are compared by value kind, value (numbers bit-exact), formula text or shared-formula membership; "
        "blank cells that only carry a style are not content; the cached result of a formula that is the empty text "
        "counts as no cached result",
        "activeTab inside the sheet list is judged as part of package validity (DESIGN.md PackageOK)",
    ]


def replay(chk, path):
    with open(path) as f:
        rp = json.load(f)
    case = rp["script"]
    case["repo"] = vlib.REPO
    judge(chk, [case])
