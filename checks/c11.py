"""C11 - lazy loading is equivalent to eager loading for every access pattern.

Spec: spec/Lazy.tla (a save at the level of part names: writer order, first writer of a name wins).
MC_Lazy*.cfg: TLC checks LazyEqEager / valid file / unedited sheets kept / edits present / the save works for the
intended design over all histories within the operation bounds, and must *refute* the three other designs
(relationship parts of raw sheets under their original names; tables of loaded sheets numbered from 1; chart
caches read from the referenced sheet's cells) - these are the known findings C11-KF1..3.
Behaviours of the specification (paths of depth 2 - thorough: 3 - over four file shapes, enumerated by TLC and
sampled with the run's seed when there are more than the tier's cap; TLC-simulated longer histories) are run by harness/src/bin/lazy.rs on generated files, on generated files whose sheet parts are not numbered in
workbook order (re-ordered by this module), and - re-addressed by position - on multi-sheet corpus files; a
lazily opened workbook and its eagerly opened twin get the same history.  pydec/lazy_view.py decodes every written
package; spec/Trace_Lazy.tla judges every step.
"""
import io, json, os, re, shutil, time, zipfile
from concurrent.futures import ProcessPoolExecutor
import vlib
from pydec import lazy_view

CORPUS = os.path.join(vlib.REPO, "tests", "test_files")
QUICK_FILES = ["aaa.xlsx", "issue_190.xlsx", "issue_215.xlsx", "google.xlsx", "issue_244.xlsx", "aaa_insertCell.xlsx",
               "libre.xlsm"]


# ---------------------------------------------------------------------------------------------
# sources
# ---------------------------------------------------------------------------------------------
def gen_src_of_shape(orig):
    """A TLC file shape (sequence of [name, pno, rels, tabs, refs] in workbook order) as a source the driver can
    generate: the driver numbers the parts in the order in which it creates the sheets, so the sheets are created
    in part order and the workbook order is restored afterwards by reorder()."""
    by_part = sorted(orig, key=lambda s: s["pno"])
    sheets = []
    for s in by_part:
        feat = ["style"]
        if s["tabs"]:
            feat.append("table")
        if s["rels"] and not s["tabs"]:
            feat += ["comment", "link"]
        elif s["rels"]:
            feat.append("comment")
        else:
            feat.append("merge")
        sheets.append({"name": s["name"], "feat": feat})
    return {"kind": "gen", "sheets": sheets, "order": [s["name"] for s in orig]}


def reorder(path, order):
    """Rewrite xl/workbook.xml of a generated file so that the <sheet> elements come in `order` (each keeps its own
    r:id, hence its own part): a file whose sheet parts are not numbered in workbook order, as produced by
    spreadsheet applications after sheets were moved."""
    with open(path, "rb") as f:
        data = f.read()
    zin = zipfile.ZipFile(io.BytesIO(data))
    out = io.BytesIO()
    zout = zipfile.ZipFile(out, "w", zipfile.ZIP_DEFLATED)
    for item in zin.infolist():
        b = zin.read(item.filename)
        if item.filename == "xl/workbook.xml":
            text = b.decode("utf-8")
            m = re.search(r"<sheets>(.*?)</sheets>", text, re.S)
            els = re.findall(r"<sheet\b[^>]*/>", m.group(1))
            byname = {re.search(r'name="([^"]*)"', e).group(1): e for e in els}
            if sorted(byname) != sorted(order):
                raise vlib.ToolError("cannot reorder generated workbook: sheet names do not match")
            text = text[:m.start(1)] + "".join(byname[n] for n in order) + text[m.end(1):]
            b = text.encode("utf-8")
        zout.writestr(item, b)
    zout.close()
    with open(path, "wb") as f:
        f.write(out.getvalue())


class Sources:
    """Materialises abstract sources ({"kind":"file","name":..} of the corpus, {"kind":"gen",..}) as files."""

    def __init__(self, tmp):
        self.tmp = tmp
        self.cache = {}

    def key(self, src):
        return json.dumps(src, sort_keys=True)

    def prepare(self, srcs):
        todo = []
        for src in srcs:
            k = self.key(src)
            if k in self.cache or k in [self.key(s) for s in todo]:
                continue
            if src["kind"] == "file":
                self.cache[k] = os.path.join(CORPUS, src["name"])
            else:
                todo.append(src)
        if not todo:
            return
        cases = [{"case": f"g{len(self.cache) + n}", "tmp": self.tmp,
                  "steps": [{"a": "Open", "src": {"kind": "gen", "sheets": s["sheets"]}}]} for n, s in enumerate(todo)]
        res = vlib.run_cases("lazy", cases, timeout=60, jobs=min(6, len(cases)))
        for src, c, evs in zip(todo, cases, res):
            if not evs or evs[0].get("a") != "Open" or evs[0].get("outcome") != "ok":
                raise vlib.ToolError(f"the driver could not generate a source workbook: {json.dumps(src)[:200]}")
            path = evs[0]["file"]
            names = [s["name"] for s in src["sheets"]]
            if src.get("order") and src["order"] != names:
                reorder(path, src["order"])
            self.cache[self.key(src)] = path

    def path(self, src):
        return self.cache[self.key(src)]


# ---------------------------------------------------------------------------------------------
# histories
# ---------------------------------------------------------------------------------------------
def finish_history(steps):
    steps = [dict(s) for s in steps]
    if not steps or steps[-1]["a"] != "Save":
        steps.append({"a": "Save"})
    return steps


def adapt(steps, names, allrefs, wb_ok):
    """Re-address a TLC history (over three sheets A, B, C) by position for a file with other sheet names; drop the
    steps that would leave this check's contract on that file (sheet index beyond the file, removing/renaming a
    sheet that a chart takes its data from - the eager workbook cannot be saved then either, workbook-level row
    insertion on files where it does not terminate on the eager workbook)."""
    names = list(names)
    marks = [set() for _ in names]
    out = []
    for st in steps:
        st = dict(st)
        a = st["a"]
        if "i" in st and a != "NewSheet":
            if st["i"] > len(names):
                continue
            if "name" in st and a != "Rename":
                st["name"] = names[st["i"] - 1]
        if a in ("WbInsertRows", "WbRemoveRows") and not wb_ok:
            st["a"] = "ReadAll"
        if a == "RemoveSheet":
            if len(names) <= 1 or names[st["i"] - 1] in allrefs:
                continue
            names.pop(st["i"] - 1)
            marks.pop(st["i"] - 1)
        elif a == "Rename":
            if names[st["i"] - 1] in allrefs or st["name"] in names:
                continue
            names[st["i"] - 1] = st["name"]
        elif a == "NewSheet":
            if st["name"] in names:
                continue
            names.append(st["name"])
            marks.append(set())
        elif a == "Edit":
            slot = ("v" if st["t"] in "sb" else st["t"], st["k"])
            if slot in marks[st["i"] - 1]:
                continue
            marks[st["i"] - 1].add(slot)
        out.append(st)
    return finish_history(out)


def kf_exemplars():
    """One history per open finding, part of every run (so that each KNOWN-FINDING line is deterministic)."""
    g3 = {"kind": "gen", "sheets": [{"name": n, "feat": ["style", "comment", "link"]} for n in ("A", "B", "C")],
          "order": ["A", "B", "C"]}
    gperm = dict(g3, order=["B", "A", "C"])
    gtab = {"kind": "gen", "sheets": [{"name": "A", "feat": ["table"]}, {"name": "B", "feat": ["table", "comment"]},
                                      {"name": "C", "feat": ["merge"]}], "order": ["A", "B", "C"]}
    return [
        # KF1: removing the first sheet while the others are raw; a re-ordered file saved untouched; a new sheet
        # that lands on the part number a raw sheet's relationships were written under
        (g3, [{"a": "RemoveSheet", "i": 1}, {"a": "Save"}]),
        (gperm, [{"a": "Save"}]),
        (g3, [{"a": "RemoveSheet", "i": 1}, {"a": "NewSheet", "name": "N1"},
              {"a": "Edit", "i": 3, "name": "N1", "via": "idx", "t": "c", "k": 1, "v": "M1"}, {"a": "Save"}]),
        ({"kind": "file", "name": "aaa.xlsx"}, [{"a": "RemoveSheet", "i": 3}, {"a": "Save"}]),
        # KF2: the second sheet (one table) is materialised, the first (table1.xml) stays raw
        (gtab, [{"a": "ReadSheet", "i": 2}, {"a": "Save"}]),
        (gtab, [{"a": "Edit", "i": 3, "name": "C", "via": "name", "t": "t", "k": 1, "v": "M1"}, {"a": "Save"}]),
        ({"kind": "file", "name": "issue_215.xlsx"}, [{"a": "ReadSheet", "i": 2}, {"a": "Save"}]),
        # KF3: Sheet2 of issue_190.xlsx has a chart over Sheet3, which is still raw
        ({"kind": "file", "name": "issue_190.xlsx"}, [{"a": "ReadSheet", "i": 2}, {"a": "Save"}]),
    ]


def corpus_files(chk):
    if chk.tier == "quick":
        return [f for f in QUICK_FILES if os.path.exists(os.path.join(CORPUS, f))]
    out = []
    for f in sorted(os.listdir(CORPUS)):
        if f.endswith((".xlsx", ".xlsm")):
            v = lazy_view.view_file(os.path.join(CORPUS, f))
            if v["zip"] and len(v["sheets"]) >= 2:
                out.append(f)
    return out


def preflight(chk, tmp, files):
    """Which corpus files can the *eager* workbook load, save and reload at all, and on which does a workbook-level
    row insertion terminate?  (Defects of the eager pipeline belong to other properties; C11 compares with it.)"""
    cases = []
    for f in files:
        v = lazy_view.view_file(os.path.join(CORPUS, f))
        first = v["sheets"][0]["name"] if v["sheets"] else ""
        src = {"kind": "file", "path": os.path.join(CORPUS, f)}
        cases.append({"case": f"pfA-{f}", "tmp": tmp, "steps": [{"a": "Open", "src": src}, {"a": "ReadAll"}, {"a": "Save"}]})
        cases.append({"case": f"pfB-{f}", "tmp": tmp, "steps": [{"a": "Open", "src": src},
                                                                {"a": "WbInsertRows", "name": first},
                                                                {"a": "WbRemoveRows", "name": first}, {"a": "Save"}]})
    res = vlib.run_cases("lazy", cases, timeout=60, jobs=min(8, len(cases)))

    def fine(evs, n):
        if not (len(evs) == n and all(e.get("a") != "Fatal" and e.get("outcome") == "ok" for e in evs)
                and all(e.get("tw_outcome", "ok") == "ok" for e in evs)
                and evs[-1]["tw"]["outcome"] == "ok" and evs[-1]["lz"]["outcome"] == "ok"):
            return False
        # no step may change what the eager workbook shows (a row insertion far below everything can still
        # touch whole-column references and the like: then this file is not used for such steps)
        orig = [s["v"] for s in evs[0]["orig"]]
        return all([s["v"] for s in e["tobs"]] == orig for e in evs)
    info = {}
    for k, f in enumerate(files):
        a, b = res[2 * k], res[2 * k + 1]
        usable = fine(a, 3)
        if usable:
            ov = lazy_view.view_file(os.path.join(CORPUS, f))
            usable = bool(ov["zip"] and ov["wf"] and not ov["ct"] and not ov["missing"] and not ov["orphans"]
                          and not ov["dup"] and ov["nosheet"] == 0 and all(not s["unres"] for s in ov["sheets"]))
        info[f] = {"usable": usable, "wb_ok": usable and fine(b, 4)}
        for evs in (a, b):
            for e in evs:
                for key in ("file", "twfile"):
                    p = e.get(key)
                    if p and p.startswith(tmp) and os.path.exists(p):
                        os.remove(p)
    return info


def gen_cases(chk, tmp):
    quick = chk.tier == "quick"
    rng = chk.rng
    cases = []
    r = vlib.run_tlc("MC_Lazy", "MC_Lazy_replay.cfg" if quick else "MC_Lazy_replay_d3.cfg", workers=4, coverage=False,
                     timeout=3000)
    if not r.ok or not r.replays:
        raise vlib.ToolError("replay generation failed: " + (r.violation or r.out[-500:]))
    replays = r.replays
    cap = 1800 if quick else 10000
    total_paths = len(replays)
    if len(replays) > cap:
        replays = rng.sample(replays, cap)
    for rp in replays:
        cases.append({"src": gen_src_of_shape(rp[0]["orig"]), "steps": finish_history(rp[1:]), "kind": "tlc-path"})
    n1 = len(cases)
    nsim = 200 if quick else 1500
    rs = vlib.run_tlc("MC_Lazy", "MC_Lazy_sim.cfg", workers=1, coverage=False, simulate=f"num={nsim}",
                      extra=["-depth", "12", "-seed", str(chk.seed)], timeout=3000)
    if rs.rc != 0 or rs.violation or not rs.replays:
        raise vlib.ToolError("TLC simulation of MC_Lazy_sim.cfg failed: " + (rs.violation or rs.out[-500:]))
    sims, seen = [], set()
    for rp in rs.replays:
        k = json.dumps(rp, sort_keys=True)
        if k not in seen and len(sims) < 2 * nsim:
            seen.add(k)
            sims.append(rp)
            cases.append({"src": gen_src_of_shape(rp[0]["orig"]), "steps": finish_history(rp[1:]), "kind": "tlc-sim"})
    n2 = len(cases)
    # corpus files: TLC histories re-addressed by position
    files = corpus_files(chk)
    info = preflight(chk, tmp, files)
    short = [rp[1:] for rp in r.replays if rp[0]["orig"] == r.replays[0][0]["orig"]]
    per_file = 24 if quick else 400
    skipped = []
    for f in files:
        if not info[f]["usable"]:
            skipped.append(f)
            continue
        v = lazy_view.view_file(os.path.join(CORPUS, f))
        names = [s["name"] for s in v["sheets"]]
        allrefs = set(x for s in v["sheets"] for x in s["chartrefs"])
        src = {"kind": "file", "name": f}
        size = os.path.getsize(os.path.join(CORPUS, f))
        # large files cost seconds per load/save: fewer and only short histories on them
        big = size >= 500_000
        quota = per_file if quick or size < 100_000 else 6 if big else per_file // 8
        picked = rng.sample(short, min(quota, len(short)))
        if not big:
            picked += [rp[1:] for rp in rng.sample(sims, min(quota // 3, len(sims)))]
        seen_f = set()
        for h in picked:
            st = adapt(h, names, allrefs, info[f]["wb_ok"])
            k = json.dumps(st, sort_keys=True)
            if k in seen_f:
                continue
            seen_f.add(k)
            cases.append({"src": src, "steps": st, "kind": "corpus"})
        # every single sheet materialised alone, then saved; and every single sheet removed, then saved
        for i in range(1, len(names) + 1):
            cases.append({"src": src, "steps": [{"a": "ReadSheet", "i": i}, {"a": "Save"}], "kind": "corpus"})
            if names[i - 1] not in allrefs and len(names) > 1:
                cases.append({"src": src, "steps": [{"a": "RemoveSheet", "i": i}, {"a": "Save"}], "kind": "corpus"})
    n3 = len(cases)
    ex = [{"src": s, "steps": st, "kind": "finding-exemplar"} for s, st in kf_exemplars()
          if s["kind"] != "file" or os.path.exists(os.path.join(CORPUS, s["name"]))]
    cases = ex + cases
    chk.extra["cases"] = {"finding_exemplars": len(ex), "tlc_paths_on_generated_files": n1,
                          "tlc_paths_enumerated": total_paths,
                          "tlc_simulated_histories_on_generated_files": n2 - n1, "histories_on_corpus_files": n3 - n2,
                          "corpus_files": [f for f in files if info[f]["usable"]],
                          "corpus_files_without_workbook_level_row_insertion": [f for f in files if info[f]["usable"] and not info[f]["wb_ok"]],
                          "corpus_files_skipped_eager_pipeline_fails": skipped}
    for i, c in enumerate(cases):
        c["case"] = i
        c["steps"] = [{"a": "Open", "src": c.pop("src")}] + c["steps"]
    return cases


# ---------------------------------------------------------------------------------------------
# running and judging
# ---------------------------------------------------------------------------------------------
def describe(case, ev, detail):
    if ev is None:
        return detail
    keep = {k: v for k, v in ev.items() if k in ("a", "i", "name", "via", "t", "k", "v", "outcome", "msg", "step")}
    return f"{json.dumps(case['steps'][0]['src'])[:160]} step {json.dumps(keep)}: {detail}"


def judge(chk, cases, tmp, batch=1200):
    """Run and judge the histories in batches (events carry every sheet's view twice and both packages: tens of
    thousands of histories do not fit in memory at once).  Returns the events of the first batch."""
    srcs = Sources(tmp)
    srcs.prepare([c["steps"][0]["src"] for c in cases])
    first_events = None
    tot = [0.0, 0.0, 0.0]
    for b0 in range(0, len(cases), batch):
        events = judge_batch(chk, cases[b0:b0 + batch], srcs, tmp, tot)
        if first_events is None:
            first_events = events
    vlib.log(f"[c11] {len(cases)} histories: driver {tot[0]:.1f}s, package decoding {tot[1]:.1f}s, "
             f"TLC trace validation {tot[2]:.1f}s")
    return first_events


def judge_batch(chk, cases, srcs, tmp, tot):
    dcases = []
    for c in cases:
        d = {"case": c["case"], "tmp": tmp,
             "steps": [{"a": "Open", "src": {"kind": "file", "path": srcs.path(c["steps"][0]["src"])}}] + c["steps"][1:]}
        dcases.append(d)
    t0 = time.time()
    # (a hang of the library is data: the case becomes a Fatal event; the limit is generous because a corpus file of
    # a megabyte is loaded three times and saved and reloaded twice per save step, possibly on a busy machine)
    events = vlib.run_cases("lazy", dcases, timeout=240 if chk.tier == "quick" else 900)
    t1 = time.time()
    # decode every package once (original files, files written by the lazy workbook and by the twin), in parallel
    paths = set()
    for evs in events:
        for e in evs:
            if e.get("a") == "Open" and e.get("file"):
                paths.add(e["file"])
            elif e.get("a") == "Save":
                if e.get("outcome") == "ok":
                    paths.add(e["file"])
                if e.get("tw_outcome") == "ok":
                    paths.add(e["twfile"])
    paths = sorted(paths)
    if len(paths) > 40:
        with ProcessPoolExecutor(max_workers=6) as ex:
            views = dict(zip(paths, ex.map(lazy_view.view_file, paths, chunksize=8)))
    else:
        views = {p: lazy_view.view_file(p) for p in paths}
    for evs in events:
        for e in evs:
            if e.get("a") == "Open":
                e["opkg"] = views.get(e.get("file", ""), lazy_view.empty())
            elif e.get("a") == "Save":
                e["pkg"] = views[e["file"]] if e.get("outcome") == "ok" else lazy_view.empty()
                e["twpkg"] = views[e["twfile"]] if e.get("tw_outcome") == "ok" else lazy_view.empty()
                for key in ("file", "twfile"):
                    p = e.get(key)
                    if p and p.startswith(tmp) and os.path.exists(p):
                        os.remove(p)
    t2 = time.time()
    for evs in events:
        for e in evs:
            if e.get("a") == "Save" and (e.get("tw_outcome") != "ok" or e.get("tw", {}).get("outcome") != "ok"):
                chk.extra["saves_not_judged_eager_twin_failed"] = chk.extra.get("saves_not_judged_eager_twin_failed", 0) + 1
    out = vlib.validate("Trace_Lazy", "Trace_Lazy.cfg", events, chk.open_ids, "c11", chunk_events=1500)
    tot[0] += t1 - t0
    tot[1] += t2 - t1
    tot[2] += time.time() - t2
    first = {}
    for ci, off, detail in out["mismatch"]:
        if ci not in first or off < first[ci][0]:
            first[ci] = (off, detail)
    for ci, (off, detail) in first.items():
        if re.match(r'^<<\s*"gen"', detail):
            raise vlib.ToolError(f"generator produced a step this check cannot judge (case {cases[ci]['case']}: "
                                 f"{json.dumps(cases[ci]['steps'])[:600]}, step {off}): {detail}")
    chk.process_validation(out, cases, events, "lazy", describe)
    return events


def with_tmp(fn):
    vlib.ensure_dirs()
    tmp = os.path.join(vlib.WORK, f"lazy-{os.getpid()}")
    shutil.rmtree(tmp, ignore_errors=True)
    os.makedirs(tmp)
    try:
        return fn(tmp)
    finally:
        shutil.rmtree(tmp, ignore_errors=True)


def refute(chk, cfg, invariants):
    dev = vlib.run_tlc("MC_Lazy", cfg, workers=2, coverage=False)
    if dev.violation is None or not any(i in dev.violation for i in invariants):
        raise vlib.ToolError(f"TLC did not refute {'/'.join(invariants)} for the design of {cfg}: "
                             f"the invariant would be vacuous ({dev.violation})")
    chk.extra.setdefault("deviant_designs_refuted", {})[cfg] = dev.violation


def run(chk):
    acts = ["ReadAny", "ReadAll", "EditAny", "NewSheet", "RemoveAny", "RenameAny", "Save"]
    vlib.tlc_mc("MC_Lazy", "MC_Lazy.cfg", workers=4, check=chk, must_take=acts)
    vlib.tlc_mc("MC_Lazy", "MC_Lazy_open.cfg" if chk.tier == "quick" else "MC_Lazy_open2.cfg", workers=4, check=chk,
                must_take=acts, timeout=7200)
    refute(chk, "MC_Lazy_deviant_rels.cfg", ["ValidFile", "Kept"])
    refute(chk, "MC_Lazy_deviant_rels_remove.cfg", ["ValidFile", "Kept", "Present"])
    refute(chk, "MC_Lazy_deviant_tabs.cfg", ["Present", "Kept"])
    refute(chk, "MC_Lazy_deviant_chart.cfg", ["SaveWorks"])

    def body(tmp):
        cases = gen_cases(chk, tmp)
        events = judge(chk, cases, tmp)
        return cases, events
    cases, events = with_tmp(body)
    chk.evaluations = len(cases)
    chk.nontrivial = {json.dumps(c["steps"], sort_keys=True) for c in cases if len(c["steps"]) > 2}
    chk.rule = ("a case is a source file (generated through the API with comments / hyperlinks / tables / styles per "
                "sheet, optionally with its sheet parts re-ordered against the workbook order, or a multi-sheet corpus "
                "file) plus a history of read_sheet / read_sheet_by_name / get_sheet_mut / get_sheet_by_name_mut / "
                "read_sheet_collection / get_sheet_collection_mut, edits (text, styled text, comment, table), new_sheet, "
                "remove_sheet, set_sheet_name, workbook-level insert/remove rows and saves, run on a lazily opened "
                "workbook and on its eagerly opened twin; cases = the depth-2 (thorough: depth-3) paths of the bounded "
                "model on four file shapes (a seeded sample when TLC enumerates more than the tier's cap, see "
                "coverage.cases), TLC-simulated histories of 9 operations, the same histories re-addressed by position on corpus "
                "files, single-sheet materialise/remove sweeps, finding exemplars; non-trivial = at least one operation "
                "before the final save; distinct = different (source, step list)")
    k = next((i for i, c in enumerate(cases) if c["kind"] == "tlc-path"), 0)
    last = events[k][-1]
    chk.sample({"script": cases[k]["steps"], "last_event": {x: last[x] for x in ("a", "outcome") if x in last},
                "package_seen_by_pydec": {x: last.get("pkg", {}).get(x) for x in ("zip", "wf", "ct", "missing", "orphans")}})
    chk.sample({"script": cases[-1]["steps"]})
    chk.assumptions += [
        "same content = equality of one digest per aspect of a sheet (cells+formulas, styles, hyperlinks, row/column "
        "dimensions, merges, comments, conditional formats, data validations, auto filter, drawing objects, OLE objects, "
        "tables, pivot tables, page setup, sheet properties) computed from the Debug rendering of public getter results; "
        "a sheet that is still raw when saved must read back exactly like the eager load of the original; a "
        "materialised sheet is serialised from the model, so its reference is the file the eagerly opened twin "
        "writes after the same history (losses of the eager save/load cycle belong to C01/C05/C06)",
        "the pairing of cells with external hyperlink targets of a serialised sheet is not compared after a save (the "
        "writer pairs them through two HashMaps, a C06 matter); the set of link cells and the bag of targets are",
        "edits are made in a marker zone (column >= 16000, row >= 1000000) that no corpus sheet uses; each slot is "
        "used once; workbook-level row insertion/removal happens at row 1040000, below every object; every generated "
        "sheet holds one formula per sheet of the file that refers to a cell below that row, so such an edit changes "
        "what every sheet shows and the eager twin (in memory and saved) is the reference for it; on corpus files it is "
        "only used where it leaves the eager workbook's sheets unchanged",
        "histories never remove or rename a sheet that a chart of another sheet takes its data from (the eager "
        "workbook cannot be saved then either); corpus files on which the eager load/save/reload fails are skipped",
        "valid file = pydec/lazy_view.py (python zipfile + ElementTree): zip opens, no duplicate member, xml/rels parts "
        "well-formed, every sheet of workbook.xml resolves, every internal relationship target exists, every "
        "relationship part has its source part, every r:id used in a sheet part is defined by that sheet's own "
        "relationship part, content types cover all parts; plus the library's own eager reader loads the file",
    ]


def replay(chk, path):
    with open(path) as f:
        rp = json.load(f)
    case = rp["script"]
    case.setdefault("case", 0)
    with_tmp(lambda tmp: judge(chk, [case], tmp))
