"""C03 - the reader agrees with an independent decoder on valid xlsx files.

Spec: spec/Decode.tla (ECMA-376 cell decoding over raw encodings; shared-formula children through
Formula!Translate; GenFile = the grammar-based xlsx generator as a state machine), MC_Decode*.cfg (TLC:
DecodeTotal, KindByType, SstIndirection, AnchorFirst, SharedConsistent on every generated file model;
replay / simulation configs print the file models).
Conformance: every file model is written down by pydec/build_xlsx.py (a writer that shares nothing with
the library), and every corpus file of /repo/tests/test_files is taken as it is; each file is loaded by
the real reader (harness/src/bin/decode.rs dumps the loaded workbook through public getters) and its raw
encodings are extracted by pydec/decode_extract.py (on top of the independent OPC/XML reader pydec.xlsx);
this module only *pairs* the two per position.  spec/Trace_Decode.tla decodes the raw encodings and judges.
"""
import glob
import json
import os
import shutil
import time

import vlib
from pydec import build_xlsx, decode_extract

CORPUS = "/repo/tests/test_files"          # the corpus is data; the library under test is vlib.REPO
BIG = {"aaa_large.xlsx", "issue_233.xlsx"}          # thorough tier only
BATCH = 200
MUST_TAKE = ["AddCell", "Finish"]
MAXROW, MAXCOL = 1048576, 16384


# ---------------------------------------------------------------------------------------------
# file models (the structure of MC_Decode!Model)
# ---------------------------------------------------------------------------------------------
OPT_DEFAULT = {"spans": False, "dim": False, "tn": True, "ent": "named", "spall": False, "rowr": True,
               "applynf": "1", "dense": False, "indent": False, "nosp": False}
YEN42 = '_ "Y"* #,##0_ ;_ "Y"* \\-#,##0_ ;_ "Y"* "-"_ ;_ @_ '
XFS = [{"id": 0, "custom": False, "code": ""}, {"id": 14, "custom": False, "code": ""},
       {"id": 164, "custom": True, "code": '0.0" <u>"'}, {"id": 2, "custom": False, "code": ""},
       # formats the file DECLARES under ids below 164 (localised Excel / WPS): the declared code is the cell's code
       {"id": 42, "custom": True, "code": YEN42}, {"id": 44, "custom": True, "code": '"Y"#,##0.00'},
       {"id": 15, "custom": True, "code": "yyyy/mm/dd"}, {"id": 23, "custom": True, "code": "0.0"},
       # undeclared ids outside the ECMA list: nothing is demanded
       {"id": 60, "custom": False, "code": ""}, {"id": 43, "custom": False, "code": ""},
       {"id": 165, "custom": True, "code": "0.000"}]
F0 = {"k": "none", "si": -1, "ht": False, "text": "", "toks": [], "ref": ""}


def cell(r, c, t="", v=None, vb="", vi=-1, isr=None, s=-1, f=None, nr=False):
    """nr: written without r= (only where document order implies the position)"""
    return {"r": r, "c": c, "t": t, "hv": v is not None, "v": v or "", "vb": vb, "vi": vi, "his": isr is not None,
            "isr": isr or {"rich": False, "runs": []}, "s": s, "f": dict(f or F0), "nr": nr}


def plain(x):
    return {"rich": False, "runs": [x]}


def rich(*xs):
    return {"rich": True, "runs": list(xs)}


def model(cells, sst=(), links=(), tcols=(), names=(), sheet="Sheet1", opts=None, xfs=None, extra_sheets=(), rownr=(), erows=()):
    """rownr: rows whose <row> has no r=; erows: rows written as cell-less <row/> elements"""
    sheets = [{"name": sheet, "cells": list(cells), "links": list(links), "tcols": list(tcols), "rownr": list(rownr),
               "erows": list(erows)}] + list(extra_sheets)
    return {"sheets": sheets, "sst": list(sst), "xfs": list(xfs or XFS), "names": list(names),
            "opts": dict(OPT_DEFAULT, **(opts or {}))}


def norm_link(h):
    """a hyperlink of a model in full form (the short form {"ext": False, "val": location} is still accepted)"""
    if "hasloc" in h:
        return dict({"tip": "", "disp": ""}, **h)
    if h["ext"]:
        return dict(h, hasloc=False, loc="", tip=h.get("tip", ""), disp=h.get("disp", ""))
    return dict(h, val="", hasloc=True, loc=h["val"], tip=h.get("tip", ""), disp=h.get("disp", ""))


def link(r, c, target=None, loc=None, tip="", disp=""):
    return {"r": r, "c": c, "ext": target is not None, "val": target or "", "hasloc": loc is not None, "loc": loc or "",
            "tip": tip, "disp": disp}


def link_models():
    """hyperlinks with r:id only, location only, and both (an external URL with a fragment, what Excel writes for
    https://..#frag), with and without tooltip / display, entity-carrying values, on one and on several cells"""
    url = "https://example.com/docs/page.html?x=1&y=2"
    out = [model([cell(1, 1, "str", "go")], links=[link(1, 1, url, "section-2")]),
           model([cell(1, 1, "str", "go")], links=[link(1, 1, url, "section-2", "tip <1> & \"two\"", "shown text")]),
           model([], links=[link(1, 1, url), link(1, 2, None, "Sheet1!A1"), link(2, 1, url, "section-2"),
                            link(2, 2, "http://h.example/a?b=1&c=<2>", "'A&B'!$C$3", "t&t"),
                            link(3, 5, "file:///C:/dir/it's%20here.xlsx", "Sheet2!B2", "", "d"),
                            link(7, 3, None, "'it''s <1>'!$B$2", "place tip"), link(9, 1, "mailto:a@b.example?subject=x&body=y")]),
           model([cell(2, 2, "n", "1", fbits("1"))], links=[link(2, 2, url + "&z=\u00e9", "frag\u00e9", "tip\u00e9")],
                 opts={"ent": "numeric", "indent": True})]
    return out


def builder_model(m):
    """the model as pydec.build_xlsx wants it: xfs as ids + the custom formats, hyperlinks in full form"""
    b = dict(m)
    b["sheets"] = [dict(sh, links=[norm_link(h) for h in sh["links"]]) for sh in m["sheets"]]
    b["numfmts"] = [{"id": x["id"], "code": x["code"]} for x in m["xfs"] if x["custom"]]
    b["xfs"] = [x["id"] for x in m["xfs"]]
    return b


def fbits(x):
    return decode_extract.num_bits(x)


def kf_models():
    """one deterministic file per open finding, so that every KNOWN-FINDING line is printed in every run"""
    from checks import c09
    a1 = c09.ref([], False, c09.geo("cell", 1, 1))
    e6 = c09.ref([], False, c09.geo("cell", 5, 6))
    rows = c09.ref([], False, c09.geo("rows", 0, 2, False, False, 0, 3, False, True))
    toks1 = [a1, c09.tok("op", "+"), e6]
    toks2 = [c09.tok("fn", "SUM"), rows, c09.tok("close", ")")]

    def master(toks, si, ref):
        return {"k": "shared", "si": si, "ht": True, "text": c09.render(toks), "toks": toks, "ref": ref}

    def child(si):
        return {"k": "shared", "si": si, "ht": False, "text": "", "toks": [], "ref": ""}
    out = []
    # KF1 (children derived with the insert shifter) and KF9 (whole rows not translated)
    out.append(model([cell(4, 3, "", "3", fbits("3"), f=master(toks1, 0, "C4:D5")), cell(4, 4, "", "3", fbits("3"), f=child(0)),
                      cell(5, 3, "", "3", fbits("3"), f=child(0)),
                      cell(7, 2, "", "1", fbits("1"), f=master(toks2, 1, "B7:B8")), cell(8, 2, "", "1", fbits("1"), f=child(1))]))
    # KF2: literal CR LF in a shared string, an inline string and a formula result
    out.append(model([cell(1, 1, "s", "0", vi=0), cell(1, 2, "inlineStr", isr=plain("in\r\nline")), cell(2, 1, "str", "a\rb"),
                      cell(2, 2, "s", "1", vi=1)], sst=[plain("line1\r\nline2"), rich("r1\r\n", "r2")], opts={"rawcr": True}))
    # KF3, KF4, KF5, KF6, KF7
    out.append(model([cell(1, 1, "inlineStr", isr=plain("123")), cell(1, 2, "inlineStr", isr=plain("TRUE")),
                      cell(1, 3, "inlineStr", isr=plain("#N/A")), cell(2, 1, "inlineStr", isr=rich("ab ", "cd")),
                      cell(2, 2, "str", "  pad "), cell(3, 1, "str", "a_x000D_b"), cell(3, 2, "s", "0", vi=0),
                      cell(3, 3, "inlineStr", isr=plain("x_x0041_y")),
                      cell(4, 1, "s", "1", vi=1, f=dict(F0, k="normal", ht=True, text='"s"'))],
                     sst=[plain("s_x000A_t"), plain("plain")]))
    # KF8: no r= attributes
    out.append(model([cell(1, 1, "n", "1", fbits("1")), cell(1, 2, "str", "x"), cell(2, 1, "b", "1")],
                     opts={"rowr": False, "dense": True}))
    return out


def pos_models():
    """optional position attributes: cells with and without r= in one row, value cells and self-closing (blank, styled or
    not) cells in every adjacency, rows without r= after rows with r= and after gaps, cell-less rows with and without r="""
    one = fbits("1")

    def val(r, c, nr=False):
        return cell(r, c, "n", "1", one, nr=nr)

    def sty(r, c, nr=False):
        return cell(r, c, "", None, s=1, nr=nr)              # <c r=".." s="1"/>

    def emp(r, c, nr=False):
        return cell(r, c, "", None, nr=nr)                   # <c r=".."/> or <c/>
    out = []
    kinds = [val, sty, emp]
    # every pair and triple of kinds in one row: (with r, without r), (without r, without r), (with r at a gap, without r)
    for a in kinds:
        for b in kinds:
            out.append(model([a(1, 1), b(1, 2, True)]))
            out.append(model([a(1, 1, True), b(1, 2, True)], rownr=[1]))
            out.append(model([a(1, 3), b(1, 4, True), val(1, 5, True)]))
            for c3 in kinds:
                out.append(model([a(2, 2), b(2, 3, True), c3(2, 4, True), val(2, 6), val(2, 7, True)]))
    # r after r-less, r-less after r at a lower column is not allowed; rows: with r, then without, gaps, cell-less rows
    out.append(model([val(1, 1, True), val(1, 2), val(1, 3, True), sty(2, 1, True), val(2, 2, True), val(5, 2), val(6, 1, True),
                      sty(6, 2, True), val(7, 1, True)], rownr=[1, 2, 6, 7]))
    out.append(model([val(3, 1), val(4, 1, True), val(6, 1, True), val(7, 2), val(9, 1, True)], rownr=[4, 6, 9], erows=[5, 8]))
    out.append(model([val(2, 1), val(5, 1, True), val(8, 3)], rownr=[3, 4, 5], erows=[3, 4, 6]))
    out.append(model([val(1, 1, True), sty(1, 2, True), sty(1, 3, True), val(1, 4, True), emp(2, 1, True), emp(2, 2, True),
                      val(2, 3, True)], rownr=[1, 2], opts={"indent": True, "spans": True}))
    out.append(model([cell(1, 1, "inlineStr", isr=plain("a"), nr=True), sty(1, 2, True), cell(1, 3, "s", "0", vi=0, nr=True),
                      emp(1, 4), cell(1, 5, "str", "x", nr=True, f=dict(F0, k="normal", ht=True, text="1+1"))], sst=[plain("p")]))
    return out


def xstring_models():
    """ST_Xstring escapes in shared strings, rich runs, inline strings and <v> of t="str": surrogate pairs as two
    escapes, lone surrogates, hexadecimal digits of either case, _x005F_ protecting an escape, escapes next to each other
    and next to an underscore, incomplete escapes"""
    texts = ["_xD83D__xDE00_", "a_xd83d__xde00_b", "_xD83D_", "x_xDE00_", "_xDE00__xD83D_", "_x000a_", "_x000A__x000d_",
             "_x005F_x0041_", "_x005f_x0041_", "_x0041__x0042_", "_x0041__", "__x0041_", "_x_x0041_", "_x004", "_x00G1_",
             "_x0041", "_x005F__x005F_", "_x005F_xD83D__xDE00_", "\U0001F600_xD83D__xDE00_", "_xD83D_\U0001F600", "_x0000_", "_xFFFF_",
             "_x0009__x0020_"]
    cells, sst = [], []
    for i, t in enumerate(texts):
        sst.append(plain(t))
        sst.append(rich("r" + t, t + "s"))
        cells += [cell(i + 1, 1, "s", str(2 * i), vi=2 * i), cell(i + 1, 2, "s", str(2 * i + 1), vi=2 * i + 1),
                  cell(i + 1, 3, "inlineStr", isr=plain(t)), cell(i + 1, 4, "inlineStr", isr=rich(t, "-", t)),
                  cell(i + 1, 5, "str", t, f=dict(F0, k="normal", ht=True, text='"x"'))]
    # a pair split over two runs stays two lone surrogates (each run is a text of its own)
    sst.append(rich("_xD83D_", "_xDE00_"))
    cells.append(cell(len(texts) + 1, 1, "s", str(len(sst) - 1), vi=len(sst) - 1))
    return [model(cells, sst=sst), model(cells, sst=sst, opts={"indent": True, "ent": "numeric"})]


def finding_models():
    """the open findings C03-KF10 (<si/> not counted) and C03-KF11 (<rPh> of a plain inline string), deterministically"""
    return [model([cell(1, 1, "s", "0", vi=0), cell(1, 2, "s", "1", vi=1), cell(1, 3, "s", "2", vi=2)],
                  sst=[plain("a"), {"rich": False, "runs": []}, plain("c"), plain("d")]),
            model([cell(1, 1, "s", "1", vi=1)], sst=[{"rich": False, "runs": []}, plain("beyond")]),     # the load panics
            model([cell(1, 1, "inlineStr", isr=dict(plain("base"), ph="kana")),
                   cell(1, 2, "inlineStr", isr=dict(rich("ba", "se"), ph="kana")), cell(1, 3, "s", "0", vi=0)],
                  sst=[dict(plain("sbase"), ph="skana"), dict(rich("s", "b"), ph="skana")])]


def inline_run_models():
    """runs of consecutive inline strings: the first <t> carries xml:space="preserve", the following ones do not (plain and
    rich, with and without unprotected outer blanks), in one row and across rows, in compact and in indented markup; then
    a <v> cell and one more inline string"""
    out = []
    for indent in (False, True):
        for first in (plain(" a "), rich("x ", " y")):
            for across in (False, True):
                pos = [(1, 2), (2, 1), (4, 3), (4, 4), (5, 1)] if across else [(1, 1), (1, 2), (1, 3), (1, 4), (1, 5)]
                follow = [plain("b"), rich("c", "d"), dict(plain(" e "), sp=False)]
                cells = [cell(pos[0][0], pos[0][1], "inlineStr", isr=first)]
                cells += [cell(r, c, "inlineStr", isr=it) for (r, c), it in zip(pos[1:4], follow)]
                cells.append(cell(pos[4][0], pos[4][1], "str", "res", f=dict(F0, k="normal", ht=True, text="1+1")))
                cells.append(cell(pos[4][0] + 1, 1, "inlineStr", isr=plain("after")))
                out.append(model(cells, sst=[rich("r1 ", "r2"), plain(" p ")], opts={"indent": indent}))
    return out


UNI = list("abcXYZ019 _-.,;:!?()[]{}#%&<>\"'+=*/\\^~|@$") + ["\u00e9", "\u00df", "\u0416", "\u65e5", "\u672c", "\u3000",
                                                               "\U0001F600", "\n", "\t", "\u00a0", "\u2028"]
SHEETCH = list("abcXYZ019 _-.,;!()#%&<>\"'+=~@$") + ["\u00e9", "\u65e5", "\U0001F600"]


def rtext(rng, n=None, pool=UNI, pad=False):
    n = rng.randint(1, 12) if n is None else n
    s = "".join(rng.choice(pool) for _ in range(n))
    if not pad:
        s = s.strip(" \t\r\n\u00a0\u3000\u2028")
    return s or "x"


XESC = ["_xD83D__xDE00_", "_x000A_", "_x005F_", "_x005f_x0041_", "_x0041_", "_x00e9__x", "_xD83D_", "_x004", "_", "_x", "_xd83c__xdf0d_"]


def xesc(rng, text):
    """now and then a text gets ST_Xstring escapes (and things that look like one) at a random place"""
    if rng.random() < 0.15:
        for _k in range(rng.randint(1, 3)):
            i = rng.randint(0, len(text))
            text = text[:i] + rng.choice(XESC) + text[i:]
    return text


def rnum(rng):
    u = rng.random()
    if u < 0.3:
        return str(rng.randint(-10 ** 6, 10 ** 6))
    if u < 0.6:
        return repr(rng.uniform(-1e6, 1e6))
    if u < 0.8:
        return repr(rng.uniform(-1, 1) * 10.0 ** rng.randint(-300, 300))
    return rng.choice(["0", "-0", "1E+5", "1.5e-7", "4.9406564584124654E-324", "1.7976931348623157E+308", "0.1",
                       "0.30000000000000004", "123456789012345678", ".5", "5."])


def random_models(rng, count):
    """the large scope: cells anywhere in the grid, arbitrary Unicode text, arbitrary finite doubles, many shared
    strings, several sheets, shared-formula blocks with formulas from the C09 expression grammar"""
    from checks import c09
    out = []
    for _ in range(count):
        nsst = rng.choice([0, 1, 3, 20])
        sst = []
        for _i in range(nsst):
            if rng.random() < 0.25:
                sst.append(rich(*[rtext(rng, pad=True) for _j in range(rng.randint(1, 4))]))
            else:
                sst.append(plain(xesc(rng, rtext(rng, pad=rng.random() < 0.3))))
        sheets = []
        for si in range(rng.choice([1, 1, 2, 3])):
            far = rng.random() < 0.3
            taken, cells = set(), []
            for _c in range(rng.randint(0, 40)):
                r = rng.choice([1, 2, 3, MAXROW, MAXROW - 1]) if far else rng.randint(1, 12)
                c = rng.choice([1, 2, 26, 27, 702, 703, MAXCOL]) if far else rng.randint(1, 8)
                if (r, c) in taken:
                    continue
                taken.add((r, c))
                u = rng.random()
                s = rng.choice([-1, -1, 0, 1, 2, 3, 4, 5, 6, 7, 8, 9, 10])
                if u < 0.25:
                    v = rnum(rng)
                    cells.append(cell(r, c, rng.choice(["", "n"]), v, fbits(v), s=s))
                elif u < 0.45 and sst:
                    i = rng.randrange(len(sst))
                    cells.append(cell(r, c, "s", str(i), vi=i, s=s))
                elif u < 0.6:
                    t = rtext(rng)
                    if fbits(t) or t.upper() in ("TRUE", "FALSE") or t.upper().startswith("#"):
                        t = "s" + t
                    cells.append(cell(r, c, "inlineStr", isr=plain(t), s=s))
                elif u < 0.7:
                    cells.append(cell(r, c, "str", xesc(rng, rtext(rng)), s=s, f=dict(F0, k="normal", ht=True, text='"a"&"b"')))
                elif u < 0.78:
                    cells.append(cell(r, c, "b", rng.choice(["0", "1"]), s=s))
                elif u < 0.86:
                    cells.append(cell(r, c, "e", rng.choice(["#NULL!", "#DIV/0!", "#VALUE!", "#REF!", "#NAME?", "#NUM!", "#N/A"]), s=s))
                elif u < 0.93:
                    v = rnum(rng)
                    txt = c09.render(c09.random_formula(rng, depth=rng.randint(1, 4), allow=()))
                    cells.append(cell(r, c, "", v, fbits(v), s=s, f=dict(F0, k="normal", ht=True, text=txt.strip(" ") or "1")))
                else:
                    cells.append(cell(r, c, "", None, s=rng.choice([1, 2, 3, 4, 5, 7])))
            # a run of consecutive inline strings in its own rows: the first one with protected outer blanks
            if not far and rng.random() < 0.5:
                rr, cc = 15, rng.randint(1, 5)
                for k in range(rng.randint(2, 5)):
                    if k == 0:
                        it = plain(" " + rtext(rng) + " ")
                    elif rng.random() < 0.3:
                        it = rich(*[rtext(rng) for _j in range(rng.randint(1, 3))])
                    else:
                        t = rtext(rng)
                        it = plain("s" + t if (fbits(t) or t.upper() in ("TRUE", "FALSE") or t.upper().startswith("#")) else t)
                    cells.append(cell(rr, cc, "inlineStr", isr=it))
                    if rng.random() < 0.4:
                        rr, cc = rr + 1, rng.randint(1, 5)
                    else:
                        cc += 1
            # a shared-formula block in its own rows
            if not far and rng.random() < 0.6:
                for blk in range(rng.randint(1, 2)):
                    ar, ac = 20 + 10 * blk + rng.randint(0, 2), rng.randint(2, 6)
                    toks = None
                    for _try in range(30):
                        cand = c09.random_formula(rng, depth=rng.randint(1, 4), small=(40, 12), allow=("apos",))
                        if any(t["k"] in ("arr", "brk") for t in cand) or cand[-1]["k"] == "ws" or cand[0]["k"] == "ws":
                            continue
                        ok = True
                        for t in cand:
                            if t["k"] == "ref":
                                g = t["g"]
                                # every relative part must stay in the grid for offsets in -1..+3 / 0..+3
                                for key, lock, lim in (("c1", "lc1", MAXCOL), ("c2", "lc2", MAXCOL), ("r1", "lr1", MAXROW), ("r2", "lr2", MAXROW)):
                                    if g[key] and not g[lock] and not (2 <= g[key] <= lim - 3):
                                        ok = False
                            if t["k"] == "name" and decode_extract._geometry("".join(t["cs"]), 0):
                                ok = False
                        if ok:
                            toks = cand
                            break
                    if toks is None:
                        continue
                    offs = rng.sample([(0, 1), (0, 2), (1, 0), (1, -1), (2, 3), (3, 0), (2, -1)], rng.randint(1, 4))
                    sidx = rng.choice([0, 1, 7]) + 10 * blk
                    v = rnum(rng)
                    cells.append(cell(ar, ac, "", v, fbits(v), f={"k": "shared", "si": sidx, "ht": True, "text": c09.render(toks),
                                                                  "toks": toks, "ref": ""}))
                    for dr, dc in offs:
                        cells.append(cell(ar + dr, ac + dc, "", v, fbits(v), f={"k": "shared", "si": sidx, "ht": False, "text": "",
                                                                               "toks": [], "ref": ""}))
            cells.sort(key=lambda x: (x["r"], x["c"]))
            # optional position attributes: left out at random where document order implies the position
            rownr, prow, pcol = [], 0, 0
            if rng.random() < 0.5:
                for x in cells:
                    if x["r"] != prow:
                        if x["r"] == prow + 1 and rng.random() < 0.4:
                            rownr.append(x["r"])
                        pcol = 0
                    if x["c"] == pcol + 1 and rng.random() < 0.5:
                        x["nr"] = True
                    prow, pcol = x["r"], x["c"]
            name = rtext(rng, rng.randint(1, 20), SHEETCH).strip("' ") or "S"
            name = (name[:25] + str(si)).strip("'")
            links = []
            if rng.random() < 0.4:
                links.append({"r": 1, "c": 1, "ext": True, "val": "http://h.example/" + rtext(rng, 6, UNI[:40]) + "?a=1&b=" + rtext(rng, 3, UNI[:30])})
            if rng.random() < 0.4:
                links.append({"r": 2, "c": 2, "ext": False, "val": "'" + name.replace("'", "''") + "'!A1"})
            if rng.random() < 0.4:          # an external target with a fragment: r:id and location on one element
                for k in range(rng.randint(1, 3)):
                    links.append(link(3 + k, 1 + k, "https://h.example/" + rtext(rng, 5, UNI[:40]) + "?x=1&y=" + str(k),
                                      rtext(rng, 6), rtext(rng, 4) if rng.random() < 0.5 else "", rtext(rng, 4) if rng.random() < 0.3 else ""))
            tcols = []
            if rng.random() < 0.3:
                tcols = list(dict.fromkeys(rtext(rng, rng.randint(1, 8)) for _k in range(rng.randint(1, 4))))
            sheets.append({"name": name, "cells": cells, "links": links, "tcols": tcols, "rownr": rownr})
        if len({s["name"].lower() for s in sheets}) != len(sheets):
            continue
        names = []
        if rng.random() < 0.4:
            names = [{"name": rng.choice(["N_1", "caf\u00e9", "\u65e5\u672c", "x.y", "_a\\b"]), "text": "$A$1", "local": rng.choice([-1, 0])}]
        opts = {"spans": rng.random() < 0.5, "dim": rng.random() < 0.5, "tn": rng.random() < 0.5,
                "ent": rng.choice(["named", "numeric"]), "spall": rng.random() < 0.3, "applynf": rng.choice(["1", "absent"]),
                "indent": rng.random() < 0.3, "nosp": rng.random() < 0.1}
        m = {"sheets": sheets, "sst": sst, "xfs": list(XFS), "names": names, "opts": dict(OPT_DEFAULT, **opts)}
        out.append(m)
    return out


# ---------------------------------------------------------------------------------------------
# pairing the extraction with the library's dump (no judgement here)
# ---------------------------------------------------------------------------------------------
RAW_ABSENT = {"r": 0, "c": 0, "nr": False, "rf": False, "rra": 0, "rpre": [], "hx": False, "t": "", "s": -1, "hv": False, "vx": "", "v": "", "vt": "", "vb": "", "vi": -1,
              "his": False, "cr": False, "f": {"k": "none", "si": -1, "ht": False, "text": "", "toks": []}}
OBS_ABSENT = {"k": "blank", "runs": [], "runsn": [], "runst": [], "runstn": [], "b": "", "f": "", "hf": False, "fid": 0,
              "fmt": "General", "h2": False, "fid2": 0, "fmt2": ""}
XMLWS = " \t\r\n"
BUILTIN_CODE_TO_ID = None


def norm_eol(s):
    return s.replace("\r\n", "\n").replace("\r", "\n")


def obs_of(c):
    k = c["k"]
    if k == "rich":
        runs = list(c["runs"])
    elif k in ("text", "bool", "err", "lazy"):
        runs = [c["v"]]
    else:
        runs = []
    # projections of the same runs: line ends normalised (runsn), outer XML white space removed (runst), both (runstn)
    return {"k": k, "runs": runs, "runsn": [norm_eol(x) for x in runs], "runst": [x.strip(XMLWS) for x in runs],
            "runstn": [norm_eol(x).strip(XMLWS) for x in runs], "b": c["b"], "f": c["f"], "hf": c["hf"],
            "fid": c["fid"], "fmt": c["fmt"], "h2": c["h2"], "fid2": c["fid2"], "fmt2": c["fmt2"]}


def raw_of(c):
    raw = {k: c[k] for k in ("r", "c", "nr", "rf", "rra", "rpre", "t", "s", "hv", "vx", "v", "vt", "vb", "vi", "his", "cr", "f", "hx")}
    if c["hx"]:
        raw["xu"], raw["du"] = c["xu"], c["du"]
    if c["his"]:
        raw["isr"] = c["isr"]
    return raw


def pair(case_id, label, ext, ev):
    """-> list of sub-cases (each a list of TLC events) for one file"""
    fe = {"a": "File", "case": case_id, "file": label, "outcome": ev["outcome"], "msg": ev.get("msg", "")[:300],
          "sst": ext["sst"], "xfs": ext["xfs"],
          "sheets": [s["name"] for s in ext["sheets"]], "osheets": [s["name"] for s in ev.get("sheets", [])],
          "names": ext["names"],
          "maxsi": max([c["vi"] for s in ext["sheets"] for c in s["cells"] if c["t"] == "s" and c["hv"]] + [-1])}
    onames = [{"name": x["name"], "local": x["local"]} for x in ev.get("names", [])]
    for s in ev.get("sheets", []):
        onames += [{"name": x["name"], "local": x["local"]} for x in s["names"]]
    fe["onames"] = sorted(onames, key=lambda x: (x["name"], x["local"]))
    if ev["outcome"] != "ok" or len(ext["sheets"]) != len(ev["sheets"]):
        return [[fe]]
    subcases = [[fe]]
    for si, (xs, os_) in enumerate(zip(ext["sheets"], ev["sheets"]), 1):
        lib = {(c["r"], c["c"]): c for c in os_["cells"]}
        links = []
        for h in xs["links"]:
            o = lib.get((h["r"], h["c"]))
            links.append(dict(h, op=bool(o and o["hl"]), ourl=o["url"] if o else "", oloc=bool(o and o["loc"]),
                              otip=o["tip"] if o else ""))
        se = {"a": "Sheet", "case": case_id, "sheet": si, "name": xs["name"], "links": links, "tcols": xs["tcols"],
              "otcols": sorted(t["cols"] for t in os_["tables"])}
        items, seen = [], set()
        for c in xs["cells"]:
            key = (c["r"], c["c"])
            if key in seen:                       # the same position twice: not a valid file, keep the first
                continue
            seen.add(key)
            o = lib.get(key)
            items.append({"r": c["r"], "c": c["c"], "rp": True, "raw": raw_of(c), "op": o is not None,
                          "obs": obs_of(o) if o is not None else OBS_ABSENT})
        extra = [k for k in lib if k not in seen]
        for key in extra:
            o = lib[key]
            items.append({"r": key[0], "c": key[1], "rp": False, "raw": dict(RAW_ABSENT, r=key[0], c=key[1]), "op": True,
                          "obs": obs_of(o)})
        if extra:
            items.sort(key=lambda it: (it["r"], it["c"]))
        batches = [items[i:i + BATCH] for i in range(0, len(items), BATCH)]
        per_case = 150                              # batches per sub-case (big sheets are validated in parallel)
        cur = subcases[-1]
        cur.append(se)
        masters = []
        nopos = {"set": False, "row": 0, "col": 0}
        rown = {(c["r"], c["c"]): c["rown"] for c in xs["cells"]}
        lastrp = None
        for bi, b in enumerate(batches):
            pos0 = nopos
            if bi > 0 and bi % per_case == 0:
                # a new sub-case: the file event again, the sheet event again and the masters met so far
                cur = [fe, dict(se, links=[], tcols=[], otcols=[])]
                subcases.append(cur)
                if masters:       # (re-read only for the shared-formula table: positions as given)
                    cur.append({"a": "Cells", "case": case_id, "sheet": si, "first": False, "last": False, "noref": False,
                                "pos0": nopos, "items": [dict(it, raw=dict(it["raw"], nr=False)) for it in masters]})
                # the position state the sheet has reached: row element and column of the last cell of the file so far
                if lastrp is not None:
                    pos0 = {"set": True, "row": rown[(lastrp["r"], lastrp["c"])], "col": lastrp["c"]}
            cur.append({"a": "Cells", "case": case_id, "sheet": si, "first": bi == 0, "last": bi == len(batches) - 1,
                        "noref": xs["noref"], "pos0": pos0, "items": b})
            masters += [it for it in b if it["rp"] and it["raw"]["f"]["k"] == "shared" and it["raw"]["f"]["ht"]]
            for it in b:
                if it["rp"]:
                    lastrp = it
    return subcases


def self_check(m, ext):
    """the writer and the extraction must agree on the model (a tool error otherwise, never a verdict)"""
    def bad(what):
        raise vlib.ToolError("generated file: extraction differs from the model (%s)" % what)
    if not ext["ok"] or len(ext["sheets"]) != len(m["sheets"]):
        bad("package / sheet count")
    mt = norm_eol if m["opts"].get("rawcr") else (lambda x: x)      # a literally written CR is delivered as LF
    mv = mt                                                         # (<v> text is never trimmed for t="str")
    if m["opts"].get("nosp"):                                       # unprotected outer white space of a <t> is delivered trimmed
        mt = lambda x: mv(x).strip(XMLWS)
    if [x["runsx"] for x in ext["sst"]] != [[mt(r) for r in x["runs"]] or [""] for x in m["sst"]] or \
            [x["rich"] for x in ext["sst"]] != [x["rich"] for x in m["sst"]] or \
            [x["se"] for x in ext["sst"]] != [not x["rich"] and not x["runs"] for x in m["sst"]] or \
            [x["pht"] if x["ph"] else None for x in ext["sst"]] != [x.get("ph") for x in m["sst"]]:
        bad("shared strings")
    if [(x["id"], x["custom"], x["code"]) for x in ext["xfs"]] != [(x["id"], x["custom"], x["code"]) for x in m["xfs"]]:
        bad("cellXfs")
    for ms, xs in zip(m["sheets"], ext["sheets"]):
        if ms["name"] != xs["name"]:
            bad("sheet name %r" % ms["name"])
        if len(ms["cells"]) != len(xs["cells"]):
            bad("cell count")
        for a, b in zip(ms["cells"], xs["cells"]):
            same = (a["r"], a["c"], a["hv"], mv(a["v"]), a["his"], a["s"]) == (b["r"], b["c"], b["hv"], b["vx"], b["his"], b["s"]) \
                and (bool(a.get("nr")) or not m["opts"]["rowr"]) == b["nr"] \
                and (not a["his"] or a["isr"].get("ph") == (b["isr"]["pht"] if b["isr"]["ph"] else None)) \
                and a["t"] in (b["t"], "n" if b["t"] == "" else b["t"]) \
                and (a["f"]["k"], a["f"]["si"] if a["f"]["k"] == "shared" else -1, a["f"]["ht"], a["f"]["text"]) == \
                    (b["f"]["k"], b["f"]["si"] if b["f"]["k"] == "shared" else -1, b["f"]["ht"], b["f"]["text"]) \
                and (not a["his"] or (a["isr"]["rich"], [(mt(r).strip(XMLWS) if a["isr"].get("sp") is False else mt(r)) for r in a["isr"]["runs"]])
                                     == (b["isr"]["rich"], b["isr"]["runsx"])) \
                and (a["t"] not in ("", "n") or a["vb"] == b["vb"]) and (a["t"] != "s" or a["vi"] == b["vi"]) \
                and (not (a["f"]["k"] == "shared" and a["f"]["ht"]) or a["f"]["toks"] == b["f"]["toks"])
            if not same:
                bad("cell %s%d: %r vs %r" % (build_xlsx.colname(a["c"]), a["r"], a, b))
        key = lambda h: (h["r"], h["c"], h["ext"], h["val"], h["hasloc"], h["loc"], h["tip"])
        if [key(norm_link(h)) for h in ms["links"]] != [key(h) for h in xs["links"]]:
            bad("hyperlinks")
        if ([list(ms["tcols"])] if ms["tcols"] else []) != xs["tcols"]:
            bad("table columns")
    if sorted((d["name"], d["local"]) for d in m["names"]) != [(d["name"], d["local"]) for d in ext["names"]]:
        bad("defined names")


# ---------------------------------------------------------------------------------------------
# the run
# ---------------------------------------------------------------------------------------------
def tlc_models(chk):
    quick = chk.tier == "quick"
    models = []
    t0 = time.time()
    cfgs = ["MC_Decode_replay.cfg", "MC_Decode_replay_sst.cfg", "MC_Decode_replay_shared.cfg", "MC_Decode_replay_attrs.cfg",
            "MC_Decode_replay_inl.cfg", "MC_Decode_replay_pos.cfg" if quick else "MC_Decode_replay_pos3.cfg"]
    if not quick:
        cfgs.append("MC_Decode_replay_d2.cfg")
    for cfg in cfgs:
        r = vlib.run_tlc("MC_Decode", cfg, workers=4, coverage=False, timeout=1800)
        if not r.ok or not r.replays:
            raise vlib.ToolError(f"file generation with {cfg} failed: " + (r.violation or r.out[-500:]))
        models += r.replays
    n_enum = len(models)
    nsim = 1500 if quick else 20000
    rs = vlib.run_tlc("MC_Decode", "MC_Decode_sim.cfg", workers=1, coverage=False, simulate=f"num={nsim}",
                      extra=["-depth", "16", "-seed", str(chk.seed)], timeout=3000)
    if rs.rc != 0 or rs.violation or not rs.replays:
        raise vlib.ToolError("TLC simulation of MC_Decode_sim.cfg failed: " + (rs.violation or rs.out[-500:]))
    seen = {json.dumps(m, sort_keys=True) for m in models}
    for m in rs.replays:
        key = json.dumps(m, sort_keys=True)
        if key not in seen:
            seen.add(key)
            models.append(m)
    vlib.log(f"[c03] TLC generated {len(models)} file models ({time.time()-t0:.1f}s)")
    chk.extra["generated_files"] = {"tlc_enumerated": n_enum, "tlc_simulated_distinct": len(models) - n_enum}
    return models


def corpus_paths(chk):
    paths = []
    for p in sorted(glob.glob(os.path.join(CORPUS, "*.xlsx")) + glob.glob(os.path.join(CORPUS, "*.xlsm"))):
        if os.path.getsize(p) == 0:
            continue
        if chk.tier == "quick" and os.path.basename(p) in BIG:
            continue
        paths.append(p)
    return paths


def describe(script, ev, detail):
    what = script.get("path") or ("generated file " + json.dumps(script.get("model", {}).get("opts", {})))
    return f"{what}: {detail}"


def judge(chk, scripts):
    """scripts: [{"kind":"corpus","path":..} | {"kind":"gen","model":..}] -> drives, pairs, validates"""
    tmp = os.path.join(vlib.WORK, f"decode-{os.getpid()}")
    os.makedirs(tmp, exist_ok=True)
    try:
        cases, datas = [], []
        t0 = time.time()
        for i, sc in enumerate(scripts):
            if sc["kind"] == "gen":
                data = build_xlsx.build(builder_model(sc["model"]))
                path = os.path.join(tmp, f"g{i}.xlsx")
                with open(path, "wb") as f:
                    f.write(data)
            else:
                path = sc["path"]
                with open(path, "rb") as f:
                    data = f.read()
            datas.append(data)
            cases.append({"case": i, "path": path})
        vlib.log(f"[c03] {len(scripts)} files ready ({time.time()-t0:.1f}s)")
        t0 = time.time()
        dumps = vlib.run_cases("decode", cases, timeout=120,
                               fatal_event=lambda c, kind: [{"a": "Load", "case": c["case"], "outcome": kind, "msg": kind,
                                                             "sheets": [], "names": []}])
        vlib.log(f"[c03] loaded by the library ({time.time()-t0:.1f}s)")
        t0 = time.time()
        event_lists, owner, skipped, ncells, nshared = [], [], 0, 0, 0
        for i, (sc, data, evs) in enumerate(zip(scripts, datas, dumps)):
            ext = decode_extract.extract(data)
            if sc["kind"] == "gen":
                self_check(sc["model"], ext)
            elif not ext["ok"]:
                raise vlib.ToolError(f"the independent decoder cannot read corpus file {sc['path']}: {ext['error']}")
            label = os.path.basename(sc["path"]) if sc["kind"] == "corpus" else f"gen-{i}"
            for sub in pair(i, label, ext, evs[0]):
                event_lists.append(sub)
                owner.append(i)
            for s in ext["sheets"]:
                ncells += len(s["cells"])
                nshared += sum(1 for c in s["cells"] if c["f"]["k"] == "shared" and not c["f"]["ht"])
                skipped += sum(1 for c in s["cells"] if c["f"]["k"] == "shared" and c["f"]["ht"] and not c["f"]["toks"])
            datas[i] = None
        vlib.log(f"[c03] extracted and paired: {ncells} cells in {len(event_lists)} traces ({time.time()-t0:.1f}s)")
        t0 = time.time()
        out = vlib.validate("Trace_Decode", "Trace_Decode.cfg", event_lists, chk.open_ids, "c03", chunk_events=600,
                            timeout=7200)
        vlib.log(f"[c03] validated by TLC ({time.time()-t0:.1f}s)")
        for ci, off, detail in out["mismatch"]:
            if detail.startswith('<<"gen"') or detail.startswith('<< "gen"'):
                # the extraction and the specification disagree on a position or on an ST_Xstring decoding: the tool is wrong
                raise vlib.ToolError(f"extraction and specification disagree ({describe(scripts[owner[ci]], None, detail)[:600]})")
        sub_scripts = [scripts[o] for o in owner]
        chk.process_validation(out, sub_scripts, event_lists, "decode", describe)
        return {"cells": ncells, "shared_children": nshared, "masters_not_tokenised": skipped, "subcases": len(event_lists)}
    finally:
        shutil.rmtree(tmp, ignore_errors=True)


def run(chk):
    vlib.tlc_mc("MC_Decode", "MC_Decode.cfg", workers=4, must_take=MUST_TAKE + ["AddSstItem"], check=chk)
    vlib.tlc_mc("MC_Decode", "MC_Decode_shared.cfg", workers=4, must_take=MUST_TAKE + ["AddSharedBlock"], check=chk)
    vlib.tlc_mc("MC_Decode", "MC_Decode_opts.cfg", workers=4, must_take=MUST_TAKE + ["SetOpt", "SetXmlSpace", "AddEntityAttr"],
                check=chk)
    vlib.tlc_mc("MC_Decode", "MC_Decode_pos.cfg", workers=4, must_take=["AddCellFree", "Finish"], check=chk)
    quick = chk.tier == "quick"
    if not quick:
        vlib.tlc_mc("MC_Decode", "MC_Decode_thorough.cfg", workers=4, must_take=MUST_TAKE + ["AddSstItem"], timeout=3600, check=chk)
        vlib.tlc_mc("MC_Decode", "MC_Decode_shared_thorough.cfg", workers=4, must_take=MUST_TAKE + ["AddSharedBlock", "SetOpt"],
                    timeout=3600, check=chk)
    models = kf_models() + finding_models() + pos_models() + xstring_models() + inline_run_models() + link_models() + tlc_models(chk) + random_models(chk.rng, 300 if quick else 6000)
    scripts = [{"kind": "gen", "model": m} for m in models] + [{"kind": "corpus", "path": p} for p in corpus_paths(chk)]
    stats = judge(chk, scripts)
    chk.extra["cells_judged"] = stats
    chk.extra["corpus_files"] = [os.path.basename(s["path"]) for s in scripts if s["kind"] == "corpus"]
    chk.evaluations = stats["cells"]
    chk.nontrivial = {json.dumps(s, sort_keys=True) for s in scripts
                      if s["kind"] == "corpus" or any(sh["cells"] or sh["links"] or sh["tcols"] for sh in s["model"]["sheets"])}
    chk.rule = ("a case is one xlsx file: a corpus file of tests/test_files, or a file model written down by the independent "
                "writer (every finished state of the GenFile state machine within the bounds of the replay configs, TLC-simulated "
                "random file models, one fixed file per open finding, seeded random files with cells up to XFD1048576, arbitrary "
                "Unicode text, arbitrary doubles and shared-formula blocks from the C09 expression grammar); evaluations = cells "
                "whose raw encoding was decoded by the specification and compared with the loaded workbook; distinct = distinct "
                "files, non-trivial = at least one cell, hyperlink or table")
    chk.sample({"file": "generated", "model": models[len(models) // 2]})
    chk.assumptions += [
        "decimal text -> double (vb, gb) is computed by Python's float(); ST_Xstring unescaping, XML parsing (expat: entities, "
        "line-end and attribute-value normalisation) and white-space trimming of the extraction happen in pydec, outside TLC",
        "a <t> whose outer white space is not protected by xml:space=\"preserve\" is not judged (XML keeps it, Excel drops it); "
        "applyNumberFormat=\"0\" on a cell xf is not judged; number formats are compared by id for the ids ECMA-376 18.8.30 lists "
        "for all languages and by format code for custom ones; defined names are compared by name and scope, not by formula text",
        "shared-formula children are judged only when the independent tokenizer's token list renders back to the master's text "
        "and no translated reference leaves the grid; formula texts may differ in optional blanks (Formula!Renderings)",
        "the generator's files keep the conventional part names (xl/workbook.xml, xl/sharedStrings.xml, xl/styles.xml)",
    ]


def replay(chk, path):
    with open(path) as f:
        rp = json.load(f)
    judge(chk, [rp["script"]])
