"""C13 - saving to a path is all-or-nothing under I/O failure; a failing caller-supplied writer
gets its error back.

Spec: spec/SaveAtomic.tla.  MC_SaveAtomic*.cfg: TLC checks NeverTorn (every state = every observer
and every crash point), AllOrNothing, ErrorNotPanic, SinkErrorReturned on every chunking of 1..3
chunks around the buffer, every result of every system call (ok / short / error), a kill in every
state; three "dev_" configs switch an observed defect into the model and TLC must find the violation.
Conformance: every save runs in a child process under strace (harness/src/bin/saveatomic.rs); the
faults are real: RLIMIT_FSIZE at a byte offset, strace fault injection at a call index, an
unwritable directory, SIGKILL before a chosen system call (thorough: also at random instants).
pydec/strace_events.py turns the log one-to-one into events, spec/Trace_SaveAtomic.tla replays the
disk with the specification's operators and judges.  Cases = the behaviours TLC enumerates under
each realisable fault plan (MC_SaveAtomic_replay.cfg) + boundary / sweep cases with real sizes.
"""
import json, os, sys
import vlib
from pydec import strace_events
from pydec.pwfile_check import classify

DOMAIN = "saveatomic"
ACTIONS = ["DoCreate", "DoBuild", "DoHand", "DoAllHanded", "DoFlush", "DoSysWrite", "DoRename", "DoRemoveTmp",
           "DoReturn", "DoSinkHand", "DoSinkWrite", "DoCrash"]
DEVIANTS = [("dropflush", ("NeverTorn", "AllOrNothing")), ("unwrap", ("ErrorNotPanic",)), ("inplace", ("NeverTorn",)),
            ("notrunc", ("NeverTorn", "AllOrNothing"))]
UNIT = 2048          # bytes per model unit in MC_SaveAtomic_replay.cfg (BufCap = 4 units = 8192 bytes)
SEQ = ("xlsx", "light", "csv")
PW = ("pw", "pwlight", "setpw")
INCLUDE_SET_PASSWORD = True


# ---------------------------------------------------------------------------------------------
# cases
# ---------------------------------------------------------------------------------------------
def path_case(inst, vol, existed, fault, oldvol=None, origin="gen", stale=0):
    """stale = k > 0: a temporary file <dest>tmp of k junk bytes is already there (an earlier save was killed)"""
    if oldvol is None:
        oldvol = 3000 if inst == "csv" else 40
    return {"kind": "path", "inst": inst, "vol": vol, "oldvol": oldvol, "existed": existed, "fault": fault, "stale": stale,
            "origin": origin}


def sink_case(inst, vol, accepts, after, origin="gen"):
    return {"kind": "sink", "inst": inst, "vol": vol, "accepts": accepts, "after": after, "origin": origin}


def inject(*exprs):
    return {"t": "inject", "exprs": list(exprs)}


def key_of(c):
    return json.dumps({k: v for k, v in c.items() if k not in ("case", "origin", "model")}, sort_keys=True)


def run_driver(cases, jobs=8):
    raws = vlib.run_cases(DOMAIN, cases, timeout=120, jobs=min(jobs, max(1, len(cases))))
    out = []
    for c, evs in zip(cases, raws):
        if evs and evs[0].get("a") == "Fatal":
            raise vlib.ToolError(f"driver failed on case {c}: {evs[0]}")
        out.append(evs)
    return out


def expand(case, evs):
    """driver output of one case -> (event list for TLC, info)"""
    if case["kind"] == "sink":
        return evs, None
    raw = evs[0]
    fin = raw["final"]
    if fin["dest"] == "other" and fin.get("desthex") and raw["inst"] in PW:
        cl, _why = classify(bytes.fromhex(fin["desthex"]), raw["password"], raw["pkglen"], raw["pkgfnv"])
        fin["dest"] = cl
    try:
        events, info = strace_events.case_events(raw)
    except strace_events.StraceError as e:
        raise vlib.ToolError(str(e))
    info["size"], info["reflen"], info["status"] = raw["size"], raw["reflen"], raw["status"]
    return events, info


class Ref:
    """fault-free traced runs: sizes, write counts and the position of every system call (kill points)"""

    def __init__(self):
        self.info = {}
        self.n = 0

    def need(self, configs):
        todo = [c for c in configs if c not in self.info]
        cases = [dict(path_case(i, v, e, {"t": "none"}, origin="reference"), case=f"ref{self.n + n}")
                 for n, (i, v, e) in enumerate(todo)]
        self.n += len(todo)
        if not cases:
            return [], []
        outs = run_driver(cases)
        evl = []
        for cfgk, c, o in zip(todo, cases, outs):
            events, info = expand(c, o)
            if info["status"] != "ok":
                raise vlib.ToolError(f"fault-free save of {cfgk} ended with {info['status']}")
            self.info[cfgk] = info
            evl.append(events)
        return cases, evl

    def writes(self, cfgk):
        return [c for c in self.info[cfgk]["calls"] if c.get("call") == "write"]

    def kill_before(self, cfgk, which):
        """strace expression that kills the child when it enters a given call of the fault-free run:
        which = ("call", k): the k-th projected call (0-based); ("end",): after the save, before it returns"""
        inf = self.info[cfgk]
        if which[0] == "end":
            m = inf["markers"]["end"]
            return f"{m['name']}:signal=KILL:when={m['index']}"
        c = inf["calls"][which[1]]
        return f"{c['name']}:signal=KILL:when={c['index']}"


def vols(inst, small):
    if inst == "csv":
        return None
    if inst == "xlsx":
        return 0 if small else 300
    if inst == "light":
        return 0           # 14 KiB: there is no light file below the buffer size
    return 0 if small else 300


def map_replay(rp, ref, rng):
    """one behaviour of MC_SaveAtomic_replay.cfg -> concrete cases (or [] if the plan cannot be produced for real)"""
    init = rp[0]
    cfg, plan = init["cfg"], init["plan"]
    size = cfg["size"]
    model = {"cfg": cfg, "plan": plan, "predicted": rp[-1]}
    if cfg["mode"] == "sink":
        steps = [s for s in rp[1:] if s["a"] == "SinkWrite"]
        out = []
        for inst in SEQ:
            vol = size * UNIT if inst == "csv" else 0
            out.append(("sink", inst, vol, steps, rp[-1]["ret"], model))
        return out
    small = size < 4
    t = plan["t"]
    if cfg["buffered"]:
        insts = ["csv", rng.choice(["xlsx"] if small else ["xlsx", "light"])]
    else:
        insts = [rng.choice(["pw", "pw", "pwlight"])]
    out = []
    for inst in insts:
        vol = size * UNIT if inst == "csv" else vols(inst, small)
        cfgk = (inst, vol, cfg["existed"])
        out.append(("path", cfgk, plan, size, model))
    return out


def realise(item, ref):
    """second stage (needs the reference runs): the concrete fault of a mapped replay"""
    _, cfgk, plan, msize, model = item
    inst, vol, existed = cfgk
    inf = ref.info[cfgk]
    t = plan["t"]
    nwrites = len(ref.writes(cfgk))
    if t == "none":
        f = {"t": "none"}
    elif t == "limit":
        total = inf["reflen"]
        f = {"t": "fsize", "k": plan["k"] * UNIT if inst == "csv" else plan["k"] * total // msize}
    elif t == "failwrite":
        i = plan["i"] if inst in SEQ else (1 if plan["i"] == 1 else nwrites)
        ex = [f"write:error=ENOSPC:when={i}{'+' if plan['sticky'] else ''}"]
        if plan["unlink"]:
            ex.append("unlink:error=EACCES:when=1")
        f = inject(*ex)
    elif t == "failcall":
        if plan["call"] == "create":
            f = {"t": "rodir"}
        elif plan["call"] == "rename":
            f = inject("rename:error=EIO:when=1")
        else:
            return None                      # the payload cannot be made to fail to build
    elif t == "crash":
        calls = [k for k, c in enumerate(inf["calls"]) if c.get("call") in ("open", "write", "rename", "unlink")]
        if inst in PW:                       # create, (all the writes), rename
            opens = [k for k in calls if inf["calls"][k]["call"] == "open"]
            wr = [k for k in calls if inf["calls"][k]["call"] == "write"]
            ren = [k for k in calls if inf["calls"][k]["call"] == "rename"]
            calls = opens[:1] + wr[:1] + ren[:1]
        j = plan["j"]
        f = inject(ref.kill_before(cfgk, ("call", calls[j]) if j < len(calls) else ("end",)))
    else:
        return None
    # a left-over temporary file shorter than / as long as / longer than the file a fault-free save writes
    ms, stale = model["cfg"].get("stale", 0), 0
    if ms > 0:
        total = inf["reflen"]
        stale = max(1, total - 1) if ms < msize else total if ms == msize else total + (1 if model["cfg"]["existed"] else 5000)
    c = path_case(inst, vol, existed, f, origin="tlc", stale=stale)
    c["model"] = model
    return c


def sink_from_model(item, sizes):
    _, inst, vol, steps, ret, model = item
    size = sizes[(inst, vol)]
    msize = model["cfg"]["size"]
    unit = -(-size // msize)
    accepts, after, prev = [], "ok", 0
    for s in steps:
        if s["got"] > prev:
            accepts.append((s["got"] - prev) * unit)
            prev = s["got"]
        else:                                # the writer took nothing: it failed (err) or returned Ok(0)
            after = "err" if len(accepts) % 2 == 0 else "zero"
            break
    c = sink_case(inst, vol, accepts, after, origin="tlc")
    c["model"] = model
    return c


def boundary_cases(chk, ref, quick):
    """impl -> spec direction: real sizes around the 8 KiB buffer, every boundary offset, every call index"""
    rng = chk.rng
    cases, cfgs = [], []
    csv_sizes = [100, 4096, 8191, 8192, 8193, 16384, 16385] if quick else \
        [8, 100, 1000, 4095, 4096, 4097, 8190, 8191, 8192, 8193, 8194, 12288, 16383, 16384, 16385, 24577, 65536, 200000]
    seq_cfgs = [("csv", v) for v in csv_sizes] + [("xlsx", 0), ("xlsx", 100), ("xlsx", 300), ("light", 0)]
    if not quick:
        seq_cfgs += [("xlsx", 2000), ("light", 400), ("xlsx", 130), ("xlsx", 150)]
    pw_cfgs = [("pw", 0), ("pw", 300), ("pwlight", 0)] + ([] if quick else [("pw", 2000), ("pwlight", 300)])
    for inst, vol in seq_cfgs + pw_cfgs:
        for ex in (True, False):
            cfgs.append((inst, vol, ex))
    if INCLUDE_SET_PASSWORD:
        cfgs += [("setpw", 0, True), ("setpw", 0, False)]
    refc, refe = ref.need(cfgs)

    def offsets(total):
        base = {0, 1, 4095, 4096, 4097, 8191, 8192, 8193, total - 1, total, total + 1, total // 2}
        n = 4 if quick else 40
        base |= {rng.randrange(0, total + 1) for _ in range(n)}
        if not quick:
            base |= set(range(0, total, max(1, total // 64)))
            for c in (4096, 8192, total):                      # every byte offset next to the boundaries
                base |= set(range(c - 8, c + 9))
            if total <= 1000:
                base |= set(range(0, total + 2))               # every byte offset of a small file
        return sorted(x for x in base if 0 <= x <= total + 1)

    for inst, vol in seq_cfgs:
        for ex in (True, False):
            inf = ref.info[(inst, vol, ex)]
            total = inf["size"]
            ks = offsets(total)
            if quick and not ex:
                ks = [k for k in ks if k in (0, 1, 8192, total - 1, total)]
            for k in ks:
                cases.append(path_case(inst, vol, ex, {"t": "fsize", "k": k}))
            nw = len(ref.writes((inst, vol, ex)))
            for i in range(1, nw + 2):
                for err in (("ENOSPC", "EIO") if ex else ("ENOSPC",)):
                    cases.append(path_case(inst, vol, ex, inject(f"write:error={err}:when={i}")))
                    cases.append(path_case(inst, vol, ex, inject(f"write:error={err}:when={i}+")))
            # a short write (size limit) followed by errors that go away / an unlink that fails too
            cases.append(path_case(inst, vol, ex, inject("write:error=EINTR:when=1")))
            cases.append(path_case(inst, vol, ex, inject("write:error=ENOSPC:when=1+", "unlink:error=EACCES:when=1")))
            cases.append(path_case(inst, vol, ex, inject("rename:error=EIO:when=1")))
            cases.append(path_case(inst, vol, ex, inject("rename:error=EXDEV:when=1", "unlink:error=EIO:when=1")))
            cases.append(path_case(inst, vol, ex, inject("close:error=EIO:when=" + str(close_index(inf)))))
            cases.append(path_case(inst, vol, ex, {"t": "rodir"}))
            cases.append(path_case(inst, vol, ex, {"t": "tmpisdir"}))
            # kill before every system call of the save and after the last one
            for k in range(len(inf["calls"])):
                cases.append(path_case(inst, vol, ex, inject(ref.kill_before((inst, vol, ex), ("call", k)))))
            cases.append(path_case(inst, vol, ex, inject(ref.kill_before((inst, vol, ex), ("end",)))))
    for inst, vol in pw_cfgs:
        for ex in ((True, False) if not quick else (True,)):
            cfgk = (inst, vol, ex)
            inf = ref.info[cfgk]
            wr = ref.writes(cfgk)
            nw = len(wr)
            # the system calls are write calls of 1..4096 bytes; inf["calls"] lists each with its position
            idx = {1, 2, nw // 4, nw // 2, (3 * nw) // 4, nw - 60, nw - 1, nw}
            idx |= {rng.randrange(1, nw + 1) for _ in range(3 if quick else 40)}
            for i in sorted(x for x in idx if 1 <= x <= nw):
                cases.append(path_case(inst, vol, ex, inject(f"write:error=ENOSPC:when={i}+")))
                if i in (nw // 2, nw) or not quick:
                    cases.append(path_case(inst, vol, ex, inject(f"write:error=EIO:when={i}")))
            total = inf["reflen"]
            for k in sorted({0, 1, 511, 512, 4096, total // 2, total - 4096, total - 1, total} |
                            {rng.randrange(0, total) for _ in range(2 if quick else 30)}):
                cases.append(path_case(inst, vol, ex, {"t": "fsize", "k": k}))
            cases.append(path_case(inst, vol, ex, {"t": "rodir"}))
            cases.append(path_case(inst, vol, ex, {"t": "tmpisdir"}))
            cases.append(path_case(inst, vol, ex, inject("rename:error=EIO:when=1")))
            ncalls = len(inf["calls"])
            ks = {0, 1, ncalls // 2, ncalls - 2, ncalls - 1} | {rng.randrange(0, ncalls) for _ in range(2 if quick else 30)}
            for k in sorted(x for x in ks if 0 <= x < ncalls):
                cases.append(path_case(inst, vol, ex, inject(ref.kill_before(cfgk, ("call", k)))))
            cases.append(path_case(inst, vol, ex, inject(ref.kill_before(cfgk, ("end",)))))
    # a left-over temporary file (an earlier save to the same path was killed), shorter / as long / longer than
    # the new file, for every entry point: fault-free saves and one fault of each kind
    stale_cfgs = [("csv", 100), ("csv", 8192), ("csv", 16385), ("xlsx", 0), ("xlsx", 300), ("light", 0), ("pw", 0), ("pwlight", 0)]
    if not quick:
        stale_cfgs += [("csv", 4096), ("csv", 65536), ("xlsx", 100), ("xlsx", 2000), ("light", 400), ("pw", 300), ("pw", 2000)]
    if INCLUDE_SET_PASSWORD:
        stale_cfgs.append(("setpw", 0))
    for inst, vol in stale_cfgs:
        cfgk = (inst, vol, True)
        inf = ref.info[cfgk]
        total = inf["reflen"]
        lens = {1, total // 2, total - 1, total, total + 1, total + 4096, 3 * total}
        if not quick:
            lens |= {total - 4096, total + 8192, total + 8193, 10 * total} | {rng.randrange(1, 4 * total) for _ in range(12)}
        for k in sorted(x for x in lens if x > 0):
            for ex in ((True, False) if (k > total or not quick) else (True,)):
                cases.append(path_case(inst, vol, ex, {"t": "none"}, stale=k))
        big = total + 3000
        nw = len(ref.writes(cfgk))
        ncalls = len(inf["calls"])
        cases.append(path_case(inst, vol, True, {"t": "fsize", "k": total // 2}, stale=big))
        cases.append(path_case(inst, vol, True, {"t": "fsize", "k": total - 1}, stale=big))
        cases.append(path_case(inst, vol, True, inject(f"write:error=ENOSPC:when={nw}+"), stale=big))
        cases.append(path_case(inst, vol, True, inject("rename:error=EIO:when=1"), stale=big))
        cases.append(path_case(inst, vol, True, {"t": "rodir"}, stale=big))
        cases.append(path_case(inst, vol, True, inject(ref.kill_before(cfgk, ("call", 1))), stale=big))
        cases.append(path_case(inst, vol, True, inject(ref.kill_before(cfgk, ("call", ncalls - 1))), stale=big))
        cases.append(path_case(inst, vol, False, inject(ref.kill_before(cfgk, ("end",))), stale=big))
    if INCLUDE_SET_PASSWORD:
        for ex in (True, False):
            inf = ref.info[("setpw", 0, ex)]
            nw = len(ref.writes(("setpw", 0, ex)))
            cases.append(path_case("setpw", 0, ex, {"t": "fsize", "k": inf["reflen"] // 2}))
            cases.append(path_case("setpw", 0, ex, inject(f"write:error=ENOSPC:when={nw}")))
            cases.append(path_case("setpw", 0, ex, inject(ref.kill_before(("setpw", 0, ex), ("call", len(inf["calls"]) // 2)))))
    # failing caller-supplied writers: error / Ok(0) at every call index, with and without partial writes
    for inst, vol in [("xlsx", 0), ("xlsx", 300), ("light", 0), ("csv", 100), ("csv", 8192), ("csv", 20000)]:
        for chunk in (-1, 1000, 4096, 1):
            if chunk == 1 and vol not in (100,):
                continue
            for after in ("err", "zero", "ok", "intr"):
                for ncalls in range(0, 4):
                    cases.append(sink_case(inst, vol, [chunk] * ncalls, after))
    # the open findings are exercised in every run (some of the above already do)
    cases.append(path_case("xlsx", 0, True, {"t": "fsize", "k": 1000}, origin="finding"))          # C13-KF1
    cases.append(path_case("csv", 9000, True, {"t": "fsize", "k": 1000}, origin="finding"))        # C13-KF2
    cases.append(sink_case("csv", 100, [], "err", origin="finding"))                               # C13-KF2
    cases.append(path_case("pw", 0, True, {"t": "rodir"}, origin="finding"))                       # C13-KF3
    nw = len(ref.writes(("pw", 0, True)))
    cases.append(path_case("pw", 0, True, inject(f"write:error=ENOSPC:when={nw}+"), origin="finding"))       # C13-KF4
    if INCLUDE_SET_PASSWORD:
        cases.append(path_case("setpw", 0, True, {"t": "none"}, origin="finding"))                 # C13-KF5
    return refc, refe, cases


def close_index(inf):
    for c in inf["calls"]:
        if c.get("call") == "close":
            return c["index"]
    return 1


def kill_time_cases(chk, n):
    """thorough: SIGKILL at random instants of an untraced child (bigger files, so that a save takes a while).
    A first untraced run of every configuration without a kill gives the duration T of the child; the kill
    instants are drawn from [0.4 T, 1.05 T], where the save happens (the workbook is built before)."""
    rng = chk.rng
    configs = [("xlsx", 20000), ("light", 6000), ("csv", 4000000), ("pw", 6000), ("pwlight", 2000), ("xlsx", 0), ("csv", 5000)]
    calib = [dict(path_case(i, v, True, {"t": "killtime", "us": 10 ** 9}), case=f"cal{k}") for k, (i, v) in enumerate(configs)]
    dur = {}
    for c, o in zip(calib, run_driver(calib)):
        dur[(c["inst"], c["vol"])] = max(2000, o[0]["elapsed_us"])
    cases = list(calib)
    for k in range(n):
        inst, vol = rng.choice(configs)
        t = dur[(inst, vol)]
        cases.append(path_case(inst, vol, rng.random() < 0.8, {"t": "killtime", "us": rng.randrange(int(0.4 * t), int(1.05 * t))}))
    return cases


# ---------------------------------------------------------------------------------------------
# judging
# ---------------------------------------------------------------------------------------------
def describe(case, ev, detail):
    c = {k: v for k, v in case.items() if k not in ("model", "case")}
    return f"case {json.dumps(c)}: event {json.dumps(ev)[:200]}: {detail}"


def judge(chk, cases, pre=None):
    """run the cases on the real library, validate the traces; pre = (cases, events) already recorded"""
    outs = run_driver(cases)
    events, infos = [], []
    for c, o in zip(cases, outs):
        evs, info = expand(c, o)
        events.append(evs)
        infos.append(info)
    allc, alle = list(cases), list(events)
    if pre:
        allc, alle = pre[0] + allc, pre[1] + alle
    out = vlib.validate("Trace_SaveAtomic", "Trace_SaveAtomic.cfg", alle, chk.open_ids, "c13", chunk_events=2500, jobs=6)
    first = {}
    for ci, off, detail in out["mismatch"]:
        if ci not in first or off < first[ci][0]:
            first[ci] = (off, detail)
    for ci, (off, detail) in first.items():
        if detail.startswith('<<"gen"'):
            raise vlib.ToolError(f"malformed trace (case {allc[ci]}, event {off}): {detail}")
    chk.process_validation(out, allc, alle, DOMAIN, describe)
    return allc, alle, infos


def nontrivial_key(case, evs):
    """a case is non-trivial if a fault really happened in it: a failed or short system call on a file of the
    directory, a kill, a failing writer - or if a left-over temporary file was in the way"""
    hit = any((e.get("a") == "Sys" and e.get("res") in ("err", "short")) or e.get("a") == "Crash" or
              (e.get("a") == "Begin" and e.get("tmp0") == "stale") or
              (e.get("a") == "SinkWrite" and e.get("res") in ("err", "zero", "intr")) or
              (e.get("a") == "SinkWrite" and e.get("m", 0) < e.get("n", 0)) for e in evs)
    return key_of(case) if hit else None


def run(chk):
    quick = chk.tier == "quick"
    # 1. the specification: the intended design has the property, the observed defects do not
    vlib.tlc_mc("MC_SaveAtomic", "MC_SaveAtomic.cfg", workers=4, must_take=ACTIONS, check=chk)
    if not quick:
        vlib.tlc_mc("MC_SaveAtomic", "MC_SaveAtomic_thorough.cfg", workers=4, must_take=ACTIONS, check=chk, timeout=7200)
    if not os.environ.get("VERIF_DEBUG_SKIP_MC"):
        dev = {}
        for name, invs in DEVIANTS:
            r = vlib.run_tlc("MC_SaveAtomic", f"MC_SaveAtomic_dev_{name}.cfg", workers=2, coverage=False)
            if not (r.violation and any(f"Invariant {i} is violated" in r.violation for i in invs)):
                raise vlib.ToolError(f"the deviant design '{name}' was expected to violate {invs}: {r.violation or r.out[-400:]}")
            dev[name] = r.violation
            vlib.log(f"[tlc] deviant design '{name}': {r.violation.strip()} (expected)")
        chk.extra["deviant_designs"] = dev
    # 2. the behaviours TLC enumerates under every realisable fault plan
    r = vlib.run_tlc("MC_SaveAtomic", "MC_SaveAtomic_replay.cfg", workers=4, coverage=False)
    if not r.ok or not r.replays:
        raise vlib.ToolError("replay generation failed: " + (r.violation or r.out[-500:]))
    uniq = {}
    for rp in r.replays:
        uniq.setdefault(json.dumps(rp, sort_keys=True), rp)
    replays = [uniq[k] for k in sorted(uniq)]
    if quick:                                # every plan on every size below, at and just above the buffer; fewer larger ones
        replays = [rp for rp in replays if rp[0]["cfg"]["size"] <= 5 or rp[0]["plan"]["t"] in ("limit", "none")]
    ref = Ref()
    mapped = []
    for rp in replays:
        mapped += map_replay(rp, ref, chk.rng)
    refc0, refe0 = ref.need(sorted({m[1] for m in mapped if m[0] == "path"}))
    sink_sizes = {}
    sk = sorted({(m[1], m[2]) for m in mapped if m[0] == "sink"})
    for (inst, vol), evs in zip(sk, run_driver([{"case": f"s{n}", "kind": "size", "inst": i, "vol": v} for n, (i, v) in enumerate(sk)])):
        sink_sizes[(inst, vol)] = evs[0]["size"]
    cases, skipped = [], 0
    for m in mapped:
        c = realise(m, ref) if m[0] == "path" else sink_from_model(m, sink_sizes)
        if c is None:
            skipped += 1
        else:
            cases.append(c)
    ntlc = len(cases)
    # 3. real sizes, boundary offsets, every call index, kill points
    refc, refe, more = boundary_cases(chk, ref, quick)
    cases += more
    if not quick:
        cases += kill_time_cases(chk, 1200)
    seen, ucases = set(), []
    for c in cases:
        k = key_of(c)
        if k not in seen:
            seen.add(k)
            ucases.append(c)
    for i, c in enumerate(ucases):
        c["case"] = i
    allc, alle, _ = judge(chk, ucases, pre=(refc0 + refc, refe0 + refe))
    chk.evaluations = len(allc)
    tab = {}
    for c, e in zip(allc, alle):
        end = [x for x in e if x.get("a") in ("Return", "Crash")]
        how = (end[0].get("outcome", "killed") if end else "?")
        fin = [x for x in e if x.get("a") == "Final"]
        k = f"{c['kind']}/{c['inst']}/{c['fault']['t'] if c['kind'] == 'path' else c['after']}: {how}" + \
            (f", destination {fin[0]['dest']}" if fin else "")
        tab[k] = tab.get(k, 0) + 1
    chk.extra["observed_endings"] = dict(sorted(tab.items()))
    # information only: how often the real library ended as the intended design does in TLC's behaviour
    agree = differ = 0
    for c, e in zip(allc, alle):
        if c.get("origin") != "tlc" or c["kind"] != "path":
            continue
        pred = c["model"]["predicted"]
        size = c["model"]["cfg"]["size"]
        pd = pred["dest"]
        want = (pred["ret"] if pred["a"] == "Return" else "killed",
                pd["k"] if pd["k"] != "new" else ("new" if pd["n"] == size else "partial"))
        end = [x for x in e if x.get("a") in ("Return", "Crash")][0]
        fin = [x for x in e if x.get("a") == "Final"][0]
        got = (end.get("outcome", "killed"), fin["dest"] if fin["dest"] in ("absent", "old", "new") else "partial")
        if want == got:
            agree += 1
        else:
            differ += 1
    chk.extra["tlc_behaviours_vs_library"] = {"same_ending_as_intended_design": agree, "different_ending": differ,
                                              "note": "different endings are judged by the trace specification: each is a "
                                                      "known finding or a VIOLATION"}
    chk.nontrivial = {k for k in (nontrivial_key(c, e) for c, e in zip(allc, alle)) if k}
    chk.extra["cases"] = {"tlc_behaviours": len(replays), "cases_from_tlc_behaviours": ntlc,
                          "tlc_behaviours_not_realisable": skipped, "fault_free_reference_runs": len(refc0) + len(refc),
                          "generated_cases": len(ucases) - ntlc,
                          "child_processes_under_strace": sum(1 for c in allc if c["kind"] == "path"),
                          "failing_writer_cases": sum(1 for c in allc if c["kind"] == "sink")}
    chk.rule = ("a case is one save of the real library: instance (xlsx, light xlsx, csv, password, password light, "
                "set_password / writer variants), workbook size, destination present or not, and one real fault (RLIMIT_FSIZE "
                "at byte k, an error injected at the i-th write/rename/unlink/close, unwritable directory, directory in the "
                "way, a left-over temporary file of k junk bytes shorter / as long / longer than the new file, SIGKILL "
                "before the j-th system call or at a random instant; for writers: bytes accepted per call and "
                "then error / Ok(0) / interruption); cases = TLC's behaviours under every realisable fault plan mapped to "
                "real sizes + boundary offsets around 4096/8192/file size + every call index; distinct = different "
                "(instance, size, destination, left-over temporary file, fault); non-trivial = a system call really failed or was short, the process "
                "was killed, a left-over temporary file was there, or the writer failed / took fewer bytes than offered (measured from the recorded events)")
    for c, e in zip(allc, alle):
        if c.get("origin") == "finding" and len(chk.samples) < 3:
            chk.sample({"case": {k: v for k, v in c.items() if k != "model"}, "events": e})
    for c, e in zip(allc, alle):
        if c.get("origin") == "tlc" and c["kind"] == "path" and c["fault"]["t"] == "inject" and len(chk.samples) < 5:
            chk.sample({"tlc_behaviour": c["model"], "case": {k: v for k, v in c.items() if k != "model"}, "events": e})
    chk.assumptions += [
        "crash model: process kill, not power loss (no fsync is demanded); the state of the directory after a kill is "
        "the state after the last completed system call (strace delivers the injected SIGKILL on entering the call)",
        "trusted: strace's log and fault injection, the kernel's RLIMIT_FSIZE, pydec/strace_events.py (projection of the "
        "log, one event per call), the byte comparison of the destination with the old file and the fault-free "
        "reference (password instances: pydec/pwfile_check.py + pydec/cfb.py: HMAC verified, package decrypted)",
        "the bytes of a fault-free save are not judged here (C01/C02/C14 do); 'complete new file' means: every byte a "
        "fault-free save writes has been written (checked against the real bytes at the end of every case)",
        "short writes that are followed by success cannot be produced with these tools on a regular file; they are "
        "covered by the model (every result of every call) and, for caller-supplied writers, by the real runs"]


def replay(chk, path):
    with open(path) as f:
        rp = json.load(f)
    c = rp["script"]
    judge(chk, [c])
    chk.evaluations = 1
