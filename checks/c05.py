"""C05 - styles and dimensions survive save/reload; interning never merges styles.

Spec: spec/Styles.tla (style tables, Intern / Reconstruct, column groups, save and load as operators).
MC_Styles.cfg: TLC checks Faithful, DimsKept, FaithfulFile, NoMerge, NoGrowth, WellFormed for every workbook
of <= 2 carriers over a palette of one-attribute variants, partial styles and key-adjacent fonts, through
save, reload, save, reload; MC_Styles_deviant.cfg (font key = fields written without separators) must be
*refuted* by TLC, which shows NoMerge is not vacuous.  Every behaviour of the replay configuration, TLC-
simulated histories over random styles, and seeded random workbooks with up to several hundred distinct
styles (near-duplicates, key-adjacent fonts, adjacent equal columns, grid limits) are run on the real
library by harness/src/bin/styles.rs; pydec/styles_view.py projects the table sizes of every file written;
Trace_Styles.tla judges every step.
"""
import copy, json
import vlib
from pydec import styles_view

MAXROW, MAXCOL = 1048576, 16384
NOC = {"argb": "", "theme": 0, "tint": "0"}


def col(argb="", theme=0, tint="0"):
    return {"argb": argb, "theme": theme, "tint": tint}


# ---- the attribute product (values are canonical: numbers as Rust's Display prints them) --------------
NAMES = ["Arial", "Arial1", "Arial11", "Calibri", "Calibri1", "Verdana", "Times New Roman", "Courier New",
         "ＭＳ Ｐゴシック", "Univers 45", "Univers 4"]
SPECIAL_NAMES = ["Marks & Co", "A<B>", "O'Hara \"Display\""]
SIZES = ["1", "11", "111", "5", "55", "8", "9", "10", "10.5", "12", "14", "26", "72", "409"]
UNDERLINES = ["none", "single", "double", "singleAccounting", "doubleAccounting"]
TINTS = ["0", "0", "0", "-0.25", "0.5", "-0.499984740745262", "0.7999816888943144"]
PATTERNS = ["none", "solid", "gray125", "gray0625", "darkGray", "mediumGray", "lightGray", "darkHorizontal", "darkVertical",
            "darkDown", "darkUp", "darkGrid", "darkTrellis", "lightHorizontal", "lightVertical", "lightDown", "lightUp",
            "lightGrid", "lightTrellis"]
EDGES = ["none", "thin", "medium", "thick", "double", "dashed", "dotted", "hair", "dashDot", "dashDotDot", "mediumDashed",
         "mediumDashDot", "mediumDashDotDot", "slantDashDot"]
HALIGN = ["general", "left", "center", "right", "fill", "justify", "centerContinuous", "distributed"]
VALIGN = ["bottom", "top", "center", "justify", "distributed"]
ROTS = [0, 1, 45, 90, 91, 135, 180, 255]
CODES = ["General", "0", "0.00", "#,##0.00", "0%", "m/d/yyyy", "h:mm:ss", "@", "[$-404]e/m/d", "m/d/yy",
         "0.000", "0.0000", "yyyy-mm-dd", "yyyy-mm-dd hh:mm", "#,##0.00_-", "\"$\"#,##0.00_-", "[Red]0.00;[Blue]-0.00",
         "0.00 \"a&b <c>\"", "#,##0.00_);[Red](#,##0.00)"]
HEIGHTS = ["15.75", "30", "409.5", "0.75", "12.75", "20.25"]
WIDTHS = ["12.5", "0.5", "255", "20.7109375", "9.140625", "3"]


def rand_color(rng, none_ok=True):
    k = rng.random()
    if none_ok and k < 0.25:
        return dict(NOC)
    if k < 0.55:
        return col(theme=rng.randint(1, 9), tint=rng.choice(TINTS))
    if k < 0.75:     # one of the indexed colours (set_argb stores the index)
        return col(argb=rng.choice(["FFFF0000", "FF000000", "FFFFFFFF", "FF00FF00", "FF0000FF", "FF993366", "FF333333"]),
                   tint=rng.choice(TINTS))
    return col(argb="FF" + "".join(rng.choice("0123456789ABCDEF") for _ in range(6)), tint=rng.choice(TINTS))


def rand_font(rng, kf):
    names = NAMES + (SPECIAL_NAMES if rng.random() < 0.5 else [])     # (C05-KF3 while it is open)
    return {"name": rng.choice(names), "size": rng.choice(SIZES), "bold": rng.random() < 0.3, "italic": rng.random() < 0.3,
            "underline": rng.choice(UNDERLINES), "strike": rng.random() < 0.2, "color": rand_color(rng),
            "sch": rng.choice(["none", "none", "none", "minor", "major"])}


def rand_fill(rng, kf):
    p = rng.choice(PATTERNS)
    fg = rand_color(rng)
    if p == "none" and rng.random() < 0.5:
        fg = dict(NOC)          # (a pattern "none" that keeps its foreground colour is the trigger of C05-KF2)
    return {"pattern": p, "fg": fg, "bg": rand_color(rng)}


def rand_edge(rng):
    return {"style": rng.choice(EDGES), "color": rand_color(rng)}


def rand_border(rng):
    b = {e: (rand_edge(rng) if rng.random() < 0.6 else {"style": "none", "color": dict(NOC)})
         for e in ("left", "right", "top", "bottom", "diagonal")}
    b["up"] = rng.random() < 0.2
    b["down"] = rng.random() < 0.2
    return b


def rand_align(rng):
    return {"h": rng.choice(HALIGN), "v": rng.choice(VALIGN), "wrap": rng.random() < 0.3, "rot": rng.choice(ROTS)}


def rand_style(rng, kf, full=False):
    def opt(x):
        return [x] if full or rng.random() < 0.7 else []
    return {"font": opt(rand_font(rng, kf)), "fill": opt(rand_fill(rng, kf)), "border": opt(rand_border(rng)),
            "align": opt(rand_align(rng)), "numFmt": opt(rng.choice(CODES)),
            "prot": opt({"locked": rng.random() < 0.5, "hidden": rng.random() < 0.5})}


def mutate(rng, st, kf):
    """A near-duplicate: the same style with exactly one attribute changed (or one component dropped / added)."""
    s = copy.deepcopy(st)
    comp = rng.choice(["font", "font", "fill", "border", "align", "numFmt", "prot"])
    if not s[comp] or rng.random() < 0.08:
        fresh = rand_style(rng, kf, full=True)
        s[comp] = [] if s[comp] else fresh[comp]
        return s
    if comp == "numFmt":
        s[comp] = [rng.choice([c for c in CODES if c != s[comp][0]])]
        return s
    rec = s[comp][0]
    if comp == "font":
        k = rng.choice(["name", "size", "bold", "italic", "underline", "strike", "color", "adjacent"])
        if k == "adjacent":     # the end of the name and the size run into each other: "X1"/"1" next to "X"/"11"
            n, z = rec["name"], rec["size"]
            rest = z[1:]
            if len(z) >= 2 and z[0] in "123456789" and rest[0] in "123456789" and rng.random() < 0.7:
                rec["name"], rec["size"] = n + z[0], rest                    # ("Arial", "11") -> ("Arial1", "1")
            elif n[-1:] in tuple("123456789") and len(z) <= 3 and z[0] in "123456789":
                rec["name"], rec["size"] = n[:-1], n[-1] + z                 # ("Arial1", "1") -> ("Arial", "11")
            else:
                rec["name"] = n + rng.choice("123456789")
        elif k == "name":
            rec["name"] = rng.choice([n for n in NAMES if n != rec["name"]])
        elif k == "size":
            rec["size"] = rng.choice([n for n in SIZES if n != rec["size"]])
        elif k == "underline":
            rec["underline"] = rng.choice([n for n in UNDERLINES if n != rec["underline"]])
        elif k == "color":
            rec["color"] = rand_color(rng)
        else:
            rec[k] = not rec[k]
    elif comp == "fill":
        k = rng.choice(["pattern", "fg", "bg"])
        if k == "pattern":
            rec["pattern"] = rng.choice([p for p in PATTERNS if p not in ("none", rec["pattern"])])
        elif rec["pattern"] != "none" or k == "bg":
            rec[k] = rand_color(rng)
    elif comp == "border":
        k = rng.choice(["left", "right", "top", "bottom", "diagonal", "up", "down"])
        if k in ("up", "down"):
            rec[k] = not rec[k]
        elif rng.random() < 0.5:
            rec[k]["style"] = rng.choice([e for e in EDGES if e != rec[k]["style"]])
        else:
            rec[k]["color"] = rand_color(rng)
    elif comp == "align":
        k = rng.choice(["h", "v", "wrap", "rot"])
        if k == "wrap":
            rec[k] = not rec[k]
        else:
            pool = {"h": HALIGN, "v": VALIGN, "rot": ROTS}[k]
            rec[k] = rng.choice([x for x in pool if x != rec[k]])
    else:
        k = rng.choice(["locked", "hidden"])
        rec[k] = not rec[k]
    return s


def distinct_styles(rng, n, kf):
    """n pairwise different styles: a few random seeds, the rest near-duplicates of styles already drawn."""
    out, seen = [], set()
    tries = 0
    while len(out) < n and tries < 50 * n + 100:
        tries += 1
        if not out or rng.random() < 0.15:
            s = rand_style(rng, kf)
        else:
            s = mutate(rng, rng.choice(out), kf)
        key = json.dumps(s, sort_keys=True)
        if key not in seen:
            seen.add(key)
            out.append(s)
    return out


def workbook_case(rng, n, kf, saves=2, far=False):
    styles = distinct_styles(rng, n, kf)
    rows_hi = max(4, int(n ** 0.5) + 3)
    cells, rows, cols, used = [], [], [], set()
    colnums, rownums = set(), set()
    for i, s in enumerate(styles):
        k = rng.random()
        if k < 0.08 and len(cols) < 40:
            c = rng.randint(1, 60) if not far or rng.random() < 0.7 else MAXCOL - rng.randint(0, 3)
            if c in colnums:
                continue
            colnums.add(c)
            cols.append({"c": c, "w": rng.choice(WIDTHS + ["8.38"]), "hid": rng.random() < 0.2, "bf": rng.random() < 0.2, "sty": s})
            if rng.random() < 0.5 and c + 1 not in colnums and c + 1 <= MAXCOL:      # adjacent column: same or almost the same
                colnums.add(c + 1)
                twin = dict(cols[-1], c=c + 1)
                if rng.random() < 0.4:
                    twin["sty"] = mutate(rng, s, kf)
                cols.append(twin)
        elif k < 0.16 and len(rows) < 60:
            r = rng.randint(1, rows_hi + 20) if not far or rng.random() < 0.7 else MAXROW - rng.randint(0, 3)
            if r in rownums:
                continue
            rownums.add(r)
            rows.append(dict(row_dims(rng), r=r, sty=s))
        else:
            while True:
                if far and rng.random() < 0.1:
                    p = (rng.choice([MAXROW, MAXROW - 1, 1]), rng.choice([MAXCOL, MAXCOL - 1, 1]))
                else:
                    p = (rng.randint(1, rows_hi), rng.randint(1, rows_hi + 6))
                if p not in used:
                    used.add(p)
                    break
            cells.append({"r": p[0], "c": p[1], "sty": s})
    # dimensions without a style
    for _ in range(rng.randint(0, 3)):
        r = rng.randint(1, rows_hi + 25)
        if r not in rownums:
            rownums.add(r)
            rows.append(dict(row_dims(rng), r=r, sty=EMPTY()))
    for _ in range(rng.randint(0, 3)):
        c = rng.randint(1, 70)
        if c not in colnums:
            colnums.add(c)
            cols.append({"c": c, "w": rng.choice(WIDTHS), "hid": rng.random() < 0.3, "bf": rng.random() < 0.3, "sty": EMPTY()})
    steps = [{"a": "Init"}, {"a": "Assign", "cells": cells, "rows": rows, "cols": cols}]
    for k in range(saves):
        steps += [{"a": "Save"}, {"a": "Reload"}]
        if k == 1 and saves > 2 and styles:      # edit the reloaded workbook, then two more saves
            extra = [{"r": rows_hi + 30, "c": j + 1, "sty": mutate(rng, rng.choice(styles), kf)} for j in range(rng.randint(1, 4))]
            steps.append({"a": "Assign", "cells": extra, "rows": [], "cols": []})
            steps += [{"a": "Save"}, {"a": "Reload"}]
    case = {"steps": steps}
    case["n_styles"] = style_count(case)
    return case


def EMPTY():
    return {"font": [], "fill": [], "border": [], "align": [], "numFmt": [], "prot": []}


def font(name, size, **k):
    f = {"name": name, "size": size, "bold": False, "italic": False, "underline": "none", "strike": False,
         "color": col(theme=1), "sch": "none"}
    f.update(k)
    return f


def with_(**k):
    s = EMPTY()
    for a, v in k.items():
        s[a] = [v]
    return s


def finding_cases():
    """One minimal workbook per open finding (run on every check: the KNOWN-FINDING lines are deterministic)."""
    tail = [{"a": "Save"}, {"a": "Reload"}, {"a": "Save"}, {"a": "Reload"}]
    def wb(cells):
        return {"steps": [{"a": "Init"}, {"a": "Assign", "cells": cells, "rows": [], "cols": []}] + tail}
    return [
        # C05-KF1: the counterexample TLC finds for the design with concatenated keys
        wb([{"r": 1, "c": 1, "sty": with_(font=font("Arial1", "1"))}, {"r": 1, "c": 2, "sty": with_(font=font("Arial", "11"))}]),
        # C05-KF2
        wb([{"r": 1, "c": 1, "sty": with_(fill={"pattern": "none", "fg": col("FF112233"), "bg": dict(NOC)})}]),
        # C05-KF3
        wb([{"r": 1, "c": 1, "sty": with_(font=font("Marks & Co", "10"))}]),
    ]


CUSTOM_CODES = ["0.000", "0.0000", "yyyy-mm-dd", "yyyy-mm-dd hh:mm", "#,##0.00_-", "\"$\"#,##0.00_-", "[Red]0.00;[Blue]-0.00",
                "0.00 \"a&b <c>\"", "0.0\" m\"", "0.000\" kg\""]


def normalize(case):
    """Script form the trace specification expects: every step names its workbook ("w", default 1), Init says how many
    workbooks there are, a number format is [{"code", "id": 0}] (a format made through the API carries no table id)."""
    for st in case["steps"]:
        if st["a"] == "Init":
            st.setdefault("n", 1)
        st.setdefault("w", 1)
        if st["a"] == "Assign":
            for k in ("cells", "rows", "cols"):
                for x in st[k]:
                    nf = x["sty"]["numFmt"]
                    if nf and isinstance(nf[0], str):
                        x["sty"]["numFmt"] = [{"code": nf[0], "id": 0}]
            for x in st["rows"]:            # the components of a row dimension: what set_height alone leaves behind
                x.setdefault("ch", x["ht"] != "0")
                x.setdefault("ord", "hc")
                x.setdefault("tb", False)
                x.setdefault("dd", "0")
            for x in st["cols"]:
                x.setdefault("bf", False)
    return case


def row_dims(rng):
    """Height with customHeight on / off in both orders of the two setters, hidden, thickBot, dyDescent."""
    ht = rng.choice(HEIGHTS + ["0"])
    return {"ht": ht, "ch": rng.random() < (0.6 if ht != "0" else 0.15), "ord": rng.choice(["hc", "hc", "ch"]),
            "hid": rng.random() < 0.2, "tb": rng.random() < 0.15, "dd": rng.choice(["0", "0", "0.25", "0.2"])}


def dims_examples():
    """Every component of a row / column dimension on its own and in combination (one workbook, two generations)."""
    rows, r = [], 1
    for ht in ("0", "30"):
        for ch in (False, True):
            for order in ("hc", "ch"):
                for hid, tb, dd in ((False, False, "0"), (True, False, "0"), (False, True, "0"), (False, False, "0.25"), (True, True, "0.2")):
                    rows.append({"r": r, "ht": ht, "ch": ch, "ord": order, "hid": hid, "tb": tb, "dd": dd, "sty": EMPTY()})
                    r += 1
    cols = [{"c": 2 * i + 1, "w": w, "hid": hid, "bf": bf, "sty": EMPTY()}
            for i, (w, hid, bf) in enumerate((w, h, b) for w in ("12.5", "8.38") for h in (False, True) for b in (False, True))]
    return [{"steps": [{"a": "Init"}, {"a": "Assign", "cells": [], "rows": rows, "cols": cols}] + rounds(1, 2)},
            # the auto-fitted row of a spreadsheet application: <row ht=".."/> without customHeight, with a cell and a style
            {"steps": [{"a": "Init"}, {"a": "Assign", "cells": [{"r": 3, "c": 2, "sty": with_(font=font("Arial", "20"))}],
                                       "rows": [{"r": 3, "ht": "30", "ch": False, "ord": "hc", "hid": False, "tb": False, "dd": "0",
                                                 "sty": EMPTY()}], "cols": []}] + rounds(1, 2)}]


def cell_assign(w, styles_at):
    return {"a": "Assign", "w": w, "cells": [{"r": r, "c": c, "sty": s} for (r, c), s in styles_at], "rows": [], "cols": []}


def imp(w, v, items):
    return {"a": "Import", "w": w, "v": v,
            "items": [{"k": k, "r": r, "c": c, "r2": r2, "c2": c2} for (k, r, c, r2, c2) in items]}


def rounds(w, n=2):
    return [{"a": "Save", "w": w}, {"a": "Reload", "w": w}] * n


def import_examples():
    """Copying cell formats between workbook objects (a template and a workbook under test): a Style read from a file
    carries the ids of that file's tables; the receiving workbook has other content under the same ids."""
    m, kg, day = with_(numFmt='0.0" m"'), with_(numFmt='0.000" kg"'), with_(numFmt="yyyy-mm-dd")
    verd = with_(font=font("Verdana", "9", bold=True), fill={"pattern": "solid", "fg": col("FF112233"), "bg": dict(NOC)}, numFmt='0.000" kg"')
    aria = with_(font=font("Arial", "12"), fill={"pattern": "solid", "fg": col(theme=4), "bg": dict(NOC)}, numFmt='0.0" m"')
    out = []
    # 1: the template is saved and loaded (its format has id 176); the fresh workbook has its own custom format (also 176)
    out.append([{"a": "Init", "n": 2}, cell_assign(2, [((1, 1), kg)])] + rounds(2, 1) +
               [cell_assign(1, [((1, 1), m)]), imp(1, 2, [("cell", 2, 1, 1, 1)])] + rounds(1, 2))
    # 2: the reverse direction: from the loaded workbook under test into a fresh template that has its own format
    out.append([{"a": "Init", "n": 2}, cell_assign(1, [((1, 1), m)])] + rounds(1, 1) +
               [cell_assign(2, [((1, 1), kg)]), imp(2, 1, [("cell", 1, 2, 1, 1)])] + rounds(2, 2))
    # 3: both were loaded from files; the same ids hold the two formats / fonts / fills in opposite order; both directions
    out.append([{"a": "Init", "n": 2}, cell_assign(1, [((1, 1), aria), ((2, 1), verd), ((3, 1), day)]),
                cell_assign(2, [((1, 1), verd), ((2, 1), aria)])] + rounds(1, 1) + rounds(2, 1) +
               [imp(1, 2, [("cell", 1, 2, 1, 1), ("cell", 2, 2, 2, 1)]), imp(2, 1, [("cell", 1, 2, 1, 1), ("cell", 3, 2, 3, 1)])] +
               rounds(1, 2) + rounds(2, 2))
    # 4: into a row and a column; the importing workbook gets its own format only after the import, on an earlier cell
    out.append([{"a": "Init", "n": 2}, cell_assign(2, [((1, 1), kg), ((1, 2), verd)])] + rounds(2, 1) +
               [imp(1, 2, [("row", 5, 1, 1, 1), ("col", 1, 4, 1, 2), ("cell", 9, 9, 1, 1)]), cell_assign(1, [((1, 1), m)])] +
               rounds(1, 2))
    # 5: import, save, reload, import again from the (meanwhile re-saved) template
    out.append([{"a": "Init", "n": 2}, cell_assign(2, [((1, 1), kg), ((2, 1), day)]), cell_assign(1, [((1, 1), m)])] +
               rounds(2, 1) + [imp(1, 2, [("cell", 1, 2, 1, 1)])] + rounds(1, 1) + rounds(2, 1) +
               [imp(1, 2, [("cell", 1, 3, 2, 1)]), imp(2, 1, [("cell", 3, 1, 1, 1)])] + rounds(1, 1) + rounds(2, 1))
    return [{"steps": s} for s in out]


def import_case(rng, kf, n1, n2):
    """Two workbooks with their own styles (custom number formats in different orders, so that equal ids mean different
    formats), saves / reloads and style imports in both directions in a random interleaving."""
    def styles(n):
        out = distinct_styles(rng, n, kf)
        for s in out:
            if rng.random() < 0.6:
                s["numFmt"] = [rng.choice(CUSTOM_CODES)]
        return out
    pos = {1: [], 2: []}
    steps = [{"a": "Init", "n": 2}]
    for w, n in ((1, n1), (2, n2)):
        at = []
        for i, s in enumerate(styles(n)):
            p = (i // 4 + 1, i % 4 + 1)
            at.append((p, s))
            pos[w].append(p)
        if at:
            steps.append(cell_assign(w, at))
    saved = {1: False, 2: False}
    nimp = 0
    for _ in range(rng.randint(3, 9)):
        k = rng.random()
        w = rng.choice([1, 2])
        v = 3 - w
        if k < 0.35:
            steps += rounds(w, 1)
            saved[w] = True
        elif pos[v]:
            items = []
            for _ in range(rng.randint(1, 4)):
                r2, c2 = rng.choice(pos[v])
                kind = rng.choice(["cell", "cell", "cell", "row", "col"])
                r, c = rng.randint(1, 12), rng.randint(1, 8)
                items.append((kind, r, c, r2, c2))
                if kind == "cell":
                    pos[w].append((r, c))
            steps.append(imp(w, v, items))
            nimp += 1
    steps += rounds(1, 2) + rounds(2, 2)
    return {"steps": steps}


def project(events):
    """Replace the raw bytes of every Save by the independent view of styles.xml."""
    zero = {"fonts": 0, "fills": 0, "borders": 0, "numFmts": 0, "cellXfs": 0, "dxfs": 0}
    for evs in events:
        for e in evs:
            if e.get("a") == "Save":
                hx = e.pop("hex", "")
                if e.get("outcome") == "ok" and hx:
                    v = styles_view.view(bytes.fromhex(hx))
                    e["sizes"], e["wellformed"] = v["sizes"], bool(v["wellformed"])
                else:
                    e["sizes"], e["wellformed"] = dict(zero), False
            else:
                e.pop("hex", None)
    return events


def gen_cases(chk):
    rng = chk.rng
    quick = chk.tier == "quick"
    kf = {i: True for i in chk.open_ids}
    cases = finding_cases() + import_examples() + dims_examples()
    nfix = len(cases)
    r = vlib.run_tlc("MC_Styles", "MC_Styles_replay.cfg", workers=4, coverage=False, timeout=3000)
    if not r.ok or not r.replays:
        raise vlib.ToolError("replay generation failed: " + (r.violation or r.out[-500:]))
    reps = r.replays
    if quick and len(reps) > 3000:          # every behaviour in thorough; a seeded sample of them in quick
        reps = rng.sample(reps, 3000)
    cases += [{"steps": rp} for rp in reps]
    n1 = len(cases)
    nsim = 150 if quick else 4000
    rs = vlib.run_tlc("MC_Styles", "MC_Styles_sim.cfg", workers=1, coverage=False, simulate=f"num={nsim}",
                      extra=["-depth", "40", "-seed", str(chk.seed)], timeout=3000)
    if rs.rc != 0 or rs.violation or not rs.replays:
        raise vlib.ToolError("TLC simulation of MC_Styles_sim.cfg failed: " + (rs.violation or rs.out[-500:]))
    seen = set()
    for rp in rs.replays:
        key = json.dumps(rp, sort_keys=True)
        if key not in seen:
            seen.add(key)
            cases.append({"steps": rp})
    # two workbook objects: styles imported from one into the other (TLC-simulated and seeded random)
    nsim2 = 100 if quick else 2500
    rs2 = vlib.run_tlc("MC_Styles", "MC_Styles_import_sim.cfg", workers=1, coverage=False, simulate=f"num={nsim2}",
                       extra=["-depth", "60", "-seed", str(chk.seed)], timeout=3000)
    if rs2.rc != 0 or rs2.violation or not rs2.replays:
        raise vlib.ToolError("TLC simulation of MC_Styles_import_sim.cfg failed: " + (rs2.violation or rs2.out[-500:]))
    nimp0 = len(cases)
    for rp in rs2.replays:
        key = json.dumps(rp, sort_keys=True)
        if key not in seen:
            seen.add(key)
            cases.append({"steps": rp})
    nimp1 = len(cases)
    if not quick:
        r3 = vlib.run_tlc("MC_Styles", "MC_Styles_import_replay.cfg", workers=4, coverage=False, timeout=3000)
        if not r3.ok or not r3.replays:
            raise vlib.ToolError("import replay generation failed: " + (r3.violation or r3.out[-500:]))
        cases += [{"steps": rp} for rp in rng.sample(r3.replays, min(12000, len(r3.replays)))]
    nimp2 = len(cases)
    for _ in range(150 if quick else 3000):
        cases.append(import_case(rng, kf, rng.randint(1, 10), rng.randint(1, 10)))
    nimp3 = len(cases)
    n2 = len(cases)
    big = []
    if quick:
        plan = [(300, 1, 40, 2)]
        bigplan = [120, 300, 600]
    else:
        plan = [(6000, 1, 60, 2), (1500, 1, 40, 3)]
        bigplan = [100, 150, 200, 300, 400, 500, 600] * 6
    for count, lo, hi, saves in plan:
        for _ in range(count):
            cases.append(workbook_case(rng, rng.randint(lo, hi), kf, saves=saves, far=rng.random() < 0.3))
    for n in bigplan:
        big.append(workbook_case(rng, n, kf, saves=2 if quick else 3, far=True))
    chk.extra["cases"] = {"finding_examples": nfix, "tlc_paths": n1 - nfix, "tlc_paths_total": len(r.replays),
                          "tlc_simulated_histories": nimp0 - n1, "two_workbook_import_histories":
                              {"examples": len(import_examples()), "tlc_simulated": nimp1 - nimp0,
                               "tlc_paths_sampled": nimp2 - nimp1, "random": nimp3 - nimp2},
                          "random_workbooks": len(cases) - n2,
                          "large_workbooks_distinct_styles": [c["n_styles"] for c in big]}
    cases += big
    for i, c in enumerate(cases):
        c["case"] = i
        normalize(c)
    return cases, len(big)


def describe(case, ev, detail):
    if ev is None:
        return detail
    small = {k: v for k, v in ev.items() if k not in ("obs", "cells", "rows", "cols", "names", "hex")}
    if case and any(st["a"] == "Import" for st in case["steps"]):
        small["history"] = " ".join(st["a"][0] + str(st.get("w", 1)) for st in case["steps"])
    return f"step {json.dumps(small)}: {detail}"


def judge(chk, cases, nbig=0):
    events = project(vlib.run_cases("styles", cases, timeout=60))
    split = len(cases) - nbig
    parts = [(0, split, 1200)] + ([(split, len(cases), 6)] if nbig else [])
    for lo, hi, chunk in parts:
        if lo == hi:
            continue
        out = vlib.validate("Trace_Styles", "Trace_Styles.cfg", events[lo:hi], chk.open_ids, f"c05-{lo}", chunk_events=chunk,
                            jobs=8)
        first = {}
        for ci, off, detail in out["mismatch"]:
            if ci not in first or off < first[ci][0]:
                first[ci] = (off, detail)
        for ci, (off, detail) in first.items():
            # (after an earlier mismatch the specification follows the observation: only a *first* mismatch
            #  blames the generator.)  "assign" / "import": the getters do not show what the setters were just given
            #  - the reference the property speaks about is then undefined; that is a tool error, not a verdict.
            if detail.startswith(('<<"gen"', '<<"assign"', '<<"import"', '<<"init"')):
                raise vlib.ToolError(f"generator/driver problem (case {lo + ci}, step {off}): {detail[:600]}")
        chk.process_validation(out, cases[lo:hi], events[lo:hi], "styles", describe)
    return events


def style_count(case):
    seen = set()
    for st in case["steps"]:
        if st["a"] == "Assign":
            for k in ("cells", "rows", "cols"):
                for x in st[k]:
                    seen.add(json.dumps(x["sty"], sort_keys=True))
    return len(seen)


def import_count(case):
    return sum(len(st["items"]) for st in case["steps"] if st["a"] == "Import")


def run(chk):
    vlib.tlc_mc("MC_Styles", "MC_Styles.cfg", workers=4, check=chk, must_take=["Assign", "DoSave", "DoReload"], timeout=3000)
    if chk.tier == "thorough":
        vlib.tlc_mc("MC_Styles", "MC_Styles_thorough.cfg", workers=4, check=chk, must_take=["Assign", "DoSave", "DoReload"],
                    timeout=7200, heap="12g")
    dev = vlib.run_tlc("MC_Styles", "MC_Styles_deviant.cfg", workers=2, coverage=False)
    if dev.violation is None or "NoMerge" not in dev.violation:
        raise vlib.ToolError("TLC did not refute NoMerge for font keys written without separators: the invariant would be vacuous")
    chk.extra["deviant_design_refuted"] = dev.violation
    # two workbooks, styles imported from one into the other in every interleaving with their saves and reloads
    vlib.tlc_mc("MC_Styles", "MC_Styles_import_q.cfg" if chk.tier == "quick" else "MC_Styles_import.cfg", workers=4, check=chk,
                must_take=["Assign", "DoImport", "DoSave", "DoReload"], timeout=7200, heap="12g")
    dev2 = vlib.run_tlc("MC_Styles", "MC_Styles_deviant_id.cfg", workers=2, coverage=False)
    if dev2.violation is None or "NoMerge" not in dev2.violation:
        raise vlib.ToolError("TLC did not refute NoMerge for number formats looked up by the id they carry: the import "
                             "scenario would be vacuous")
    chk.extra["deviant_design_refuted_import"] = dev2.violation
    cases, nbig = gen_cases(chk)
    events = judge(chk, cases, nbig)
    chk.evaluations = len(cases)
    chk.nontrivial = {json.dumps(c["steps"], sort_keys=True) for c in cases if style_count(c) >= 1}
    chk.extra["cases"]["histories_with_an_import"] = sum(1 for c in cases if import_count(c) >= 1)
    counts = sorted(style_count(c) for c in cases)
    chk.extra["distinct_styles_per_workbook"] = {"min": counts[0], "median": counts[len(counts) // 2], "max": counts[-1]}
    chk.rule = ("a case is a new workbook, one or more batches of style / height / width / hidden assignments to cells, rows "
                "and columns, and 2-3 rounds of save + reload; cases = the minimal example of every open finding, behaviours of "
                "the bounded model (<= 2 carriers over the one-attribute-variant palette; quick: a seeded sample of 3000), "
                "TLC-simulated histories over random styles, seeded random workbooks with 1..60 (quick: 1..40) and 100..600 distinct styles "
                "(near-duplicates, key-adjacent fonts, adjacent equal columns, grid limits), and histories over two workbook "
                "objects in which the Style of a cell of one (fresh or loaded from a file) is set on a cell, row or column of the "
                "other, both directions, with custom number formats / fonts / fills under the same table ids (examples, "
                "TLC-simulated, seeded random; thorough: + sampled paths of the bounded model); distinct = different step lists, "
                "non-trivial = at least one styled carrier; row dimensions are given as height, customHeight (both orders of the "
                "two setters), hidden, thickBot, dyDescent, column dimensions as width, hidden, bestFit, in every combination")
    i0 = chk.extra["cases"]["finding_examples"]
    chk.sample({"script": cases[i0]["steps"], "observed_after_reload": events[i0][3]["obs"]})
    last = cases[-1]
    chk.sample({"large_workbook_distinct_styles": style_count(last), "steps": [s["a"] for s in last["steps"]],
                "sizes_of_saves": [e["sizes"] for e in events[-1] if e.get("a") == "Save"]})
    chk.assumptions += [
        "effective formatting = what the public getters of the style returned by Worksheet::get_style / get_row_dimension / "
        "get_column_dimension_by_number show, a component that is absent read as the default component (DESIGN Appendix A); "
        "colours are compared as (resolved argb, theme index, tint); font family/charset/vertAlign and gradient fills are not varied",
        "one worksheet per workbook object, at most two workbook objects; styles are built with the public setters starting from Style::default() (font: from get_font_mut())",
        "table sizes are the child counts of fonts/fills/borders/numFmts/cellXfs/dxfs in xl/styles.xml as parsed by python3 "
        "zipfile + ElementTree; NoGrowth compares consecutive saves with no assignment in between",
    ]


def replay(chk, path):
    with open(path) as f:
        rp = json.load(f)
    judge(chk, [normalize(rp["script"])])
