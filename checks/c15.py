"""C15 - protection password hashes verify per ECMA-376; no clear-text password.

Spec: spec/PwdHash.tla (symbolic hashing: spin loop as a state machine vs the closed verifier term vs
the standard's recursion; fresh salts; legacy attribute removed; save/load), MC_PwdHash.cfg
(exhaustive; thorough: also MC_PwdHash_deep.cfg), MC_PwdHash_replay.cfg (behaviours to run on the library).
Conformance: harness/src/bin/pwdhash.rs drives set_password / set_workbook_password /
set_revisions_password, the writers and the reader; this module projects the written packages with
zipfile + expat, lets pydec/pwdhash_eval.py evaluate the specification's verifier term (the JSON TLC
printed) with hashlib for the bindings (algorithm, salt, spin count, password) the events need, and
spec/Trace_PwdHash.tla judges every event.
"""
import io, json, os, unicodedata, zipfile
import xml.parsers.expat
from concurrent.futures import ProcessPoolExecutor
import vlib
from pydec import pwdhash_eval

KINDS = ["sheet1", "sheet2", "workbook", "revisions"]
MC_KINDS = {"sheet1": "sheet1", "workbook": "workbook", "revisions": "revisions"}
UNSET = {"alg": "", "salt": "", "spin": 0, "hash": "", "legacy": ""}
CORPUS_PW = "password"          # password of the verifiers Excel wrote into sheet_lock.xlsx / book_lock.xlsx
BASES = {"new": {}, "sheet_lock": {"sheet1": CORPUS_PW, "sheet2": CORPUS_PW}, "book_lock": {"workbook": CORPUS_PW}}


# ---------------------------------------------------------------------------------------------
# independent projection of a written package (shares no code with the library)
# ---------------------------------------------------------------------------------------------
def _local(name):
    return name.rsplit(":", 1)[-1]


def _scan_xml(data):
    """-> (list of (local element name, attrs dict)), all attribute values and text as one list"""
    elems, texts = [], []
    p = xml.parsers.expat.ParserCreate()

    def start(name, attrs):
        elems.append((_local(name), dict(attrs)))
        texts.extend(attrs.values())
    p.StartElementHandler = start
    p.CharacterDataHandler = texts.append
    p.CommentHandler = texts.append
    p.Parse(data, True)
    return elems, texts


def _spin(v):
    if v is None:
        return 0
    if v.isdigit() and int(v) < 2 ** 31:
        return int(v)
    return -1


def _rec(attrs, prefix, legacy_name):
    def g(n):
        key = (prefix + n[0].upper() + n[1:]) if prefix else n
        return attrs.get(key)
    return ({"alg": g("algorithmName") or "", "salt": g("saltValue") or "", "spin": _spin(g("spinCount")),
             "hash": g("hashValue") or "", "legacy": attrs.get(legacy_name) or ""}, legacy_name in attrs)


def project_package(data):
    """kind -> verifier record as found in the sheetProtection / workbookProtection elements"""
    out = {k: dict(UNSET) for k in KINDS}
    legacy = {k: False for k in KINDS}
    try:
        z = zipfile.ZipFile(io.BytesIO(data))
        wb, _ = _scan_xml(z.read("xl/workbook.xml"))
        rels, _ = _scan_xml(z.read("xl/_rels/workbook.xml.rels"))
        target = {a.get("Id"): a.get("Target") for n, a in rels if n == "Relationship"}
        sheets = [a for n, a in wb if n == "sheet"]
        for i, kind in enumerate(["sheet1", "sheet2"]):
            if i >= len(sheets):
                continue
            rid = [v for k, v in sheets[i].items() if _local(k) == "id" and k != "sheetId"]
            t = target[rid[0]]
            part = t.lstrip("/") if t.startswith("/") else "xl/" + t
            el, _ = _scan_xml(z.read(part))
            for n, a in el:
                if n == "sheetProtection":
                    out[kind], legacy[kind] = _rec(a, "", "password")
        for n, a in wb:
            if n == "workbookProtection":
                out["workbook"], legacy["workbook"] = _rec(a, "workbook", "workbookPassword")
                out["revisions"], legacy["revisions"] = _rec(a, "revisions", "revisionsPassword")
        return out, legacy, True
    except Exception:
        return {k: dict(UNSET) for k in KINDS}, {k: False for k in KINDS}, False


_XML_ESC = [("&", "&amp;"), ("<", "&lt;"), (">", "&gt;")]


def _encodings(pw):
    esc = pw
    for a, b in _XML_ESC:
        esc = esc.replace(a, b)
    forms = {pw, esc, esc.replace('"', "&quot;"), esc.replace("'", "&apos;"),
             esc.replace('"', "&quot;").replace("'", "&apos;")}
    out = set()
    for f in forms:
        out.add(f.encode("utf-8"))
    out.add(pw.encode("utf-16-le"))
    out.add(pw.encode("utf-16-be"))
    return out


def clear_count_package(data, pws, recs):
    """occurrences of the passwords (UTF-8, XML-escaped, UTF-16LE/BE; and in the decoded attribute
    values / text of every XML part) in entry names, the archive comment and every decompressed
    part, outside the values of the verifier's own salt/hash attributes (judged separately)."""
    pws = [p for p in pws if p != ""]
    if not pws:
        return 0
    masks = sorted({r[f] for r in recs.values() for f in ("salt", "hash") if len(r[f]) >= 8}, key=len, reverse=True)
    n = 0
    try:
        z = zipfile.ZipFile(io.BytesIO(data))
    except Exception:
        return 0
    blobs = [z.comment]
    texts = []
    for info in z.infolist():
        blobs.append(info.filename.encode("utf-8", "replace"))
        try:
            d = z.read(info)
        except Exception:
            continue
        if info.filename.endswith((".xml", ".rels", ".vml")):
            try:
                texts.extend(_scan_xml(d)[1])
            except Exception:
                pass
        blobs.append(d)
    for b in blobs:
        for m in masks:
            b = b.replace(m.encode("ascii", "replace"), b"")
        for pw in pws:
            for enc in _encodings(pw):
                n += b.count(enc)
    for t in texts:
        for m in masks:
            t = t.replace(m, "")
        for pw in pws:
            n += t.count(pw)
    return n


def clear_count_model(obs, pws):
    """occurrences of the passwords in the string getters other than salt/hash"""
    n = 0
    for pw in pws:
        if pw == "":
            continue
        for k in KINDS:
            n += obs[k]["alg"].count(pw) + obs[k]["legacy"].count(pw)
    return n


# ---------------------------------------------------------------------------------------------
# passwords
# ---------------------------------------------------------------------------------------------
def _long(n, rng):
    pool = "abcXYZ019 !é日" + chr(0x1F600) + chr(0x10348)
    return "".join(rng.choice(pool) for _ in range(n))


def password_classes(rng):
    return [
        ("empty", ""), ("one", "a"), ("ascii", "password"), ("xmlspecial", "P@ss <w0rd>&\"'!"),
        ("blanks", " lead and trail "), ("latin1", "pässwörd"), ("cyrillic", "пароль"),
        ("cjk", "密码パスワード"), ("nonbmp", "\U0001F600\U0001F511\U00010348"),
        ("mixed", "a\U0001F600b\U0001D11Ec"), ("planes", "\ud7ff\ue000\uffff\U00010000\U0010FFFF"),
        ("control", "tab\there\nnl\r\u0001"), ("nfd", "école"), ("algname", "SHA-512"), ("attrname", "Value"),
        ("long255", "x" * 254 + "y"), ("long256", "x" * 255 + "y"), ("long1000", _long(1000, rng)),
    ]


def others_for(pw, rng, k):
    """k passwords different from pw that a sloppy hash could confuse with it"""
    c = []
    if pw != "":
        c += [pw[:-1], pw + " ", pw.swapcase(), pw[::-1], pw[:15], pw[:255], pw.lower(), pw.upper(), "",
              unicodedata.normalize("NFC", pw), unicodedata.normalize("NFD", pw), pw + pw, pw[1:],
              pw.encode("utf-8").decode("latin-1"), "".join(ch for ch in pw if ord(ch) < 0x10000)]
    else:
        c += [" ", "0", "a"]
    seen, out = {pw}, []
    for x in c:
        if x not in seen and "\x00" not in x:
            seen.add(x)
            out.append(x)
    rng.shuffle(out)
    return out[:k]


def random_password(rng):
    n = rng.choice([0, 1, 2, 3, 5, 8, 13, 21, 40, rng.randint(0, 300)])
    out = []
    for _ in range(n):
        r = rng.random()
        if r < 0.4:
            cp = rng.randint(0x20, 0x7e)
        elif r < 0.55:
            cp = rng.randint(0xa0, 0x24f)
        elif r < 0.8:
            cp = rng.choice([rng.randint(0x250, 0xd7ff), rng.randint(0xe000, 0xffff)])
        elif r < 0.97:
            cp = rng.randint(0x10000, 0x10ffff)
        else:
            cp = rng.randint(1, 0x1f)
        out.append(chr(cp))
    return "".join(out)


# ---------------------------------------------------------------------------------------------
# cases
# ---------------------------------------------------------------------------------------------
def _load(rng):
    return {"a": "Load", "lazy": rng.random() < 0.3}


def _set(kind, pw, rng, k):
    return {"a": "Set", "kind": kind, "pw": pw, "others": others_for(pw, rng, k)}


def gen_cases(chk, replays):
    rng = chk.rng
    thorough = chk.tier == "thorough"
    nother = 3 if thorough else 2
    classes = password_classes(rng)
    cases = []
    # A: every password class on every kind; legacy attribute first on every second case; set twice
    #    (the second call, with the same password, must draw another salt); both writers
    for i, (cname, pw) in enumerate(classes):
        for j, kind in enumerate(KINDS):
            writers = ["std", "light"] if (i + j) % 2 == 0 else ["light", "std"]
            steps = []
            if (i + j) % 2 == 0:
                steps.append({"a": "Legacy", "kind": kind, "v": "CC1A"})
            if j % 2 == 1:
                steps.append({"a": "Legacy", "kind": KINDS[(j + 1) % 4], "v": "83AF"})
            steps += [_set(kind, pw, rng, nother), {"a": "Save", "writer": writers[0]}, _load(rng)]
            pw2 = pw if i % 3 else classes[(i + 5) % len(classes)][1]
            steps += [_set(kind, pw2, rng, nother), {"a": "Save", "writer": writers[1]}, _load(rng)]
            cases.append({"base": "new", "steps": steps, "family": "class:" + cname})
    # B: behaviours enumerated by TLC (MC_PwdHash_replay.cfg), atoms p1/p2 bound to real passwords
    nontrivial = sorted((r for r in replays if any(s["a"] == "Set" for s in r)),
                        key=lambda r: json.dumps(r, sort_keys=True))     # TLC's print order is not deterministic
    rng.shuffle(nontrivial)
    for r in nontrivial[:(300 if thorough else 30)]:
        bind = {"p1": rng.choice(classes)[1], "p2": rng.choice(classes)[1]}
        if bind["p1"] == bind["p2"]:
            bind["p2"] = bind["p2"] + "2"
        steps = []
        for s in r:
            if s["a"] == "Set":
                steps.append(_set(MC_KINDS[s["kind"]], bind[s["pw"]], rng, nother))
            elif s["a"] == "Legacy":
                steps.append({"a": "Legacy", "kind": MC_KINDS[s["kind"]], "v": s["v"]})
            elif s["a"] == "Save":
                steps.append({"a": "Save", "writer": rng.choice(["std", "light"])})
            else:
                steps.append(_load(rng))
        cases.append({"base": "new", "steps": steps, "family": "tlc-replay"})
    # C: random histories with random Unicode passwords
    for _ in range(700 if thorough else 30):
        base = rng.choice(["new", "new", "new", "sheet_lock", "book_lock"])
        steps, isset, saved = [], set(BASES[base]), False
        for _ in range(rng.randint(3, 9)):
            r = rng.random()
            if r < 0.45:
                kind = rng.choice(KINDS)
                pw = random_password(rng) if rng.random() < 0.8 else rng.choice(classes)[1]
                steps.append(_set(kind, pw, rng, nother))
                isset.add(kind)
            elif r < 0.55 and len(isset) < 4:
                kind = rng.choice([k for k in KINDS if k not in isset])
                steps.append({"a": "Legacy", "kind": kind, "v": rng.choice(["CC1A", "83AF", "DAA7"])})
            elif r < 0.8:
                steps.append({"a": "Save", "writer": rng.choice(["std", "light"])})
                saved = set(isset)
            elif saved is not False:
                steps.append(_load(rng))
                isset = set(saved)
        if not any(s["a"] == "Set" for s in steps):
            steps += [_set(rng.choice(KINDS), random_password(rng), rng, nother),
                      {"a": "Save", "writer": rng.choice(["std", "light"])}, _load(rng)]
        cases.append({"base": base, "steps": steps, "family": "random"})
    # D: corpus files whose verifiers were written by Excel (password known)
    for base in ("sheet_lock", "book_lock"):
        cases.append({"base": base, "steps": [{"a": "Save", "writer": "std"}, {"a": "Load", "lazy": False},
                                              {"a": "Save", "writer": "light"}, {"a": "Load", "lazy": True}],
                      "family": "corpus"})
        for kind in KINDS:
            pw = rng.choice(classes)[1]
            cases.append({"base": base, "steps": [_set(kind, pw, rng, nother), {"a": "Save", "writer": "std"},
                                                  _load(rng)], "family": "corpus"})
    # E: the same calls in two separate processes: salts must differ across processes as well
    for kind in KINDS[1:]:
        cases.append({"base": "new", "procs": 2, "family": "two-processes",
                      "steps": [_set(kind, "password", rng, 0), _set(kind, "password", rng, 0),
                                _set("sheet1", "", rng, 0)]})
    for i, c in enumerate(cases):
        c["case"] = i
        c.setdefault("procs", 1)
        c["init_pw"] = dict(BASES[c["base"]])
    return cases


# ---------------------------------------------------------------------------------------------
# post-processing of the driver's events: projections, clear-text counts, term evaluations
# ---------------------------------------------------------------------------------------------
def _need(needs, rec, pw, others=()):
    for p in (pw,) + tuple(others):
        needs.append((rec["alg"], rec["salt"], rec["spin"], p))


def postprocess(case, evs, term):
    """Mirror of the bookkeeping (which kind has which password) to know which evaluations the trace
    specification will ask for; a wrong mirror shows up as a "gen" mismatch, never as a verdict."""
    pws, allpws, saved = {}, [], None
    first = True
    for e in evs:
        a = e.get("a")
        e["needs"] = needs = []
        if a == "Init":
            pws = dict(case.get("init_pw", {}))
            allpws = list(pws.values())
            saved = None
            e["first"] = first
            first = False
            e["term"] = term
            e["init_pw"] = [{"kind": k, "pw": p} for k, p in sorted(pws.items())]
        ok = e.get("outcome") == "ok"
        sobs = e.pop("sobs", None)
        if a == "Set" and ok:
            pws[e["kind"]] = e["pw"]
            allpws.append(e["pw"])
        if a == "Load" and ok and saved is not None:
            pws = dict(saved)
        if a == "Save":
            fh, sh = e.pop("file_hex", None), e.pop("sfile_hex", None)
            if ok:
                data, sdata = bytes.fromhex(fh), bytes.fromhex(sh)
                recs, legacy, dec = project_package(data)
                srecs, _, sdec = project_package(sdata)
                e["file"], e["legacy_attr"], e["decoded"] = recs, legacy, bool(dec and sdec)
                e["clear"] = clear_count_package(data, allpws, recs)
                e["clear_base"] = clear_count_package(sdata, allpws, srecs)
                e["size"] = len(data)
                saved = dict(pws)
                for k, p in pws.items():
                    _need(needs, recs[k], p)
        elif ok and "obs" in e:
            for k in KINDS:
                if e["obs"][k]["spin"] >= 2 ** 31:
                    e["obs"][k]["spin"] = -1
            e["mclear"] = clear_count_model(e["obs"], allpws)
            e["mclear_base"] = clear_count_model(sobs, allpws) if sobs else 0
            for k, p in pws.items():
                _need(needs, e["obs"][k], p, e.get("others", []) if (a == "Set" and k == e["kind"]) else ())
    return evs


def anchors(term):
    """verifiers written by Excel into the corpus files, read with the independent projection"""
    out = []
    repo = vlib.REPO
    for base, kinds in BASES.items():
        if base == "new":
            continue
        path = os.path.join(repo, "tests", "test_files", base + ".xlsx")
        try:
            recs, _, dec = project_package(open(path, "rb").read())
        except OSError:
            continue
        for k, pw in kinds.items():
            r = recs[k]
            ev = {"a": "Anchor", "case": "anchor-" + base + "-" + k, "alg": r["alg"], "salt": r["salt"], "spin": r["spin"],
                  "pw": pw, "hash": r["hash"], "term": term, "outcome": "ok"}
            ev["needs"] = [(r["alg"], r["salt"], r["spin"], pw)]
            out.append(ev)
    return out


def evaluate_all(event_lists, term, jobs):
    needs = set()
    for evs in event_lists:
        for e in evs:
            needs.update(e.get("needs", []))
    needs = sorted(needs)
    table = {}
    term_text = json.dumps(term)
    work = [(term_text,) + n for n in needs]
    if len(work) <= 4:
        vals = [pwdhash_eval.evaluate_job(w) for w in work]
    else:
        with ProcessPoolExecutor(max_workers=jobs) as ex:
            vals = list(ex.map(pwdhash_eval.evaluate_job, work, chunksize=4))
    for n, v in zip(needs, vals):
        table[n] = v
    for evs in event_lists:
        for e in evs:
            seen = []
            for n in e.pop("needs", []):
                if n not in seen:
                    seen.append(n)
            e["evals"] = [{"alg": n[0], "salt": n[1], "spin": n[2], "pw": n[3], "val": table[n]} for n in seen]
    return len(needs)


def get_term(chk, record=True):
    r = vlib.tlc_mc("MC_PwdHash", "MC_PwdHash.cfg", workers=4,
                    must_take=["SetLegacy", "BeginSet", "SpinStep", "FinishSet", "Save", "Load"],
                    check=chk if record else None)
    terms = [ln for ln in r.prints if ln.startswith('<<"TERM", ')]
    if not terms:
        raise vlib.ToolError("TLC did not print the verifier term")
    return json.loads(json.loads(terms[0][len('<<"TERM", '):-2]))      # the term as a JSON object


def describe(case, ev, detail):
    """human-readable context for a verdict TLC reached (nothing here decides anything)"""
    if not ev:
        return detail
    a, k = ev.get("a"), ev.get("kind", "")
    m = detail.replace('"', "").strip("<>").split(", ")
    kind = m[2] if len(m) > 2 and m[2] in KINDS else k
    txt = f"base={case.get('base')} step {ev.get('i')} {a} {k}: {detail}"
    src = ev.get("file") if a == "Save" else ev.get("obs")
    if src and kind in src:
        r = src[kind]
        txt += f" | {kind}: alg={r['alg']} salt={r['salt']} spin={r['spin']} hash={r['hash'][:24]}... legacy={r['legacy']!r}"
        vals = [x for x in ev.get("evals", []) if (x["alg"], x["salt"], x["spin"]) == (r["alg"], r["salt"], r["spin"])]
        if vals:
            txt += f" | specification's term for pw={json.dumps(vals[0]['pw'])[:60]} gives {vals[0]['val'][:24]}..."
    for f in ("clear", "clear_base", "mclear", "mclear_base"):
        if f in ev:
            txt += f" {f}={ev[f]}"
    return txt


def judge(chk, cases, term, with_anchors=True):
    jobs = max(1, min(8, vlib.NCPU - 2))
    once = [i for i, c in enumerate(cases) if c.get("procs", 1) == 1]
    twice = [i for i, c in enumerate(cases) if c.get("procs", 1) > 1]
    events = [None] * len(cases)
    if once:
        for i, evs in zip(once, vlib.run_cases("pwdhash", [cases[i] for i in once], timeout=120,
                                               jobs=min(jobs, max(1, len(once) // 8)))):
            events[i] = evs
    for i in twice:
        # two fresh driver processes, the case being the first thing each of them does: a salt source
        # that is deterministic per process repeats itself here
        ev1 = vlib.run_cases("pwdhash", [cases[i]], timeout=120, jobs=1)[0]
        ev2 = vlib.run_cases("pwdhash", [cases[i]], timeout=120, jobs=1)[0]
        for e in ev2:
            e["i"] = e.get("i", 0) + 1000
        events[i] = ev1 + ev2
    for c, evs in zip(cases, events):
        postprocess(c, evs, term)
    all_cases, all_events = list(cases), list(events)
    if with_anchors:
        for a in anchors(term):
            all_cases.append({"case": a["case"], "family": "anchor"})
            all_events.append([a])
    chk.extra["term_evaluations"] = chk.extra.get("term_evaluations", 0) + evaluate_all(all_events, term, jobs)
    out = vlib.validate("Trace_PwdHash", "Trace_PwdHash.cfg", all_events, chk.open_ids, "c15", chunk_events=1500,
                        jobs=4)
    for ci, off, detail in out["mismatch"]:
        if detail.startswith('<<"gen"'):
            raise vlib.ToolError(f"generator/mirror and specification disagree (case {all_cases[ci].get('case')}, event {off}): "
                                 f"{detail} script={json.dumps(all_cases[ci])[:1500]}")
        if detail.startswith('<<"anchor"'):
            raise vlib.ToolError("the specification's verifier term does not reproduce an Excel-written verifier of "
                                 "the corpus: " + detail)
    chk.process_validation(out, all_cases, all_events, "pwdhash", describe)
    return all_events


def run(chk):
    term = get_term(chk)
    if chk.tier == "thorough":     # deeper exhaustive run: 3 calls, 4 salts, 3 spins
        vlib.tlc_mc("MC_PwdHash", "MC_PwdHash_deep.cfg", workers=4,
                    must_take=["SetLegacy", "BeginSet", "SpinStep", "FinishSet", "Save", "Load"], check=chk)
    rp = vlib.run_tlc("MC_PwdHash", "MC_PwdHash_replay.cfg", workers=4)
    if not rp.ok or not rp.replays:
        raise vlib.ToolError("replay emission failed: " + str(rp.violation))
    chk.add_mc("MC_PwdHash", "MC_PwdHash_replay.cfg", rp)
    cases = gen_cases(chk, rp.replays)
    events = judge(chk, cases, term)
    n_ev, keys, sets = 0, set(), set()
    for c, evs in zip(cases, events):
        for e in evs:
            if e.get("a") in ("Set", "Save", "Load", "Legacy"):
                n_ev += 1
            if e.get("a") == "Set" and e.get("outcome") == "ok":
                sets.add((e["kind"], e["pw"], e["obs"][e["kind"]]["salt"]))
        if any(s["a"] == "Set" for s in c["steps"]):
            keys.add(json.dumps([c["base"], c["steps"]], sort_keys=True))
    chk.evaluations = n_ev
    chk.nontrivial = keys
    chk.extra["set_password_calls_judged"] = len(sets)
    chk.extra["behaviours_enumerated_by_tlc"] = len(rp.replays)
    chk.rule = ("cases = every password class (empty, 1 char, ASCII, XML-special, Latin-1, Cyrillic, CJK, non-BMP, plane "
                "boundaries, control characters, NFD, 255/256/1000 characters) x every kind (2 sheets, workbook, revisions) "
                "x both writers, set twice; histories enumerated by TLC from PwdHash.tla with atoms bound to real "
                "passwords; seeded random histories with random Unicode passwords; corpus workbooks whose verifiers "
                "Excel wrote; the same calls in two processes.  distinct_nontrivial = distinct (base, step list) "
                "scripts containing at least one set-password call")
    for c, evs in list(zip(cases, events))[:2]:
        chk.sample({"script": {"base": c["base"], "steps": [{k: (v if not isinstance(v, str) or len(v) < 40 else v[:40] + "...")
                                                             for k, v in s.items() if k != "others"} for s in c["steps"]]},
                    "event": {k: v for k, v in evs[min(2, len(evs) - 1)].items() if k in ("a", "kind", "outcome", "obs")}})
    chk.sample({"verifier_term_emitted_by_tlc": term})
    chk.assumptions += [
        "hashlib's SHA-512 (and the other digests), base64 and UTF-16 codecs are correct; pydec/pwdhash_eval.py interprets "
        "the term language of PwdHash.tla faithfully (it is checked against three verifiers written by Excel for a known "
        "password in tests/test_files/sheet_lock.xlsx and book_lock.xlsx)",
        "the ECMA-376 verifier is H0 = H(salt || UTF-16LE(password)), Hk = H(H(k-1) || LE32(k-1)), hashValue = base64(H(spinCount))",
        "clear-text search: UTF-8, XML-escaped, UTF-16LE/BE forms of every password set so far, in entry names, archive comment, "
        "every decompressed part and every decoded XML attribute value/text, outside the verifier's own salt/hash values; "
        "the baseline is the same history with a decoy password (the empty password is not searched for)",
        "'any other password' is sampled: 2-3 near variants per call (truncated, case-swapped, normalised, extended, 15/255-"
        "character prefixes, empty)",
        "TLC's Json module and string equality are correct; zipfile/expat decode the package correctly",
    ]


def replay(chk, path):
    with open(path) as f:
        rp = json.load(f)
    term = get_term(chk, record=True)
    script = rp["script"]
    if script.get("family") == "anchor":
        judge(chk, [], term, with_anchors=True)
    else:
        judge(chk, [script], term, with_anchors=False)
