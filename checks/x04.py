"""X04 - number-format rendering beyond C19: sections, literals, placeholders, scaling, scientific, fractions, text, dates.

Spec: spec/NumFmt2.tla (EXTENDS NumFmt): format codes as section structures, Render(F, v, D) on digit sequences; a state
machine walks (catalogue format x odometer value x sign) pairs, one action per rendering rule (vacuity guard), invariants
tie the operators to integer arithmetic.  MC_NumFmt2.cfg / _thorough.cfg, MC_NumFmt2_deviant.cfg (must be refuted),
MC_NumFmt2_replay.cfg (prints the pairs the machine visits: they are replayed into the library).
Conformance: spec/Trace_NumFmt2.tla judges every recorded call (driver: harness/src/bin/numfmt2.rs).
"""
import json
from decimal import Decimal
import vlib

B = 96           # items per event

# --------------------------------------------------------------------------------------------------
# format structures (mirrors NumFmt2.tla: Sec0, Item; the code text is rebuilt by the specification: "gen" check)
# --------------------------------------------------------------------------------------------------
ZERO = {"neg": False, "int": [0], "frac": []}


def rec(s):
    neg = s.startswith("-")
    ip, _, fp = s.lstrip("-").partition(".")
    return {"neg": neg, "int": [int(c) for c in ip], "frac": [int(c) for c in fp]}


def item(t, c="", l=""):
    return {"t": t, "c": list(c), "l": list(l)}


def Q(s): return item("q", s)
def Bc(c): return item("b", c)
def Ec(c): return item("e", c)
def Pad(c): return item("pad", c)
def Fill(c): return item("fill", c)
def Cur(c, l): return item("cur", c, l)
PCT = item("pct")
AT = item("at")
def Tok(s): return item("d", s)
def El(s): return item("el", s)


def sec(k="num", pre=(), post=(), ip="", grp=False, sc=0, fp="", esign="+", ep="", np="", dp="", dfix="", up=False,
        color="", cop="", cval="0"):
    return {"color": list(color), "cop": list(cop), "cval": rec(cval), "k": k, "pre": list(pre), "post": list(post),
            "ip": list(ip), "grp": grp, "sc": sc, "fp": list(fp), "esign": esign, "ep": list(ep), "np": list(np),
            "dp": list(dp), "dfix": [int(c) for c in dfix], "up": up}


def num(ip, fp="", pre=(), post=(), grp=False, sc=0, **kw):
    return sec("num", pre, post, ip=ip, grp=grp, sc=sc, fp=fp, **kw)


def lit(items, **kw): return sec("lit", items, **kw)
def text(items, **kw): return sec("text", items, **kw)
def date(items, up=False, **kw): return sec("date", items, up=up, **kw)
def sci(ip, fp, esign, ep, pre=(), post=(), **kw): return sec("sci", pre, post, ip=ip, fp=fp, esign=esign, ep=ep, **kw)
def frac(ip, np, dp="", dfix="", pre=(), post=(), **kw): return sec("frac", pre, post, ip=ip, np=np, dp=dp, dfix=dfix, **kw)


def with_(s, **kw):
    s = dict(s)
    for k, v in kw.items():
        s[k] = rec(v) if k == "cval" else (list(v) if k in ("color", "cop") else v)
    return s


def item_text(it, up):
    t, c = it["t"], "".join(it["c"])
    if t == "q": return '"' + c + '"'
    if t == "e": return "\\" + c
    if t == "b": return c
    if t == "pad": return "_" + c
    if t == "fill": return "*" + c
    if t == "cur": return "[$" + c + "-" + "".join(it["l"]) + "]"
    if t == "pct": return "%"
    if t == "at": return "@"
    if t == "d": return c.upper() if up else c
    if t == "el": return "[" + (c.upper() if up else c) + "]"
    raise ValueError(t)


def num_text(r):
    return ("-" if r["neg"] else "") + "".join(map(str, r["int"])) + ("." + "".join(map(str, r["frac"])) if r["frac"] else "")


def sec_text(s):
    out = ""
    if s["color"]:
        out += "[" + "".join(s["color"]) + "]"
    if s["cop"]:
        out += "[" + "".join(s["cop"]) + num_text(s["cval"]) + "]"
    pre = "".join(item_text(i, s["up"]) for i in s["pre"])
    post = "".join(item_text(i, s["up"]) for i in s["post"])
    ip = "".join(s["ip"])
    if s["grp"]:
        ip = "".join(ch + ("," if i < len(ip) - 1 and (len(ip) - 1 - i) % 3 == 0 else "") for i, ch in enumerate(ip))
    fp = ("." + "".join(s["fp"])) if s["fp"] else ""
    if s["k"] == "num":
        return out + pre + ip + fp + "," * s["sc"] + post
    if s["k"] == "sci":
        return out + pre + "".join(s["ip"]) + fp + "E" + s["esign"] + "".join(s["ep"]) + post
    if s["k"] == "frac":
        den = "".join(map(str, s["dfix"])) if s["dfix"] else "".join(s["dp"])
        return out + pre + "".join(s["ip"]) + (" " if s["ip"] else "") + "".join(s["np"]) + "/" + den + post
    return out + pre


def fmt_text(secs):
    return ";".join(sec_text(s) for s in secs)


# --------------------------------------------------------------------------------------------------
# values
# --------------------------------------------------------------------------------------------------
def short(f):
    """what Rust's f64::to_string prints: shortest round-trip digits, positional"""
    t = format(Decimal(repr(float(f))), "f")
    if "." in t:
        t = t.rstrip("0").rstrip(".")
    return t


def canon(s):
    """canonical decimal string (<= 15 significant digits, shortest form) or None"""
    neg = s.startswith("-")
    ip, _, fp = s.lstrip("-").partition(".")
    ip = ip.lstrip("0") or "0"
    fp = fp.rstrip("0")
    sig = (ip + fp).lstrip("0")
    if ip == "0" and not fp:
        return "0"
    if len(sig.rstrip("0") if not fp else sig) > 15 or len(ip) > 15 or len(fp) > 15:
        return None
    t = ("-" if neg else "") + ip + ("." + fp if fp else "")
    if short(float(t)) != t:
        return None
    return t


def shift_dec(t, e):
    """|t| / 10^e as canonical decimal text"""
    d = Decimal(t.lstrip("-")).scaleb(-e)
    u = format(d, "f")
    if "." in u:
        u = u.rstrip("0").rstrip(".")
    return u


def exact_ok(t, secs):
    """the binary arithmetic the pinned code does on this value is exact where the deviant outcome depends on it"""
    a = abs(float(t))
    at = t.lstrip("-")
    for s in secs:
        if s["k"] == "num" and s["sc"] > 0 and short(a / (1e3 if s["sc"] == 1 else 1e6)) != shift_dec(t, 3 * s["sc"]):
            return False
        if s["k"] == "frac":
            ip, _, fp = at.partition(".")
            if len(ip) > 4 or len(fp) > 5 or short(a % 1.0) != ("0." + fp if fp else "0"):
                return False
        if s["k"] == "date" and any(i["t"] == "el" and "".join(i["c"]) == "h" for i in s["pre"]):
            want = format(Decimal(at) * 24, "f")
            if "." in want:
                want = want.rstrip("0").rstrip(".")
            if short(a * 24.0) != want:
                return False
    return True


def serial(day, h=0, m=0, s=0):
    sod = h * 3600 + m * 60 + s
    if sod == 0:
        return str(day)
    f = (Decimal(sod) / Decimal(86400)).quantize(Decimal(1).scaleb(-min(10, 15 - len(str(day)))))
    t = format(Decimal(day) + f, "f").rstrip("0").rstrip(".")
    return t


NUMVALS = ["0", "1", "5", "7", "12", "0.5", "0.05", "0.005", "0.4", "0.45", "0.995", "1.5", "2.5", "9.99", "99.5", "99.95",
           "100", "123", "999.5", "1000", "1234.5", "1234.567", "12345678", "0.125", "0.333", "1000000", "1500000",
           "12200000", "999999.5", "0.0001", "1234567.891", "0.999", "10", "0.1", "2.675", "1.005", "45.6", "500", "0.0049"]


def both(vals):
    out = []
    for v in vals:
        out.append(v)
        if v != "0":
            out.append("-" + v)
    return out


def num_item(t, secs):
    return {"kind": "num", "s": t, "fmt": fmt_text(secs), "x": rec(t), "sc": [], "tnum": False, "secs": secs}


def text_item(t, secs, numeric=False):
    return {"kind": "text", "s": t, "fmt": fmt_text(secs), "x": rec(t) if numeric else ZERO, "sc": list(t),
            "tnum": numeric, "secs": secs}


# --------------------------------------------------------------------------------------------------
# format families
# --------------------------------------------------------------------------------------------------
G4 = {"#,##0": ("###0", True), "#,###": ("####", True), "0,000": ("0000", True)}


def family_single():
    fs = []
    for ip in ["0", "00", "000", "#", "##0", "?0", "??0", "#0", "0000000"]:
        for fp in ["", "0", "00", "000", "#", "##", "0#", "0##", "?", "??", "0?", "0??", "00#"]:
            fs.append([num(ip, fp)])
    for ip in ["###0", "####", "0000", "#,###,##0".replace(",", "")]:
        for fp in ["", "0", "00", "0#"]:
            fs.append([num(ip, fp, grp=True)])
    for ip, grp in [("0", False), ("#", False), ("###0", True), ("000", False)]:
        for fp in ["", "0", "00", "0#"]:
            for sc in (1, 2):
                fs.append([num(ip, fp, grp=grp, sc=sc)])
    return fs


def family_literals():
    fs = []
    bodies = [("0", ""), ("0", "00"), ("###0", "0"), ("#", "##"), ("00", "0?")]
    decos = [
        ([Q("x")], []), ([], [Q("x")]), ([], [Bc(" "), Q("kg")]), ([Q("Total: ")], []), ([Ec("x")], []), ([], [Ec("k")]),
        ([], [Pad(")")]), ([Pad("(")], [Pad(")")]), ([Fill("-")], []), ([], [Fill(" ")]), ([Bc("(")], [Bc(")")]),
        ([Bc("-")], []), ([Bc("+")], []), ([Q("a")], [Q("b")]), ([Q("a"), Bc(" ")], [Bc(" "), Q("b")]),
        ([], [Bc(" "), Q("m"), Ec("x")]), ([Q("n: ")], [Pad("-"), Q("u")]), ([Bc("!")], [Bc(":")]), ([], [Q("days")]),
        ([], [Q("hms dy")]), ([Q("é")], [Q("€")]),
    ]
    for ip, fp in bodies:
        for pre, post in decos:
            fs.append([num(ip, fp, pre, post, grp=(ip == "###0"))])
    return fs


def family_currency():
    fs = []
    curs = [([Bc("$")], []), ([Q("$")], []), ([Ec("$")], []), ([Cur("€", "407"), Bc(" ")], []), ([], [Bc(" "), Cur("€", "407")]),
            ([Cur("$", "409")], []), ([], [Bc(" "), Q("€")]), ([Q("€"), Bc(" ")], []), ([Bc("$"), Fill(" ")], []),
            ([Cur("kr", "41D"), Bc(" ")], []), ([Bc("-"), Bc("$")], []), ([Cur("", "409")], []), ([Bc("$"), Bc(" ")], []),
            ([], [Bc("$")]), ([Pad("("), Bc("$")], [Pad(")")])]
    for ip, fp, grp in [("###0", "00", True), ("0", "0", False), ("0", "", False)]:
        for pre, post in curs:
            fs.append([num(ip, fp, pre, post, grp=grp)])
    # built-in style two-section currency formats
    for neg_pre, neg_post, color in [([Bc("("), Bc("$")], [Bc(")")], ""), ([Bc("-"), Bc("$")], [], "Red")]:
        fs.append([num("###0", "00", [Bc("$")], [Pad(")")], grp=True), num("###0", "00", neg_pre, neg_post, grp=True, color=color)])
    return fs


def family_percent():
    fs = []
    for ip, fp in [("0", ""), ("0", "0"), ("0", "00"), ("#", ""), ("00", "0"), ("0", "0#")]:
        fs.append([num(ip, fp, [], [PCT])])
        fs.append([num(ip, fp, [Q("p: ")], [PCT])])
        fs.append([num(ip, fp, [], [PCT, Q(" x")])])
        fs.append([num(ip, fp, [], [PCT]), num(ip, fp, [Bc("(")], [PCT, Bc(")")])])
        fs.append([num(ip, fp, [], [PCT]), num(ip, fp, [Bc("-")], [PCT])])
    return fs


def neg_variants(ip, fp, grp=False):
    return [num(ip, fp, [Bc("-")], [], grp=grp), num(ip, fp, [Bc("(")], [Bc(")")], grp=grp),
            num(ip, fp, [Bc("-")], [], grp=grp, color="Red"), num(ip, fp, [], [], grp=grp, color="Red"),
            num(ip, fp, [], [Q(" CR")], grp=grp), num(ip, fp, [Bc("("), Q("x")], [Bc(")")], grp=grp, color="Blue")]


def family_sections():
    fs = []
    for ip, fp, grp in [("0", "00", False), ("###0", "", True), ("0", "", False), ("#", "0#", False)]:
        pos = num(ip, fp, [], [], grp=grp)
        posp = num(ip, fp, [], [Pad(")")], grp=grp)
        for neg in neg_variants(ip, fp, grp):
            fs.append([pos, neg])
            fs.append([posp, neg])
            for zero in [lit([Q("zero")]), lit([Bc("-")]), lit([Q("-"), Pad(")")]), num("0", "0"), num("#", ""),
                         lit([Q("nil")], color="Green"), num("??", "", [Pad("("), Fill(" "), Q("-")], [Pad(")")])]:
                fs.append([pos, neg, zero])
            fs.append([pos, neg, lit([Q("zero")]), text([AT])])
            fs.append([pos, neg, num("0", "0"), text([Q("t: "), AT])])
        fs.append([pos, text([AT])])
        fs.append([pos, neg_variants(ip, fp, grp)[1], text([AT, Pad(")")])])
    # sections that differ in their digits (which section was used is visible whatever happens to the literals)
    for a, b, c in [(("0", "0"), ("0", "00"), ("0", "000")), (("0", ""), ("0", "0"), ("00", "00")), (("#", "0"), ("0", "000"), ("0", ""))]:
        fs.append([num(*a), num(*b)])
        fs.append([num(*a), num(*b), num(*c)])
        fs.append([num(*a), num(*b, pre=[Bc("-")]), num(*c), text([AT])])
        fs.append([num(*a), num(*b, pre=[Bc("-")]), num(*c, post=[Pad(")")]), text([Q("t: "), AT])])
    # accounting formats (built-in 41-44 style)
    acc = [num("###0", "", [Pad("("), Fill(" ")], [Pad(")")], grp=True),
           num("###0", "", [Pad("("), Fill(" "), Bc("(")], [Bc(")")], grp=True),
           num("??", "", [Pad("("), Fill(" "), Q("-")], [Pad(")")]),
           text([Pad("("), AT, Pad(")")])]
    fs.append(acc)
    fs.append(acc[:3])
    acc2 = [num("###0", "00", [Pad("("), Bc("$"), Fill(" ")], [Pad(")")], grp=True),
            num("###0", "00", [Pad("("), Bc("$"), Fill(" "), Bc("(")], [Bc(")")], grp=True),
            num("??", "", [Pad("("), Bc("$"), Fill(" "), Q("-")], [Pad(")")]),
            text([Pad("("), AT, Pad(")")])]
    fs.append(acc2)
    return fs


def family_cond():
    fs = []
    a, b, c = num("0", "0"), num("0", "00"), num("0", "")
    fs.append([with_(a, cop=">=", cval="100"), b])
    fs.append([with_(a, cop=">", cval="100"), b])
    fs.append([with_(c, cop="<", cval="0", pre=[Q("neg ")]), c])
    fs.append([with_(c, cop="=", cval="1", post=[Q(" item")]), with_(c, post=[Q(" items")])])
    fs.append([with_(a, cop="<>", cval="0"), lit([Q("nil")])])
    fs.append([with_(a, cop="<=", cval="0.5", color="Red"), with_(b, color="Blue")])
    fs.append([with_(a, cop="<=", cval="0.5", color="Blue"), with_(b, color="Green")])
    fs.append([with_(a, cop="<=", cval="0.5"), b])
    fs.append([with_(a, cop=">=", cval="-5"), with_(b, cop="<=", cval="-100"), c])
    fs.append([with_(num("###0", "", [], [Q("k")], grp=True, sc=1), cop=">", cval="1000"),
               with_(num("###0", "", [Bc("-")], [Q("k")], grp=True, sc=1), cop="<", cval="-1000"), c])
    fs.append([with_(a, cop=">=", cval="100"), with_(b, cop="<", cval="-1.5"), c])
    fs.append([with_(a, cop=">", cval="99.95"), with_(lit([Q("low")]), cop="<", cval="10"), b])
    fs.append([with_(c, cop="<", cval="-5", pre=[Bc("(")], post=[Bc(")")]), with_(c, cop=">", cval="5", pre=[Bc("+")]), lit([Q("~")])])
    return fs


def family_sci():
    fs = []
    for ip, fp, es, ep in [("0", "00", "+", "00"), ("0", "0", "+", "0"), ("0", "", "+", "0"), ("##0", "0", "+", "0"),
                           ("0", "000", "-", "00"), ("0", "0", "-", "0"), ("##0", "00", "-", "00"), ("0", "00", "+", "000")]:
        fs.append([sci(ip, fp, es, ep)])
    fs.append([sci("0", "00", "+", "00", [], [Q(" u")])])
    fs.append([sci("0", "0", "+", "0"), sci("0", "0", "+", "0", [Bc("(")], [Bc(")")])])
    fs.append([sci("0", "00", "+", "00"), sci("0", "00", "+", "00", [Bc("-")], []), lit([Q("0")]) if False else num("0", "")])
    return fs


def family_frac():
    fs = []
    for ip in ["#", "0", ""]:
        for np_, dp in [("?", "?"), ("??", "??"), ("?", "??")]:
            fs.append([frac(ip, np_, dp)])
    for ip in ["#", "0"]:
        for np_, d in [("?", "2"), ("?", "4"), ("?", "8"), ("??", "16"), ("??", "32"), ("?", "10"), ("??", "100")]:
            fs.append([frac(ip, np_, dfix=d)])
    fs.append([frac("#", "?", "?", post=[Q(" in")])])
    fs.append([frac("#", "?", "?"), frac("#", "?", "?", pre=[Bc("-")])])
    fs.append([frac("#", "??", "??"), frac("#", "??", "??", pre=[Bc("(")], post=[Bc(")")])])
    fs.append([frac("#", "?", dfix="8"), frac("#", "?", dfix="8", pre=[Bc("-")])])
    return fs


FRACVALS = ["0", "1", "2", "7", "0.5", "0.25", "0.75", "0.125", "0.375", "0.0625", "0.03125", "0.333", "0.3333", "0.33333",
            "0.667", "0.05", "0.005", "0.1", "0.2", "0.3", "0.7", "0.9", "0.95", "0.99", "0.999", "0.45", "0.142", "0.14286",
            "0.0101", "0.49", "0.51", "2.5", "2.25", "2.75", "1234.5", "3.125", "5.0625", "12.375", "99.875", "0.06", "0.94",
            "0.44", "0.56", "0.4375", "0.5625", "0.8", "0.6", "0.4", "0.01", "0.09", "0.11", "0.07", "0.93"]


def d(*items): return list(items)


Y4, Y2, MO, MO2, MO3, MO4, MO5 = Tok("yyyy"), Tok("yy"), Tok("m"), Tok("mm"), Tok("mmm"), Tok("mmmm"), Tok("mmmmm")
D1, D2, D3, D4, H1, H2, S1, S2 = Tok("d"), Tok("dd"), Tok("ddd"), Tok("dddd"), Tok("h"), Tok("hh"), Tok("s"), Tok("ss")
AMPM, AP = Tok("AM/PM"), Tok("A/P")
DASH, SL, CO, SP, CM = Bc("-"), Bc("/"), Bc(":"), Bc(" "), Bc(",")


def family_date():
    cal = [
        d(Y4, DASH, MO2, DASH, D2), d(D1, DASH, MO3, DASH, Y2), d(MO, SL, D1, SL, Y4), d(MO2, SL, D2, SL, Y2),
        d(D2, SL, MO2, SL, Y4), d(D4, CM, SP, MO4, SP, D1, CM, SP, Y4), d(D3, SP, D1, SP, MO3), d(MO3, DASH, Y2),
        d(MO5), d(MO5, DASH, Y2), d(Y4, Q("Year")), d(Y4, Ec("-"), MO2, Ec("-"), D2), d(Q("Date: "), D1, SL, MO, SL, Y4),
        d(MO, SL, D1, SL, Y4, SP, H1, CO, MO2), d(Y4, DASH, MO2, DASH, D2, SP, H2, CO, MO2, CO, S2),
        d(Y4, DASH, MO2, DASH, D2, Q(" at "), H2, CO, MO2), d(D1, SL, MO, SL, Y2, SP, H1, CO, MO2, SP, AMPM),
        d(MO4, SP, Y4), d(D2, Bc("."), MO2, Bc("."), Y4) if False else d(D2, SP, MO4, SP, Y4),
    ]
    clock = [
        d(H1, CO, MO2), d(H1, CO, MO2, CO, S2), d(H2, CO, MO2, CO, S2), d(H1, CO, MO2, SP, AMPM), d(H1, CO, MO2, CO, S2, SP, AMPM),
        d(H2, CO, MO2, SP, AMPM), d(MO2, CO, S2), d(H1, CO, MO2, CO, S2, SP, AP), d(H1, SP, AMPM), d(H1, Q("h "), MO2, Q("m")),
        d(H2, Q("h"), MO2), d(H1, CO, MO), d(H1, CO, MO, CO, S1), d(H1, CO, MO2, CO, S1), d(MO, Q(" min "), S2, Q(" s")),
        d(H2, MO2, S2) if False else d(H2, Bc("-"), MO2, Bc("-"), S2), d(S2), d(H1),
    ]
    elapsed = [d(El("h"), CO, MO2, CO, S2), d(El("h"), CO, MO2), d(El("h")), d(El("mm"), CO, S2), d(El("m")), d(El("s")),
               d(El("ss")), d(El("m"), CO, S2)]
    fs = [("cal", [date(x)]) for x in cal] + [("clock", [date(x)]) for x in clock] + [("el", [date(x)]) for x in elapsed]
    fs.append(("cal", [date(d(Y4, DASH, MO2, DASH, D2), up=True)]))
    fs.append(("cal", [date(d(D2, SL, MO2, SL, Y4, SP, H2, CO, MO2), up=True)]))
    fs.append(("cal", [date(d(MO2, SL, D2, SL, Y2)), text([AT])]))
    fs.append(("cal", [date(d(Y4, DASH, MO2, DASH, D2), color="Red")]))
    return fs


CALVALS = [serial(61), serial(45435), serial(44349, 5, 4, 2), serial(44349, 18, 0, 0), serial(25569), serial(36526, 0, 0, 1),
           serial(36525, 23, 59, 59), serial(40000, 12, 0, 0), serial(2958464, 11, 59, 59), serial(73050, 0, 30, 0),
           serial(45291, 12, 30, 15), serial(45292, 0, 0, 0), serial(45351, 13, 5, 9), serial(45352, 9, 9, 9),
           serial(401769), serial(100, 6, 0, 0), serial(44197, 0, 59, 59), serial(44561, 23, 0, 0)]
CLOCKVALS = ["0.25", "0.5", "0.75", "1.53125", "0", "2", "0.125", "1.5", "10.75", serial(0, 5, 4, 2), serial(1, 13, 59, 59),
             serial(0, 12, 0, 0), serial(0, 12, 0, 1), serial(0, 11, 59, 59), serial(3, 0, 0, 1), serial(0, 23, 59, 59),
             serial(0, 0, 0, 59), serial(0, 0, 1, 0), serial(7, 7, 7, 7), "1.52", "0.7"]


ELVALS = ["100.53125", "61.75", "1000.125", "367.5", "61", serial(100, 6, 0, 0), serial(1000, 13, 59, 59), serial(19999, 23, 59, 59),
          serial(61, 0, 0, 1), serial(400, 0, 1, 0), serial(777, 7, 7, 7), serial(90, 12, 0, 0), "250.7", "99.999"]


def family_text():
    fs = [[text([AT])], [text([Q("t: "), AT])], [text([AT, Q(" kg")])], [text([AT, Bc(" "), AT])],
          [num("0", "00"), text([AT])], [num("0", "00"), num("0", "00", [Bc("-")]), num("0", ""), text([Q("["), AT, Q("]")])],
          [num("0", "00"), num("0", "00", [Bc("-")]), lit([Q("zero")]), text([AT, Pad(")")])],
          [num("0", "00")], [num("###0", "", grp=True), num("###0", "", [Bc("(")], [Bc(")")], grp=True)],
          [num("0", "", [], [PCT])], [date(d(Y4, DASH, MO2, DASH, D2))], [num("0", "00"), text([Q("text: "), AT])]]
    return fs


TEXTVALS = ["abc", "a b", "x", "N/A", "12 kg", "1,5", "ä€", "TRUE", "#N/A", "=1+1", "0x10", "1e", "--1", "hello world"]
NUMTEXTS = ["12", "1.5", "-3", "0", "1234.5", "-0.5", "45435"]


# --------------------------------------------------------------------------------------------------
# random composition
# --------------------------------------------------------------------------------------------------
def rand_number(rng):
    m = rng.choice(["int", "small", "frac", "big", "half", "nines"])
    if m == "int":
        t = str(rng.randint(0, 99999))
    elif m == "small":
        t = "0." + "0" * rng.randint(0, 3) + str(rng.randint(1, 999))
    elif m == "frac":
        t = str(rng.randint(0, 9999)) + "." + str(rng.randint(0, 99999)).rjust(rng.randint(1, 5), "0")
    elif m == "big":
        t = str(rng.randint(1, 9)) + "".join(rng.choice("0123456789") for _ in range(rng.randint(5, 11)))
    elif m == "half":
        t = str(rng.randint(0, 999)) + "." + "".join(rng.choice("0123456789") for _ in range(rng.randint(0, 3))) + "5"
    else:
        t = "9" * rng.randint(1, 5) + "." + "9" * rng.randint(1, 4) + rng.choice(["", "4", "5", "6"])
    t = canon(t)
    if t is None:
        return "1.5"
    if rng.random() < 0.35 and t != "0":
        t = "-" + t
    return t


def rand_lit(rng):
    return rng.choice([Q("x"), Q(" kg"), Q("Total "), Bc(" "), Bc("("), Bc(")"), Bc("-"), Bc("+"), Ec("x"), Ec("k"),
                       Pad(")"), Pad("-"), Fill(" "), Fill("-"), Q("€"), Q("a b")])


def rand_num_sec(rng, allow_pct=True):
    grp = rng.random() < 0.3
    ip = rng.choice(["###0", "####", "0000"]) if grp else rng.choice(["0", "00", "000", "#", "##0", "?0", "#0", "??0"])
    fp = rng.choice(["", "", "0", "00", "000", "#", "##", "0#", "0##", "?", "0?", "0??"])
    sc = rng.choice([0, 0, 0, 1, 2])
    pre = [rand_lit(rng) for _ in range(rng.choice([0, 0, 1, 1, 2]))]
    post = [rand_lit(rng) for _ in range(rng.choice([0, 0, 1, 1, 2]))]
    if allow_pct and rng.random() < 0.15:
        grp, sc = False, 0
        ip = rng.choice(["0", "00", "#", "#0"])
        fp = rng.choice(["", "0", "00", "0#"])
        post = [PCT] + (post[:1] if rng.random() < 0.3 else [])
    if rng.random() < 0.15 and not any(i["t"] == "pct" for i in post):
        cur = rng.choice([[Bc("$")], [Q("$")], [Cur("€", "407"), Bc(" ")], [Cur("$", "409")]])
        if rng.random() < 0.7:
            pre = cur + pre[:1]
        else:
            post = post[:1] + [Bc(" ")] + cur[:1]
    if sc and (fp or ip)[-1] == "?":
        sc = 0
    color = rng.choice(["", "", "", "Red", "Blue", "Green"])
    return num(ip, fp, pre, post, grp=grp, sc=sc, color=color)


def rand_format(rng):
    n = rng.choice([1, 1, 2, 2, 3, 3, 4])
    if rng.random() < 0.2:
        # conditional
        a = with_(rand_num_sec(rng), cop=rng.choice([">", ">=", "<", "<=", "=", "<>"]), cval=rng.choice(["0", "1", "100", "-5", "0.5", "1000", "99.95"]))
        if rng.random() < 0.5:
            return [a, rand_num_sec(rng)]
        b = with_(rand_num_sec(rng), cop=rng.choice([">", ">=", "<", "<="]), cval=rng.choice(["0", "-1", "10", "-100", "2.5"]))
        return [a, b, rand_num_sec(rng)]
    secs = [rand_num_sec(rng)]
    if n >= 2:
        secs.append(rand_num_sec(rng))
    if n >= 3:
        secs.append(rng.choice([lit([Q("zero")]), lit([Bc("-")]), lit([Q("-"), Pad(")")]), rand_num_sec(rng, False)]))
    if n == 4 or (n < 4 and rng.random() < 0.15):
        secs.append(text(rng.choice([[AT], [Q("t: "), AT], [Pad("("), AT, Pad(")")], [AT, Q(" x")]])))
    return secs


# --------------------------------------------------------------------------------------------------
def fixed_items():
    """one deterministic witness per recorded finding (and their correct neighbours): always driven"""
    P = num("0", "00")
    out = [
        num_item("-1234.5", [P, num("0", "00", [Bc("(")], [Bc(")")])]),                      # KF1
        num_item("1234.5", [P, num("0", "00", [Bc("(")], [Bc(")")])]),
        num_item("5", [num("0", "0", [], [Bc(" "), Q("kg")])]),                               # KF1
        num_item("5", [num("0", "00", [Cur("\u20ac", "407"), Bc(" ")], [])]),                   # KF2
        num_item("-0.5", [num("###0", "00", [Bc("$")], [], grp=True)]),                       # KF2
        num_item("5", [num("000", "")]), num_item("0", [num("#", "")]), num_item("1234", [num("000", "")]),   # KF3
        num_item("1.5", [num("0", "0#")]), num_item("1.25", [num("0", "0#")]),                # KF4
        num_item("1.25", [num("0", "??")]), num_item("1.25", [num("0", "0?")]),               # KF5
        num_item("-0.5", [num("0", "", [], [PCT]), num("0", "", [Bc("(")], [PCT, Bc(")")])]),  # KF6
        num_item("0.5", [num("0", "", [], [PCT])]),
        num_item("0", [num("0", "0"), num("0", "0", [Bc("(")], [Bc(")")]), lit([Q("zero")])]),  # KF7
        num_item("5", [num("0", "00", [Q("$")], [Q(" USD")])]),                               # KF7
        num_item("1234.5", [sci("0", "00", "+", "00")]), num_item("0.00012", [sci("##0", "0", "+", "0")]),   # KF8
        num_item("0.333", [frac("#", "?", "?")]), num_item("0.05", [frac("#", "?", "?")]), num_item("2.5", [frac("#", "?", "?")]),  # KF9
        num_item("2.75", [frac("#", "?", dfix="8")]),                                          # KF10
        text_item("abc", [text([Q("t: "), AT])]), text_item("abc", [P]),                      # KF11
        text_item("12", [P], numeric=True),                                                    # KF12
        num_item("-5", [P, text([AT])]), num_item("5", [P, text([AT])]),                       # KF13
        num_item("0", [num("0", ""), num("0", "", [Bc("-")]), lit([Bc("-")])]),                # KF14
        num_item(serial(44349, 12, 45, 0), [date(d(H1, Q("h "), MO2, Q("m")))]),               # KF15
        num_item("1.53125", [date(d(El("h"), CO, MO2, CO, S2))]), num_item("1.5", [date(d(El("h"), CO, MO2, CO, S2))]),  # KF16
        num_item("100.25", [date(d(El("mm"), CO, S2))]), num_item("0.25", [date(d(El("s")))]),  # KF17
        num_item("45351", [date(d(MO5))]),                                                     # KF18
        num_item("0.75", [date(d(H1, CO, MO2, CO, S2, SP, AP))]),                              # KF19  (no m as month: colon)
        num_item("45435", [date(d(Y4, DASH, MO2, DASH, D2), up=True)]), num_item("45435", [date(d(Y4, DASH, MO2, DASH, D2))]),  # KF20
        num_item(serial(100, 5, 4, 2), [date(d(H1, CO, MO2, CO, S1))]),                        # KF21
        num_item("50", [with_(num("0", "0"), color="Red", cop="<=", cval="100"), with_(num("0", "00"), color="Blue")]),  # KF22
        num_item("12200000", [num("0", "0", sc=2)]), num_item("1234567", [num("###0", "", grp=True, sc=1)]),
    ]
    for it in out:
        if it["kind"] == "num":
            assert exact_ok(it["s"], it["secs"]), it["fmt"]
    return out


QUICK_CAP = {"single": 500, "literals": 300, "currency": 220, "percent": 180, "sections": 550, "cond": 160, "sci": 200,
             "frac": 300, "date": 450, "text": 219, "tlc": 400, "random": 450}


THOROUGH_CAP = {"single": 8000, "literals": 5000, "sections": 10000, "random": 12000}


def gen_items(chk, replays):
    rng = chk.rng
    quick = chk.tier == "quick"
    fam_items = {}

    def add(fam, t, secs):
        if exact_ok(t, secs):
            fam_items.setdefault(fam, []).append(num_item(t, secs))

    allv = both(NUMVALS)
    for fam, fs in [("single", family_single()), ("literals", family_literals()), ("currency", family_currency()),
                    ("percent", family_percent()), ("sections", family_sections()), ("cond", family_cond())]:
        for secs in fs:
            base = ["0", "5", "-5", "1234.5", "-1234.5", "0.5", "-0.4"] if fam != "cond" else ["0", "100", "-1.5", "1", "99.95", "-5", "5", "0.5", "1000", "-1000", "10", "-100", "100.5", "0.51"]
            for t in dict.fromkeys(base + (rng.sample(allv, 10) if quick else allv)):
                add(fam, t, secs)
    scivals = both(["0", "1", "5", "12", "123", "1234.5", "0.5", "0.05", "0.00012", "999.96", "99996", "9.995", "0.09995",
                    "123456789", "1000000", "999999999999999", "0.0000001", "1500", "0.001", "100", "99.95", "9.5", "0.95"])
    for secs in family_sci():
        for t in scivals:
            add("sci", t, secs)
    for secs in family_frac():
        wide = any(len(s["dp"]) > 1 for s in secs)          # two-digit denominators: 99 candidates per rendering
        for t in (rng.sample(both(FRACVALS), 16) if quick and wide else both(FRACVALS)):
            add("frac", t, secs)
    for kind, secs in family_date():
        # a section in which an m could be (or is, by the pinned code) a month needs a real calendar day
        pre = secs[0]["pre"]
        colon = lambda j: 0 <= j < len(pre) and pre[j]["t"] in ("b", "e") and pre[j]["c"] == [":"]
        monthy = any(i["t"] == "el" and "".join(i["c"]) in ("m", "mm") or
                     i["t"] == "d" and ("".join(i["c"]) == "m" or "".join(i["c"]) == "mm" and not (colon(j - 1) or colon(j + 1)))
                     for j, i in enumerate(pre))
        if kind == "cal":
            vals = CALVALS
        elif kind == "clock":
            vals = CALVALS + ELVALS if monthy else CLOCKVALS + CALVALS[:6]
        else:
            vals = ELVALS if monthy else CLOCKVALS + ELVALS
        for t in vals:
            if kind == "el" and float(t) >= 20000:
                continue
            add("date", t, secs)
    for secs in family_text():
        for t in TEXTVALS:
            fam_items.setdefault("text", []).append(text_item(t, secs))
        if secs[-1]["k"] != "text" or len(secs) > 1:
            for t in NUMTEXTS:
                if secs[0]["k"] == "date" and float(t) < 61:
                    continue
                if exact_ok(t, secs):
                    fam_items["text"].append(text_item(t, secs, numeric=True))
    # the (format, value) pairs the TLC model visited
    for r in replays:
        if any(s["k"] == "date" for s in r["secs"]):
            continue                       # the model reads its counter as a serial for date sections: driven above
        add("tlc", num_text(r["x"]), r["secs"])
    # random compositions
    for _ in range(400 if quick else 6000):
        secs = rand_format(rng)
        for _ in range(3):
            add("random", rand_number(rng), secs)
    items = fixed_items()
    stats = {"fixed": len(items)}
    for fam, its in fam_items.items():
        cap = QUICK_CAP[fam] if quick else THOROUGH_CAP.get(fam, len(its))
        if len(its) > cap:
            its = rng.sample(its, cap)
        stats[fam] = len(its)
        items += its
    chk.extra["items_by_family"] = stats
    return items


def batches(items):
    cases = [{"a": "render", "items": items[i:i + B]} for i in range(0, len(items), B)]
    for i, c in enumerate(cases):
        c["case"] = i
    return cases


def describe(case, ev, detail):
    return f"batch of {len(case['items'])}: {detail}"


def validate(chk, events, tag):
    out = vlib.validate("Trace_NumFmt2", "Trace_NumFmt2.cfg", events, chk.open_ids, tag, chunk_events=8, jobs=4)
    for ci, off, detail in out["mismatch"]:
        if detail.startswith('<<"gen"'):
            m = vlib.re.match(r'<<"gen", (\d+)', detail)
            its = events[ci][0].get("items", [])
            it = its[int(m.group(1)) - 1] if m and int(m.group(1)) <= len(its) else {}
            raise vlib.ToolError("generator/driver facts and specification disagree: " + detail[:300] + " item " +
                                 json.dumps({k: it.get(k) for k in ("kind", "s", "fmt", "out", "rt", "fr1", "h24", "dv")}))
    return out


def brief(it):
    return {k: it[k] for k in ("kind", "s", "fmt", "out", "outws", "outcell", "outcome") if k in it}


def judge(chk, cases, shrink=True):
    events = vlib.run_cases("numfmt2", cases, timeout=120, jobs=4)
    out = validate(chk, events, "x04")
    bad = sorted({ci for ci, _off, _d in out["mismatch"]})
    if shrink and bad:
        explode = bad[:6]
        single = []
        for ci in explode:
            for it in cases[ci].get("items", []):
                single.append({"a": "render", "items": [it], "case": len(single)})
        if single:
            ev2 = vlib.run_cases("numfmt2", single, timeout=60, jobs=4)
            out2 = validate(chk, ev2, "x04s")
            if out2["mismatch"]:
                keep = [i for i in range(len(cases)) if i not in explode]
                pos = {ci: j for j, ci in enumerate(keep)}
                out1 = {"mismatch": [(pos[ci], off, dd) for ci, off, dd in out["mismatch"] if ci in pos],
                        "kf": out["kf"], "events": out["events"], "states": out["states"]}
                chk.process_validation(out1, [cases[i] for i in keep], [events[i] for i in keep], "numfmt2", describe)
                out2["kf"] = []

                def one(c, e, dd):
                    o = e["items"][0] if e and e.get("items") else {}
                    return f"value {c['items'][0]['s']!r} format {c['items'][0]['fmt']!r}: got {o.get('out')!r} ({o.get('outcome')}), spec {dd}"
                chk.process_validation(out2, single, ev2, "numfmt2", one)
                return events
    chk.process_validation(out, cases, events, "numfmt2", describe)
    return events


MUST_TAKE = ["RPositive", "RNegative", "RZero", "RAutoSign", "RCondFirst", "RCondSecond", "RCondElse", "RPadInt", "RWideInt",
             "RDropFrac", "RBlankFrac", "RScale", "RPercent", "RGroup", "RLiteral", "RSci", "RSciCarry", "RSciNegExp", "RFrac",
             "RFracCarry", "RFracFix", "RDate"]


def run(chk):
    quick = chk.tier == "quick"
    # (1) the invariants, exhaustively on the model's (format, value, sign) triples.  Coverage statistics are switched
    #     off here (they cost a factor of four on the recursive rendering operators) ...
    vlib.tlc_mc("MC_NumFmt2", "MC_NumFmt2.cfg" if quick else "MC_NumFmt2_thorough.cfg", workers=4, check=chk, timeout=7200,
                coverage=False)
    # (2) ... and collected by a second run of the same machine without the invariants: every rule must be taken; this
    #     run also prints the (format, value) pairs it visits: they are replayed into the library
    rp = vlib.tlc_mc("MC_NumFmt2", "MC_NumFmt2_replay.cfg", workers=4, must_take=MUST_TAKE, check=chk, timeout=3600)
    if rp is None:                                           # VERIF_DEBUG_SKIP_MC
        rp = vlib.run_tlc("MC_NumFmt2", "MC_NumFmt2_replay.cfg", workers=4, timeout=3600, coverage=False)
    else:
        # (3) vacuity guard: a design that drops the literals must be refuted by LiteralsKept
        r = vlib.run_tlc("MC_NumFmt2", "MC_NumFmt2_deviant.cfg", workers=4, timeout=1800, coverage=False)
        if r.ok or not (r.violation and "LiteralsKept" in r.violation):
            raise vlib.ToolError(f"the deviant design (literals dropped) was not refuted by LiteralsKept: {r.violation}")
        vlib.log(f"[tlc] MC_NumFmt2 deviant design refuted as required: {r.violation}")
    if not rp.ok or not rp.replays:
        raise vlib.ToolError(f"the replay run of MC_NumFmt2 failed: rc={rp.rc} {rp.violation}")
    vlib.log(f"[tlc] MC_NumFmt2 replay: {len(rp.replays)} (format, value) pairs")
    chk.extra["tlc_pairs"] = len(rp.replays)
    items = gen_items(chk, rp.replays)
    cases = batches(items)
    events = judge(chk, cases)
    keys = {(it["kind"], it["s"], it["fmt"]) for it in items}
    chk.evaluations = len(items)
    chk.nontrivial = keys
    chk.extra["distinct_formats"] = len({it["fmt"] for it in items})
    chk.rule = ("distinct (value, format code) pairs; format codes are built from section structures (1-4 sections, colour and "
                "condition brackets, quoted / escaped / bare literals, _x padding, *x fill, [$cur-lcid], 0 # ? placeholders, "
                "grouping, scaling commas, %, E+/E-, ?/? and fixed-denominator fractions, @, date/time tokens incl. AM/PM and "
                "[h] [m] [s]); values are decimal strings with <= 15 significant digits around the rounding, padding, "
                "grouping, scaling, exponent-carry and fraction-tie boundaries, both signs; serials with whole-second times; "
                "text and numeric text; plus the pairs enumerated by the TLC model and random compositions")
    want = [("1234.5", "0.00;(0.00)"), ("-1234.5", "0.00;(0.00)"), ("5", "000"), ("0.333", "# ?/?"), ("1234.5", "0.00E+00"),
            ("45435", "yyyy-mm-dd"), ("1.53125", "[h]:mm:ss"), ("12200000", "0.0,,")]
    for evs in events:
        for it in evs[0].get("items", []):
            if (it.get("s"), it.get("fmt")) in want:
                want.remove((it["s"], it["fmt"]))
                chk.sample(brief(it), limit=8)
    chk.assumptions += [
        "Rust's f64 Display prints the shortest decimal string that round-trips (the driver logs s == parse(s).to_string(); "
        "the trace specification requires it)",
        "where the deviant outcome of a recorded finding is a function of binary arithmetic (x/1000^n, x*24, |x| % 1) only "
        "values for which that arithmetic is exact are driven; the driver logs the std results and the trace specification "
        "compares them with its own decimal arithmetic",
        "times of day are whole seconds written with 10 decimals; serials >= 61 for calendar tokens",
        "outputs are compared modulo leading/trailing blanks (fraction formats: modulo runs of blanks); the case of the "
        "AM/PM marker and the sign of a negative number under a conditional section are not demanded",
        "TLC's string concatenation and the CommunityModules Json reader/writer are correct"]


def replay(chk, path):
    with open(path) as f:
        rp = json.load(f)
    script = rp["script"]
    script.setdefault("case", 0)
    judge(chk, [script], shrink=False)
