"""C12 - a saved file contains only content of the workbook being saved.

Spec: spec/SST.tla.  MC_SST.cfg checks OnlyReachable / Decodes / SaveIsPure for the intended design
(table private to a save); MC_SST_deviant.cfg must be *refuted* by TLC (shared append-only table:
the design of the tree before the repair) - that run shows the invariant is not vacuous.
Every behaviour of depth 4 that ends in a save, and seeded random histories, are run on the real
library (harness/src/bin/sst.rs); each written file is projected by pydec/sst_view.py (all parts
searched for every string of the universe) and Trace_SST.tla judges.
"""
import json
import vlib
from pydec import sst_view

UNIVERSE = ["Qa7x", "Qb7x", "Qc7x", "Qd7x"]


def safe_random_history(rng, n):
    """random_history with exact tracking of has2 across Save/Reload."""
    steps = [{"a": "Init"}]
    has2, file_has2, raw = [True], [None], [set()]
    for _ in range(n):
        w = rng.randrange(len(has2)) + 1
        k = rng.random()
        if k < 0.35:
            sh = rng.choice([1, 1, 2]) if has2[w - 1] else 1
            steps.append({"a": "SetText", "w": w, "sh": sh, "r": 1 if sh == 2 else rng.choice([1, 2]),
                          "s": rng.choice(UNIVERSE), "rich": rng.random() < 0.35})
            raw[w - 1].discard(sh)
        elif k < 0.45:
            sh = rng.choice([1, 2]) if has2[w - 1] else 1
            steps.append({"a": "Delete", "w": w, "sh": sh, "r": 1 if sh == 2 else rng.choice([1, 2])})
            raw[w - 1].discard(sh)
        elif k < 0.50:
            steps.append({"a": "RemoveRow", "w": w, "r": rng.choice([1, 2])})
            raw[w - 1].clear()
        elif k < 0.54:
            if has2[w - 1]:
                steps.append({"a": "RemoveSheet", "w": w})
                has2[w - 1] = False
                raw[w - 1].discard(2)
        elif k < 0.58:
            if raw[w - 1]:
                sh = rng.choice(sorted(raw[w - 1]))
                steps.append({"a": "ReadSheet", "w": w, "sh": sh})
                raw[w - 1].discard(sh)
        elif k < 0.67:
            if len(has2) < 8:
                steps.append({"a": "Clone", "w": w})
                has2.append(has2[w - 1])
                file_has2.append(None)
                raw.append(set(raw[w - 1]))
        elif k < 0.88:
            steps.append({"a": "Save", "w": w, "light": rng.random() < 0.3})
            file_has2[w - 1] = has2[w - 1]
        elif file_has2[w - 1] is not None and len(has2) < 8:
            lazy = rng.random() < 0.6
            steps.append({"a": "Reload", "w": w, "lazy": lazy})
            has2.append(file_has2[w - 1])
            file_has2.append(None)
            raw.append(({1, 2} if file_has2[w - 1] else {1}) if lazy else set())
    steps.append({"a": "Save", "w": rng.randrange(len(has2)) + 1})
    return steps


def project(events):
    """Replace the raw bytes of every Save by the independent decoder's view."""
    for evs in events:
        for e in evs:
            if "hex" in e:
                hx = e.pop("hex")
                if e.get("a") == "Save":
                    if e.get("outcome") == "ok" and hx:
                        try:
                            e["view"] = sst_view.view(bytes.fromhex(hx), UNIVERSE)
                        except Exception as ex:                       # unreadable package: data, not a tool error
                            e["view"] = {"wellformed": False, "present": [], "sst": [], "has_part": False,
                                         "has_rel": False, "has_ct": False, "sheets": [], "bad_index": 0}
                            e["decoder_error"] = str(ex)[:200]
                    else:
                        e["view"] = {"wellformed": False, "present": [], "sst": [], "has_part": False,
                                     "has_rel": False, "has_ct": False, "sheets": [], "bad_index": 0}
    return events


def gen_cases(chk):
    quick = chk.tier == "quick"
    r = vlib.run_tlc("MC_SST", "MC_SST_replay.cfg", workers=4, coverage=False)
    if not r.ok or not r.replays:
        raise vlib.ToolError("replay generation failed: " + (r.violation or r.out[-400:]))
    cases = []
    for rp in r.replays:
        # text cells are written as plain or as rich text (two runs): same string, other kind of table item
        for st in rp:
            if st.get("a") == "SetText":
                st["rich"] = chk.rng.random() < 0.3
        cases.append({"steps": rp})
    n1 = len(cases)
    for _ in range(300 if quick else 20000):
        cases.append({"steps": safe_random_history(chk.rng, chk.rng.randint(4, 25))})
    # the three-step counterexample TLC finds for the shared-table design, and its variants
    cases.append({"steps": [{"a": "Init"}, {"a": "SetText", "w": 1, "sh": 1, "r": 1, "s": "Qa7x"}, {"a": "Save", "w": 1},
                            {"a": "SetText", "w": 1, "sh": 1, "r": 1, "s": "Qb7x"}, {"a": "Save", "w": 1}]})
    cases.append({"steps": [{"a": "Init"}, {"a": "Clone", "w": 1}, {"a": "SetText", "w": 2, "sh": 1, "r": 1, "s": "Qa7x"},
                            {"a": "Save", "w": 2}, {"a": "Save", "w": 1}]})
    # several different rich texts in one save, rich next to plain text with the same characters
    cases.append({"steps": [{"a": "Init"}, {"a": "SetText", "w": 1, "sh": 1, "r": 1, "s": "Qa7x", "rich": True},
                            {"a": "SetText", "w": 1, "sh": 1, "r": 2, "s": "Qb7x", "rich": True},
                            {"a": "SetText", "w": 1, "sh": 2, "r": 1, "s": "Qc7x", "rich": True}, {"a": "Save", "w": 1},
                            {"a": "Clone", "w": 1}, {"a": "Save", "w": 2, "light": True}]})
    cases.append({"steps": [{"a": "Init"}, {"a": "SetText", "w": 1, "sh": 1, "r": 1, "s": "Qa7x", "rich": False},
                            {"a": "SetText", "w": 1, "sh": 1, "r": 2, "s": "Qa7x", "rich": True},
                            {"a": "SetText", "w": 1, "sh": 2, "r": 1, "s": "Qb7x", "rich": True}, {"a": "Save", "w": 1},
                            {"a": "Reload", "w": 1, "lazy": False}, {"a": "Save", "w": 2}]})
    # lazily reopened workbook, one sheet edited while the other stays raw (exercises C12-KF1 and the
    # carry-over path: double save, clone isolation, strings of earlier saves)
    base = [{"a": "Init"}, {"a": "SetText", "w": 1, "sh": 1, "r": 1, "s": "Qa7x"}, {"a": "SetText", "w": 1, "sh": 2, "r": 1, "s": "Qb7x"},
            {"a": "Save", "w": 1}, {"a": "Reload", "w": 1, "lazy": True}]
    cases.append({"steps": base + [{"a": "SetText", "w": 2, "sh": 1, "r": 1, "s": "Qc7x"}, {"a": "Save", "w": 2}, {"a": "Save", "w": 2},
                                   {"a": "SetText", "w": 2, "sh": 1, "r": 1, "s": "Qd7x"}, {"a": "Save", "w": 2}]})
    cases.append({"steps": base + [{"a": "ReadSheet", "w": 2, "sh": 1}, {"a": "Clone", "w": 2}, {"a": "SetText", "w": 3, "sh": 1, "r": 2, "s": "Qd7x"},
                                   {"a": "Save", "w": 3}, {"a": "Save", "w": 2}, {"a": "Save", "w": 3}]})
    chk.extra["cases"] = {"tlc_paths_depth4_ending_in_save": n1, "random_histories": len(cases) - n1}
    for i, c in enumerate(cases):
        c["case"] = i
    return cases


def describe(case, ev, detail):
    if ev is None:
        return detail
    return f"step {json.dumps({k: v for k, v in ev.items() if k not in ('texts', 'view')})}: {detail}"


def judge(chk, cases):
    events = project(vlib.run_cases("sst", cases, timeout=30))
    out = vlib.validate("Trace_SST", "Trace_SST.cfg", events, chk.open_ids, "c12", chunk_events=3000)
    first = {}
    for ci, off, detail in out["mismatch"]:
        if ci not in first or off < first[ci][0]:
            first[ci] = (off, detail)
    for ci, (off, detail) in first.items():
        if detail.startswith('<<"gen"'):
            raise vlib.ToolError(f"generator produced an out-of-contract step (case {ci}, step {off}): {detail}")
    chk.process_validation(out, cases, events, "sst", describe)
    return events


def run(chk):
    vlib.tlc_mc("MC_SST", "MC_SST.cfg" if chk.tier == "quick" else "MC_SST_thorough.cfg", workers=6, check=chk,
                must_take=None, timeout=3000)
    dev = vlib.run_tlc("MC_SST", "MC_SST_deviant.cfg", workers=2, coverage=False)
    if dev.violation is None or "OnlyReachable" not in dev.violation:
        raise vlib.ToolError("TLC did not refute OnlyReachable for the shared-table design: the invariant would be vacuous")
    chk.extra["deviant_design_refuted"] = dev.violation
    cases = gen_cases(chk)
    events = judge(chk, cases)
    chk.evaluations = len(cases)
    chk.nontrivial = {json.dumps(c["steps"], sort_keys=True) for c in cases if any(s["a"] == "Save" for s in c["steps"])}
    chk.rule = ("a case is a history of set/overwrite/delete text, remove row, remove sheet, clone, save (standard or "
                "light), reload over up to 8 workbook objects; all histories of 4 operations ending in a save (TLC) plus "
                "seeded random histories of 4..25 operations; non-trivial = contains a save; distinct step lists")
    chk.sample({"script": cases[0]["steps"], "last_event": {k: v for k, v in events[0][-1].items() if k != "texts"}})
    chk.sample({"script": cases[-1]["steps"]})
    chk.assumptions += ["strings are drawn from a universe of four marker strings that occur nowhere else in a package; "
                        "'appears in the package' = occurs in the decompressed bytes of any part",
                        "python3 zipfile / expat are correct"]


def replay(chk, path):
    with open(path) as f:
        rp = json.load(f)
    judge(chk, [rp["script"]])
