"""C01 - cell content survives save and reload.

Spec: spec/Workbook.tla.  MC_Workbook*.cfg: TLC checks on bounded workbooks that the two-step model of
a save (Serialize: t= attribute and payload per kind, interning into the persistent string table, rows in
ascending order; Deserialize: t / payload / index / formula back to a typed value) reloads exactly the
non-blank cells (RoundTrip, RoundTripNow, Stable), that interning is injective and every index is in
range (FileWellFormed).  MC_Workbook_deviant.cfg switches the known deviations on and lets TLC print
the minimal histories whose reload differs.  Behaviours of the specification (every history of two
edits + save for both writers, TLC-simulated histories of 14 operations with intermediate saves on
up to three sheets) and generator-made workbooks (every value class, arbitrary Unicode text of all
planes, arbitrary finite f64 bit patterns, formulas with cached results of every kind, positions up to
XFD1048576) are built through the public API by harness/src/bin/workbook.rs, saved into memory with
write_writer / write_writer_light and reloaded with read_reader(.., true); Trace_Workbook.tla validates
every recorded step: a SaveLoad event must log exactly NormWb(sheets).
"""
import json
import struct
import vlib

MAXROW, MAXCOL = 1048576, 16384
ERRS = ["#DIV/0!", "#N/A", "#NAME?", "#NULL!", "#NUM!", "#REF!", "#VALUE!", "#DATA!"]
MUST_TAKE = ["DoSetValue", "DoSetFormula", "DoRemoveCell", "DoSave", "DoReload"]


def bits(x):
    return "%016x" % struct.unpack(">Q", struct.pack(">d", x))[0]


# ---------------------------------------------------------------------------------------------
# steps
# ---------------------------------------------------------------------------------------------
def set_value(s, r, c, k, v="", b="", runs=None, sty=""):
    return {"a": "SetValue", "s": s, "r": r, "c": c, "k": k, "v": v, "b": b, "runs": runs or [], "sty": sty}


def set_formula(s, r, c, f):
    return {"a": "SetFormula", "s": s, "r": r, "c": c, "f": f}


def save(w):
    return {"a": "SaveLoad", "w": w}


def split_runs(v, rng=None):
    """runs of a rich text whose value text is v (at least one run)"""
    if rng is None:
        h = len(v) // 2
        return [[v[:h], True], [v[h:], False]]
    n = rng.randint(1, 3)
    cuts = sorted(rng.randint(0, len(v)) for _ in range(n - 1))
    parts, prev = [], 0
    for cpos in cuts + [len(v)]:
        parts.append(v[prev:cpos])
        prev = cpos
    return [[p, rng.random() < 0.5] for p in parts]


def from_tlc(replay, rng):
    """A behaviour printed by TLC -> driver script (adds what the model abstracts from: the runs of a
    rich text and an irrelevant number format)."""
    steps = []
    for st in replay:
        st = dict(st)
        if st["a"] == "SetValue":
            st["runs"] = split_runs(st["v"]) if st["k"] == "rich" else []
            st["sty"] = rng.choice(["", "", "0.00"])
        steps.append(st)
    return {"steps": steps}


# ---------------------------------------------------------------------------------------------
# value classes
# ---------------------------------------------------------------------------------------------
TEXTS = [
    "plain", "a&b<c>d\"e'f", "&amp;&lt;&#65;", "]]>", "<![CDATA[x]]>", "  pad  ", "\ttab\t", " ", "\n", "\r\n", " \t\r\n",
    "l1\nl2\r\nl3\tt\rx", "\U0001F600x\U00010000\U0010FFFF", "", "123", "1e5", "-0.5", "TRUE", "false", "#N/A", "#DIV/0!",
    " nbsp　", "  \u0085", "﻿bom", "￾￿�", "_x000D_", "_x0041_", "=A1", "'quoted",
    "\u0001\u0008\u000b\u000c\u001f", "\u007f", "éé", "x" * 300, "אב ال", "a\u0000b",
]
NUMBERS = [0.0, -0.0, 1.0, -1.0, 123.0, 0.5, 0.1 + 0.2, 1e300, 5e-324, 1.7976931348623157e308, 2.2250738585072014e-308,
           -1.5e-7, 1e21, 1e-7, 2.0 ** 53 + 2.0, 1e15, 123456789.123456789, 4.35, 1 / 3, -2.5e-10]
FORMULAS = ["A1+1", "SUM(A1:B2)", "IF(A1<B1,\"x<y\",\"a&b\")", "A1&\"<>&'\"", "\"a\nb\"&A1", "A1\n+B1", "'My Sheet'!$A$1*2",
            "XFD1048576", "1<>2", "\"é\U0001F600\"", "TRUE", "S2!B3>=S1!A1"]
PADDED_FORMULAS = [" A1 ", "A1+1\n", "\tB2"]


def boundary_cases():
    """Every value class with and without a formula, both writers, first and last cell of the grid."""
    cases = []
    vals = [("text", t, "") for t in TEXTS] + [("num", "", bits(x)) for x in NUMBERS] + \
           [("bool", "TRUE", ""), ("bool", "FALSE", "")] + [("err", e, "") for e in ERRS] + [("blank", "", "")]
    riches = [[["ab ", True], ["cd", False]], [[" x", False], [" y ", True]], [["", True]], [["q", False]],
              [["a&<", True], ["\n", False], ["\U0001F600", True]], []]
    for w in ("std", "light"):
        # (1) one sheet per block of values: column A plain, column B the same value under a formula
        for blk in range(0, len(vals), 12):
            steps = [{"a": "Init", "n": 2}]
            for i, (k, v, b) in enumerate(vals[blk:blk + 12]):
                r = 1 + i if i % 2 == 0 else MAXROW - i
                steps.append(set_value(1, r, 1, k, v, b))
                steps.append(set_value(1, r, 2, k, v, b, sty="0.00"))
                steps.append(set_formula(1, r, 2, FORMULAS[(blk + i) % len(FORMULAS)]))
                steps.append(set_value(2, r, MAXCOL, k, v, b))           # same values on a second sheet: shared items
            steps += [save(w), save("std" if w == "light" else "light")]
            cases.append({"steps": steps})
        # (2) rich texts, including one without runs (C01-KF5), with and without formula
        steps = [{"a": "Init", "n": 1}]
        for i, runs in enumerate(riches):
            v = "".join(x[0] for x in runs)
            steps.append(set_value(1, i + 1, 1, "rich", v, runs=runs))
            steps.append(set_value(1, i + 1, 3, "rich", v, runs=runs))
            steps.append(set_formula(1, i + 1, 3, "A1&B1"))
            steps.append(set_value(1, i + 1, 5, "text", v))             # same text, plain
        steps += [save(w), save(w)]
        cases.append({"steps": steps})
        # (3) formulas: every formula on a blank cell, on a text and on a number; padded formula text (C01-KF4)
        steps = [{"a": "Init", "n": 1}]
        for i, f in enumerate(FORMULAS + PADDED_FORMULAS):
            steps.append(set_formula(1, i + 1, 1, f))
            steps.append(set_value(1, i + 1, 2, "text", "cached " + str(i)))
            steps.append(set_formula(1, i + 1, 2, f))
            steps.append(set_value(1, i + 1, MAXCOL, "num", "", bits(float(i) + 0.25)))
            steps.append(set_formula(1, i + 1, MAXCOL, f))
        steps += [save(w), save(w)]
        cases.append({"steps": steps})
        # (4) blank cells, overwritten cells, removed cells, the four corners
        steps = [{"a": "Init", "n": 3},
                 set_value(1, 1, 1, "text", "tl"), set_value(1, 1, MAXCOL, "text", "tr"), set_value(1, MAXROW, 1, "text", "bl"),
                 set_value(1, MAXROW, MAXCOL, "num", "", bits(-0.0)), set_value(2, 5, 5, "blank", "", sty="0.00"),
                 set_value(2, 6, 6, "blank"), set_value(2, 7, 7, "text", "gone"), {"a": "RemoveCell", "s": 2, "r": 7, "c": 7},
                 set_value(2, 8, 8, "num", "", bits(1.5)), set_value(2, 8, 8, "text", "1.5"), set_formula(2, 9, 9, "A1"),
                 set_value(2, 9, 9, "bool", "TRUE"), save(w), set_value(3, 2, 2, "text", "tl"), set_value(1, 1, 1, "text", "new"),
                 {"a": "RemoveCell", "s": 1, "r": 1, "c": MAXCOL}, set_value(2, 8, 8, "blank"), save(w), save(w)]
        cases.append({"steps": steps})
    return cases


# ---------------------------------------------------------------------------------------------
# random workbooks
# ---------------------------------------------------------------------------------------------
CONTROLS = [c for c in range(0, 0x20) if c not in (9, 10, 13)] + [0x7f, 0xfffe, 0xffff]
ODD = [0x85, 0xa0, 0x2028, 0x2029, 0xfeff, 0xfffd, 0x1680, 0x3000, 0x200b, 0x200d, 0x301, 0x202e]


def rchar(rng, controls):
    x = rng.random()
    if x < 0.30:
        return chr(rng.randint(0x20, 0x7e))
    if x < 0.42:
        return rng.choice(" \t\n\r&<>\"'")
    if x < 0.50:
        return chr(rng.choice(CONTROLS if controls else ODD))
    if x < 0.62:
        return chr(rng.randint(0x80, 0x7ff))
    if x < 0.82:
        while True:
            c = rng.randint(0x800, 0xffff)
            if not (0xd800 <= c <= 0xdfff) and (controls or c < 0xfffe):
                return chr(c)
    return chr(rng.randint(0x10000, 0x10ffff))


def rtext(rng, controls):
    x = rng.random()
    if x < 0.05:
        return rng.choice(TEXTS)
    if x < 0.10:
        return rng.choice(["1", "-3.5", "1e3", "TRUE", "FALSE", "true", "#REF!", "#N/A", "NaN", "inf", "0x10", ""])
    return "".join(rchar(rng, controls) for _ in range(rng.randint(0, 14)))


def rbits(rng):
    x = rng.random()
    if x < 0.15:
        return bits(rng.choice(NUMBERS))
    if x < 0.35:
        return bits(float(rng.randint(-10 ** 6, 10 ** 6)) / rng.choice([1, 10, 100, 1000, 3, 7]))
    while True:
        b = rng.getrandbits(64)
        if (b >> 52) & 0x7ff != 0x7ff:          # finite
            return "%016x" % b


def rref(rng):
    c, r = rng.choice([1, 2, 26, 27, 702, 703, MAXCOL]), rng.choice([1, 2, 9, 10, 99, MAXROW])
    name, n = "", c
    while n > 0:
        n, rem = divmod(n - 1, 26)
        name = chr(65 + rem) + name
    ref = ("$" if rng.random() < 0.3 else "") + name + ("$" if rng.random() < 0.3 else "") + str(r)
    q = rng.random()
    if q < 0.15:
        return "S2!" + ref
    if q < 0.25:
        return "'My Sheet''s'!" + ref
    return ref


def rformula(rng, depth=0):
    x = rng.random()
    if depth >= 3 or x < 0.35:
        y = rng.random()
        if y < 0.5:
            return rref(rng)
        if y < 0.65:
            return rref(rng) + ":" + rref(rng)
        if y < 0.8:
            return rng.choice(["1", "2.5", "1E+5", "0.1", "TRUE", "#N/A", "#DIV/0!"])
        t = "".join(rchar(rng, False) for _ in range(rng.randint(0, 6))).replace('"', '""')
        return '"' + t + '"'
    sp = rng.choice(["", "", "", " ", "\n"])
    if x < 0.65:
        op = rng.choice(["+", "-", "*", "/", "&", "<", ">", "<=", ">=", "<>", "=", "^"])
        return rformula(rng, depth + 1) + sp + op + sp + rformula(rng, depth + 1)
    if x < 0.9:
        fn = rng.choice(["SUM", "IF", "MAX", "CONCATENATE", "VLOOKUP", "_xlfn.XLOOKUP"])
        return fn + "(" + ("," + sp).join(rformula(rng, depth + 1) for _ in range(rng.randint(1, 3))) + ")"
    return "(" + rformula(rng, depth + 1) + ")" + rng.choice(["", "%"])


def rpos(rng, used_rows):
    x = rng.random()
    if x < 0.35 and used_rows:
        r = rng.choice(used_rows)                       # several cells in one row
    elif x < 0.55:
        r = rng.choice([1, 2, MAXROW - 1, MAXROW])
    elif x < 0.8:
        r = rng.randint(1, 60)
    else:
        r = rng.randint(1, MAXROW)
    y = rng.random()
    if y < 0.3:
        c = rng.choice([1, 2, 26, 27, 702, 703, MAXCOL - 1, MAXCOL])
    elif y < 0.8:
        c = rng.randint(1, 12)
    else:
        c = rng.randint(1, MAXCOL)
    return r, c


def random_case(rng, ncells, controls):
    n = rng.randint(1, 4)
    steps = [{"a": "Init", "n": n}]
    rows, cells = [], []
    budget = ncells
    nsaves = rng.choice([1, 1, 2, 3])
    for phase in range(nsaves):
        m = budget if phase == 0 else rng.randint(0, max(1, ncells // 4))
        for _ in range(m):
            s = rng.randint(1, n)
            x = rng.random()
            if x < 0.08 and cells:
                s, r, c = rng.choice(cells)
                steps.append({"a": "RemoveCell", "s": s, "r": r, "c": c})
                continue
            if x < 0.2 and cells:
                s, r, c = rng.choice(cells)                 # overwrite / add a formula to an existing cell
            else:
                r, c = rpos(rng, rows)
                rows.append(r)
                cells.append((s, r, c))
            k = rng.choice(["text", "text", "text", "num", "num", "rich", "bool", "err", "blank"])
            was_set = rng.random() < 0.85
            if was_set:
                if k == "text":
                    steps.append(set_value(s, r, c, "text", rtext(rng, controls)))
                elif k == "num":
                    steps.append(set_value(s, r, c, "num", "", rbits(rng)))
                elif k == "rich":
                    v = rtext(rng, controls)
                    steps.append(set_value(s, r, c, "rich", v, runs=split_runs(v, rng)))
                elif k == "bool":
                    steps.append(set_value(s, r, c, "bool", rng.choice(["TRUE", "FALSE"])))
                elif k == "err":
                    steps.append(set_value(s, r, c, "err", rng.choice(ERRS)))
                else:
                    steps.append(set_value(s, r, c, "blank", sty=rng.choice(["", "0.00"])))
                if rng.random() < 0.25:
                    steps[-1]["sty"] = "0.00"
            if rng.random() < 0.3 or not was_set:
                f = rformula(rng)
                if rng.random() < 0.08:
                    f = rng.choice([" ", "\n", "\t"]) + f + rng.choice(["", " "])
                steps.append(set_formula(s, r, c, f))
        steps.append(save(rng.choice(["std", "light"])))
    return {"steps": steps}


# ---------------------------------------------------------------------------------------------
def tlc_replays(cfg, what, workers=4, simulate=None, extra=None, timeout=3000):
    r = vlib.run_tlc("MC_Workbook", cfg, workers=workers, coverage=False, simulate=simulate, extra=extra, timeout=timeout)
    bad = (r.rc != 0 or r.violation) if simulate else (not r.ok)
    if bad or not r.replays:
        raise vlib.ToolError(f"{what} ({cfg}) failed: " + (r.violation or r.out[-600:]))
    seen, out = set(), []
    for rp in r.replays:
        key = json.dumps(rp, sort_keys=True)
        if key not in seen:
            seen.add(key)
            out.append(rp)
    return out


def gen_cases(chk):
    rng = chk.rng
    quick = chk.tier == "quick"
    cases = []
    dev = tlc_replays("MC_Workbook_deviant.cfg", "deviant model")
    vlib.log(f"[tlc] MC_Workbook_deviant.cfg: with the known deviations on, {len(dev)} reachable workbooks of the "
             f"one-cell model do not survive a save (design-level statement of the findings)")
    cases += [from_tlc(rp, rng) for rp in dev]
    paths = tlc_replays("MC_Workbook_replay.cfg" if quick else "MC_Workbook_replay_d3.cfg", "replay generation",
                        workers=4)
    cases += [from_tlc(rp, rng) for rp in paths]
    nsim = 300 if quick else 4000
    sims = tlc_replays("MC_Workbook_sim.cfg", "TLC simulation", workers=1, simulate=f"num={nsim}",
                       extra=["-depth", "60", "-seed", str(chk.seed)])
    cases += [from_tlc(rp, rng) for rp in sims]
    n_tlc = len(cases)
    bnd = boundary_cases()
    cases += bnd
    nrand = 800 if quick else 12000
    for k in range(nrand):
        big = (not quick) and k % 200 == 0
        cases.append(random_case(rng, 150 if big else rng.randint(1, 40), controls=(k % 4 == 3)))
    chk.extra["cases"] = {"tlc_deviant_histories": len(dev), "tlc_paths": len(paths), "tlc_simulated_histories": len(sims),
                          "boundary_workbooks": len(bnd), "random_workbooks": nrand}
    for i, c in enumerate(cases):
        c["case"] = i
    return cases, n_tlc


def _cell_at(obs, si, r, c):
    if 1 <= si <= len(obs):
        for x in obs[si - 1]["cells"]:
            if x["r"] == r and x["c"] == c:
                return {k: x[k] for k in ("k", "v", "b", "f")}
    return None


def make_describe(cases, events):
    """TLC's verdict names sheet / row / column and the differing fields but never quotes cell texts
    (any character may occur in them); the texts are added here from the recorded events, for the
    reader only."""
    import re
    index = {}
    for ci, evs in enumerate(events):
        for off, e in enumerate(evs):
            index[id(e)] = (ci, off)

    def describe(case, ev, detail):
        if ev is None:
            return detail
        head = json.dumps({k: v for k, v in ev.items() if k not in ("obs", "vc", "fc")}, ensure_ascii=True)[:300]
        extra = ""
        m = re.search(r'"sheet", (\d+), "row", (\d+), "col", (\d+)', detail)
        loc = index.get(id(ev))
        if m and loc and loc[1] > 0 and ev.get("a") == "SaveLoad":
            si, r, c = int(m.group(1)), int(m.group(2)), int(m.group(3))
            before = _cell_at(events[loc[0]][loc[1] - 1].get("obs", []), si, r, c)
            after = _cell_at(ev.get("obs", []), si, r, c)
            extra = (f" | saved {json.dumps(before, ensure_ascii=True)[:200]} reloaded "
                     f"{json.dumps(after, ensure_ascii=True)[:200]}")
        return f"step {head}: {detail}{extra}"
    return describe


def judge(chk, cases):
    events = vlib.run_cases("workbook", cases, timeout=120)
    out = vlib.validate("Trace_Workbook", "Trace_Workbook.cfg", events, chk.open_ids, "c01", chunk_events=1500,
                        jobs=min(vlib.NCPU - 2, 8))
    first = {}
    for ci, off, detail in out["mismatch"]:
        if ci not in first or off < first[ci][0]:
            first[ci] = (off, detail)
    for ci, (off, detail) in first.items():
        # the workbook before the save is not the one the script describes: generator / driver problem,
        # never a verdict about the property (after an earlier mismatch the specification follows the
        # observed state, so only a *first* mismatch of kind "set" counts)
        if detail.startswith('<<"set"'):
            raise vlib.ToolError(f"case {ci}, step {off}: the workbook built through the API is not the one the "
                                 f"script describes: {detail[:500]}")
    chk.process_validation(out, cases, events, "workbook", make_describe(cases, events))
    return events


def run(chk):
    vlib.tlc_mc("MC_Workbook", "MC_Workbook.cfg", workers=4, must_take=MUST_TAKE, check=chk)
    vlib.tlc_mc("MC_Workbook", "MC_Workbook_intern.cfg", workers=4, must_take=MUST_TAKE, check=chk)
    if chk.tier == "thorough":
        vlib.tlc_mc("MC_Workbook", "MC_Workbook_thorough.cfg", workers=4, timeout=7200, heap="12g", must_take=MUST_TAKE,
                    check=chk)
    cases, n_tlc = gen_cases(chk)
    events = judge(chk, cases)
    chk.evaluations = len(cases)
    chk.nontrivial = {json.dumps(c["steps"], sort_keys=True) for c in cases
                      if any(st["a"] in ("SetValue", "SetFormula") for st in c["steps"])}
    chk.extra["saves_validated"] = sum(1 for evs in events for e in evs if e.get("a") == "SaveLoad")
    chk.extra["cells_compared_after_reload"] = sum(len(sh["cells"]) for evs in events for e in evs
                                                   if e.get("a") == "SaveLoad" for sh in e.get("obs", []))
    chk.rule = ("a case is a history on a workbook of 1..4 sheets built through the public API: SetValue (blank, text, rich "
                "text, number by bit pattern, boolean, error), SetFormula (cached result kept), RemoveCell and SaveLoad with "
                "the standard or the light writer (the history continues on the reloaded workbook); cases = the histories "
                "TLC prints for the deviant one-cell model, every history of two edits + save of the bounded model for both "
                "writers (thorough: three edits), TLC-simulated histories of 14 operations with up to three intermediate "
                "saves, boundary workbooks holding every value class with and without a formula, and seeded random workbooks "
                "(arbitrary Unicode scalar values, arbitrary finite f64 bit patterns, random formulas, positions up to "
                "XFD1048576); distinct = different step lists, non-trivial = at least one value or formula is set before a save")
    chk.sample({"script": cases[0]["steps"], "reloaded": events[0][-1].get("obs")})
    chk.sample({"script": cases[n_tlc - 1]["steps"]})
    last = cases[-1]["steps"]
    chk.sample({"script_head": last[:6], "steps": len(last)})
    chk.assumptions += [
        "the value text of a number is what Cell::get_value reports right after set_value_number (Rust's shortest "
        "round-trip Display); identity of numbers is identity of the bit pattern of get_value_number",
        "blank cells (no value, no formula) are outside the property: both sides are compared without them; styles, "
        "hyperlinks and the runs/fonts of a rich text are not part of C01's projection (value text and kind are)",
        "texts are compared by TLC as JSON strings (\\uXXXX escapes); the trimming deviations look inside texts through "
        "the character lists the driver logs next to them, and TLC checks that list against the text",
        "NaN and infinities are never generated (not finite); Lazy values are not generated",
    ]


def replay(chk, path):
    with open(path) as f:
        rp = json.load(f)
    judge(chk, [rp["script"]])
