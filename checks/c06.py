"""C06 - sheet list and annotations survive save/reload on the same cells.

Spec: spec/Annot.tla (workbook: sheet order/names/visibility/active tab/defined names/protection; per sheet: merges,
hyperlinks, comments, validations, conditional formats, auto filter, tab colour, views, page setup, header/footer,
protection; SaveLoad = LoadWb(SaveWb(..)) with the hyperlink r:id <-> relationship pairing by enumeration order, the
comments <-> VML join by cell reference and the re-homing of defined names).
MC_Annot*.cfg: TLC checks AnnotationsKept (action property), HomedAfterLoad, WellFormed on small pools; the deviant
design (two independently seeded enumerations of the hyperlinks) must be REFUTED by TLC.
Behaviours of the specification (all histories of 2 operations + save over every pool, TLC-simulated histories of 40
operations) and generator-made workbooks (dozens of items per kind, XML-special / non-ASCII texts) are executed by
harness/src/bin/annot.rs; every written file is also projected by pydec/annot_view.py (own zip/XML reader following the
sheet rels); Trace_Annot.tla judges.  Hash-map order differs per process and per map: link-heavy cases are re-run in
several fresh driver processes.
"""
import json, re, time
import vlib
from pydec import annot_view

KF_IDS = ["C06-KF1", "C06-KF2", "C06-KF3", "C06-KF4"]

# ------------------------------------------------------------------------------------------------------------------
# generator of large workbooks
# ------------------------------------------------------------------------------------------------------------------
SHEET_NAMES = ["S1", "Data", "My & Sheet", "O'Brien", "a<b>", "\u00dcbersicht", "\u8868", "q\"uote", "x!y", "Sheet 2",
               "\u00e9moji \U0001F600", "R\u00e9sum\u00e9 & Co", "A1", "tab>"]
URL_FORMS = ["http://h{n}.example/", "http://h{n}.example/p?a={n}&b=2", "https://\u00fcml.example/{n}/\u00e9",
             "mailto:x{n}@example.org?subject=a<b>&body=\"q\"", "file:///C:/dir/it's{n}.xlsx", "http://h{n}.example/#frag",
             "http://h{n}.example/\U0001F600"]
AUTHORS = ["alice", "bob", "Bob", "carol", "Dave", "\u00e9mile", "Zed", "Ann", "Bob & Co", "<anon>", "\u00c5sa", "", "O'Neil", "\u8457\u8005", " padded ", "tab\t", "\nlead", " ", "Bob & S\u00f6hne <x> "]
TEXTS = ["note {n}", "x & y <z> {n}", "line1\nline2 {n}", "\u00e4\u00f6\u00fc {n}", "\"quoted\" {n}", "it's {n}", "\U0001F600 {n}"]
PROMPTS = ["", "pick {n}", "a & b {n}", "<{n}>", "\u00fcber {n}", "say \"x\" {n}", "it's {n}", " lead {n}", "trail {n} ", "  both {n}  "]
TIPS = ["", "", "tip {n}", " padded tip {n} ", "a & b <c> \"d\" {n}", "\u00fcber \U0001F600 {n}", "it's {n}"]
RUN_EDGES = ["", " ", "\n", "\t", "  ", " \n", "\n\n"]
BLANK_RUNS = [" ", "\n", "\t", "  \n "]
CODE_NAMES = ["Sheet{n}", "Tabelle_{n}", "Cod\u00e9{n}", "ThisSheet{n}"]
HEADERS = ["", "&CPage &P of &N", "&L<left> & \"q\"", "&R\u00dcber {n}", " padded {n} ", "\tx{n}", "&Ctrail{n} \n"]
FLAG_KEYS = ["sheet", "objects", "scenarios", "formatCells", "formatColumns", "formatRows", "insertColumns", "insertRows",
             "insertHyperlinks", "deleteColumns", "deleteRows", "selectLocked", "selectUnlocked", "sort", "autoFilter", "pivotTables"]
DV_TYPES = [("list", "between", "\"a,b,c\"", ""), ("whole", "between", "1", "10"), ("decimal", "greaterThan", "0.5", ""),
            ("textLength", "lessThanOrEqual", "20", ""), ("custom", "between", "A1<>\"x&y\"", ""), ("date", "notBetween", "40000", "41000")]
CF_RULES = [{"type": "cellIs", "op": "greaterThan", "hasf": True, "f": "5"}, {"type": "expression", "op": "equal", "hasf": True, "f": "A1<>\"x&y\""},
            {"type": "duplicateValues", "op": "equal", "hasf": False, "f": ""}, {"type": "containsBlanks", "op": "equal", "hasf": True, "f": "LEN(TRIM(A1))=0"},
            {"type": "cellIs", "op": "between", "hasf": True, "f": "B2<3"}]
COLS = ["A", "B", "C", "D", "E", "F", "G", "Z", "AA", "XFD"]


def col_name(rng):
    return rng.choice(COLS)


def quote_sheet(n):
    return "'" + n.replace("'", "''") + "'"


def rand_runs(rng, fmt, author):
    """The text of a comment as a list of runs: a single plain run, or the layout applications write (a bold
    "Author:" run, then a run that starts with a line feed), with blanks / tabs / line feeds at the edges of runs and
    runs of white space only."""
    body = fmt(rng.choice(TEXTS))
    k = rng.random()
    if k < 0.35:
        return [{"t": body, "b": False}]
    if k < 0.55:
        return [{"t": rng.choice(RUN_EDGES) + body + rng.choice(RUN_EDGES), "b": False}]
    runs = [{"t": (author.strip() or "Author") + ":", "b": True}, {"t": "\n" + body + rng.choice(RUN_EDGES), "b": False}]
    for _ in range(rng.choice([0, 0, 1, 2])):
        runs.insert(rng.randint(1, len(runs)), {"t": rng.choice(BLANK_RUNS), "b": rng.random() < 0.3})
    if rng.random() < 0.3:
        runs.append({"t": rng.choice(RUN_EDGES) + fmt(rng.choice(TEXTS)), "b": False})
    return runs


def norm(case):
    """Older step forms: a link without a tooltip, a comment given by one text."""
    for st in case["steps"]:
        if st["a"] == "AddLink":
            st.setdefault("tip", "")
        elif st["a"] == "AddComment" and "runs" not in st:
            st["runs"] = [{"t": st.pop("text"), "b": False}]
    return case


def rand_case(rng, size):
    """One workbook with up to `size` items of every kind per sheet, then one or two save+reload generations."""
    ns = rng.randint(1, 4)
    names = rng.sample(SHEET_NAMES, ns)
    steps = [{"a": "Init", "sheets": names}]
    n = [0]

    def nxt():
        n[0] += 1
        return n[0]

    def fmt(t):
        return t.replace("{n}", str(nxt()))

    used_names = set()
    for si in range(1, ns + 1):
        if rng.random() < 0.3:
            steps.append({"a": "SetState", "s": si, "state": rng.choice(["hidden", "veryHidden", "visible"])})
        cells = set()

        def fresh_cell():
            while True:
                c = (rng.randint(1, 60), rng.choice(COLS))
                if c not in cells:
                    cells.add(c)
                    return c
        for k in range(rng.randint(0, size)):
            r = 2 * k + 1
            steps.append({"a": "AddMerge", "s": si, "range": f"K{r}:M{r + 1}"})
        nl = rng.choice([0, 1, 2, 3, rng.randint(0, size), size])
        for k in range(nl):
            r, c = fresh_cell()
            if rng.random() < 0.25:
                tgt = rng.choice(names)
                url = rng.choice([f"{quote_sheet(tgt)}!A{k + 1}", f"Name{k}", f"{quote_sheet(tgt)}!B2:C{k + 3}"])
                steps.append({"a": "AddLink", "s": si, "cell": f"{c}{r}", "url": url, "loc": True})
            else:
                u = fmt(rng.choice(URL_FORMS)) if rng.random() < 0.9 else "http://same.example/"
                steps.append({"a": "AddLink", "s": si, "cell": f"{c}{r}", "url": u, "loc": False, "tip": fmt(rng.choice(TIPS))})
        com = set()
        for k in range(rng.choice([0, 1, 2, rng.randint(0, size)])):
            rc = (rng.randint(1, 80), rng.randint(1, 30))
            if rc in com:
                continue
            com.add(rc)
            au = rng.choice(AUTHORS) if rng.random() < 0.9 else "Ann"
            steps.append({"a": "AddComment", "s": si, "r": rc[0], "c": rc[1], "author": au, "runs": rand_runs(rng, fmt, au)})
        for k in range(rng.choice([0, 1, rng.randint(0, max(1, size // 3))])):
            ty, op, f1, f2 = rng.choice(DV_TYPES)
            steps.append({"a": "AddDv", "s": si, "sqref": f"P{k + 1}:Q{k + 2}" + (f" S{k + 1}" if rng.random() < 0.3 else ""),
                          "type": ty, "op": op, "blank": rng.random() < 0.5, "showin": rng.random() < 0.5,
                          "showerr": rng.random() < 0.5, "ptitle": fmt(rng.choice(PROMPTS))[:30], "prompt": fmt(rng.choice(PROMPTS)),
                          "etitle": fmt(rng.choice(PROMPTS))[:30], "emsg": fmt(rng.choice(PROMPTS)), "f1": f1, "f2": f2})
        for k in range(rng.choice([0, 1, rng.randint(0, max(1, size // 4))])):
            rules = []
            for j in range(rng.randint(1, 3)):
                rl = dict(rng.choice(CF_RULES))
                rl["prio"] = nxt()
                rl["stop"] = rng.random() < 0.3
                rules.append(rl)
            steps.append({"a": "AddCf", "s": si, "sqref": f"U{k + 1}:V{k + 4}" + (f" X{k + 1}:X{k + 2}" if rng.random() < 0.3 else ""),
                          "rules": rules})
        if rng.random() < 0.5:
            steps.append({"a": "SetAf", "s": si, "range": f"A1:{col_name(rng)}{rng.randint(2, 99)}"})
        # code name x tab colour (both live in the sheetPr element), in either order
        two = []
        if rng.random() < 0.5:
            two.append({"a": "SetTab", "s": si, "argb": rng.choice(["FFFF0000", "FF123456", "FF00B050", "80ABCDEF"])})
        if rng.random() < 0.45:
            two.append({"a": "SetCodeName", "s": si, "code": fmt(rng.choice(CODE_NAMES))})
        rng.shuffle(two)
        steps += two
        if rng.random() < 0.5:
            fz = rng.random() < 0.7
            pane = [{"xs": str(rng.randint(0, 3)), "ys": str(rng.randint(1, 5)), "tl": f"{rng.choice(['B', 'C', 'D'])}{rng.randint(2, 9)}",
                     "ap": rng.choice(["bottomRight", "bottomLeft", "topLeft"]), "st": "frozen" if fz else "split"}] if rng.random() < 0.8 else []
            sel = [{"pane": rng.choice(["bottomRight", "bottomLeft", "topLeft"]), "cell": f"C{rng.randint(1, 9)}",
                    "sqref": rng.choice(["C1:D9", "C1:C9 E1", "A1:XFD9"])}] if rng.random() < 0.8 else []
            if sel and sel[0]["sqref"] == "C1:D9":
                pass
            steps.append({"a": "SetView", "s": si, "pane": pane, "sel": sel, "tl": rng.choice(["", "A1", "D7"]),
                          "tabsel": rng.random() < 0.3})
        if rng.random() < 0.5:
            steps.append({"a": "SetPageSetup", "s": si, "paper": rng.choice([1, 8, 9]), "orient": rng.choice(["landscape", "portrait", "default"]),
                          "scale": rng.randint(10, 400), "fith": rng.randint(0, 3), "fitw": rng.randint(0, 3),
                          "hdpi": rng.choice([300, 600]), "vdpi": rng.choice([300, 600])})
        if rng.random() < 0.5:
            steps.append({"a": "SetHf", "s": si, "h": fmt(rng.choice(HEADERS)), "f": fmt(rng.choice(HEADERS))})
        if rng.random() < 0.4:
            flags = {k: rng.random() < 0.5 for k in rng.sample(FLAG_KEYS, rng.randint(1, len(FLAG_KEYS)))}
            hashed = rng.random() < 0.6
            steps.append({"a": "SetProt", "s": si, "flags": flags, "alg": "SHA-512" if hashed else "",
                          "hash": rng.choice(["q+/=abc", "Zm9vYmFy"]) if hashed else "", "salt": "c2FsdA==" if hashed else "",
                          "spin": 100000 if hashed else 0, "legacy": "" if hashed or rng.random() < 0.5 else "CC1A"})
    # defined names: anywhere, any scope, pointing at any sheet (or at none)
    safe_refs = [x for x in names if not (x[0] in "'\"" or x[-1] in "'\"")]
    # A name is unique per scope only: the same name may be global and local to several sheets (per-sheet print areas),
    # and names in different scopes may differ in case only.  Within one scope names are kept apart case-insensitively.
    scoped = set()
    shared = ["_xlnm.Print_Area", "Total", "TOTAL", "total", "N\u00e4me", "Rng.A"]
    for k in range(rng.choice([0, 1, 2, 3, rng.randint(0, max(1, size // 2))])):
        if rng.random() < 0.5:
            nm = rng.choice(shared)
        else:
            nm = rng.choice(["Name", "N\u00e4me", "_x", "\u540d\u524d", "Rng.A"]) + str(nxt())
        local = rng.randint(0, ns - 1) if rng.random() < (0.7 if nm in shared else 0.35) else -1
        if (nm.lower(), local) in scoped:
            continue
        scoped.add((nm.lower(), local))
        kind = rng.random()
        if kind < 0.7 and safe_refs:
            ref = rng.choice(safe_refs)
            addr = f"{quote_sheet(ref)}!${col_name(rng)}${rng.randint(1, 99)}"
            if rng.random() < 0.5:
                addr += f":$XFD${rng.randint(100, 1048576)}"
            if rng.random() < 0.2 and '"' not in ref:
                addr += f",{quote_sheet(ref)}!$B$2"
        elif kind < 0.85:
            ref, addr = "Gone Sheet", f"'Gone Sheet'!$A${k + 1}"
        else:
            ref, addr = "", rng.choice(["42", "\"text\"", "SUM(1;2)", "1+2"])
        steps.append({"a": "AddName", "home": rng.randint(0, ns), "name": nm, "addr": addr, "ref": ref,
                      "local": local, "hidden": rng.random() < 0.2})
    if rng.random() < 0.4:
        hashed = rng.random() < 0.7
        steps.append({"a": "SetWbProt", "lockStructure": rng.random() < 0.7, "lockWindows": rng.random() < 0.3,
                      "lockRevision": rng.random() < 0.3, "alg": "SHA-512" if hashed else "", "hash": "aGFzaA==" if hashed else "",
                      "salt": "c2FsdA==" if hashed else "", "spin": 100000 if hashed else 0, "legacy": "",
                      "ralg": "", "rhash": "", "rsalt": "", "rspin": 0})
    if rng.random() < 0.7:
        steps.append({"a": "SetActive", "i": rng.randint(0, ns - 1) if rng.random() < 0.9 else ns + 1})
    if rng.random() < 0.15:
        steps.append({"a": "SetMacros"})
    steps.append({"a": "SaveLoad", "light": rng.random() < 0.3})
    if rng.random() < 0.3:
        steps.append({"a": "SaveLoad", "light": rng.random() < 0.3})
    return {"steps": steps}


def link_case(rng):
    """One or two sheets with 2..9 external links (distinct and repeated targets, XML-special characters) and a few
    location links: the cases that are re-run in fresh processes."""
    ns = rng.randint(1, 2)
    steps = [{"a": "Init", "sheets": rng.sample(SHEET_NAMES, ns)}]
    for si in range(1, ns + 1):
        cells = rng.sample([f"{c}{r}" for c in "ABCDEFGH" for r in range(1, 13)], rng.randint(2, 11))
        for k, cell in enumerate(cells):
            if rng.random() < 0.2:
                steps.append({"a": "AddLink", "s": si, "cell": cell, "url": f"'{steps[0]['sheets'][0].replace(chr(39), chr(39) * 2)}'!A{k + 1}",
                              "loc": True})
            else:
                u = rng.choice(URL_FORMS).replace("{n}", str(k if rng.random() < 0.85 else 0))
                steps.append({"a": "AddLink", "s": si, "cell": cell, "url": u, "loc": False})
    steps.append({"a": "SaveLoad", "light": rng.random() < 0.3})
    return {"steps": steps}


MIXED_AUTHORS = ["alice", "Bob", "carol", "Dave", "erin", "bob", "BOB", "Alice", "Zed", "zoe", "adam", "Zara", "_x", "1st",
                 "\u00c9mile", "\u00e9mile", "\u00e4lva", "\u00dcnal", "\u00d8rn", "\u00f8rn", "\u0416\u0435\u043d\u044f", "\u0436\u0435\u043d\u044f",
                 "Bob & Co", "bob <b>", "O'Neil", "o'neil", ""]


def author_case(rng):
    """One or two sheets with 3..6 comments by 3..6 DISTINCT authors whose names mix upper- and lower-case (also
    non-ASCII) initials, differ in case only, or sort differently byte-wise and case-insensitively, plus further comments
    by authors already used (the author table of the comments part has one entry per author; every comment points into it)."""
    ns = rng.randint(1, 2)
    steps = [{"a": "Init", "sheets": rng.sample(SHEET_NAMES, ns)}]
    for si in range(1, ns + 1):
        authors = rng.sample(MIXED_AUTHORS, rng.randint(3, 6))
        who = authors + [rng.choice(authors) for _ in range(rng.randint(0, 3))]
        rng.shuffle(who)
        cells = rng.sample([(r, c) for r in range(1, 9) for c in range(1, 7)], len(who))
        for k, (au, (r, c)) in enumerate(zip(who, cells)):
            steps.append({"a": "AddComment", "s": si, "r": r, "c": c, "author": au, "runs": [{"t": f"by {au} #{k}", "b": False}]})
    steps.append({"a": "SaveLoad", "light": rng.random() < 0.3})
    if rng.random() < 0.3:
        steps.append({"a": "SaveLoad", "light": False})
    return {"steps": steps}


def author_fixed_cases():
    out = []
    for names in (["alice", "Bob", "carol", "Dave", "erin"], ["Alice", "bob", "Carol"], ["bob", "Bob", "BOB", "alice"],
                  ["Zed", "adam", "Zara", "zoe"], ["\u00e9mile", "\u00c9mile", "Zed", "alice", "\u00d8rn"]):
        steps = [{"a": "Init", "sheets": ["S1"]}]
        for k, au in enumerate(names + [names[-1], names[0]]):
            steps.append({"a": "AddComment", "s": 1, "r": k + 2, "c": k + 2, "author": au, "runs": [{"t": f"note of {au}", "b": False}]})
        steps.append({"a": "SaveLoad", "light": False})
        out.append({"steps": steps})
    return out


def exemplars():
    """Cases that always exercise the open findings (KF1 needs a non-identity permutation: three sheets with six
    distinct external targets each - the chance that all three come back unpermuted is (1/720)^3)."""
    steps = [{"a": "Init", "sheets": ["L1", "L2", "L3"]}]
    for si in (1, 2, 3):
        for k in range(6):
            steps.append({"a": "AddLink", "s": si, "cell": f"{'ABCDEF'[k]}{k + 1}", "url": f"http://t{si}{k}.example/", "loc": False})
        steps.append({"a": "AddLink", "s": si, "cell": "H9", "url": "'L2'!A1", "loc": True})
    steps.append({"a": "SaveLoad", "light": False})
    kf1 = {"steps": steps}
    kf2 = {"steps": [{"a": "Init", "sheets": ["S1"]},
                     {"a": "AddLink", "s": 1, "cell": "A1", "url": "http://h.example/?a=1&b=2", "loc": False},
                     {"a": "AddLink", "s": 1, "cell": "B2", "url": "'S1'!A1", "loc": True},
                     {"a": "SaveLoad", "light": False}, {"a": "SaveLoad", "light": False}]}
    kf3 = {"steps": [{"a": "Init", "sheets": ["S1"]},
                     {"a": "AddComment", "s": 1, "r": 2, "c": 2, "author": "", "text": "anonymous"},
                     {"a": "AddComment", "s": 1, "r": 3, "c": 3, "author": "Ann", "text": "signed"},
                     {"a": "SaveLoad", "light": False}]}
    kf4 = {"steps": [{"a": "Init", "sheets": ["S1"]}, {"a": "SetHf", "s": 1, "h": " padded header ", "f": "&Lfoot"},
                     {"a": "SaveLoad", "light": False}]}
    return [kf1, kf2, kf3, kf4]


def sheetpr_and_text_cases():
    """(1) code name x tab colour x workbook with macros, on neighbouring sheets; (2) comments in the layout applications
    write, with blanks, tabs and line feeds at the edges of runs, runs of white space only, padded authors; padded
    tooltips, validation prompts and header/footer."""
    cases = []
    for macros in (False, True):
        for order in (0, 1):
            steps = [{"a": "Init", "sheets": ["Plain", "Coded", "Both", "Tab only"]}]
            tab3, code3 = {"a": "SetTab", "s": 3, "argb": "FF654321"}, {"a": "SetCodeName", "s": 3, "code": "Sheet_Both"}
            steps += [{"a": "SetCodeName", "s": 2, "code": "Sheet_Coded"}] + ([tab3, code3] if order else [code3, tab3])
            steps += [{"a": "SetTab", "s": 4, "argb": "FFFF0000"}]
            if macros:
                steps.append({"a": "SetMacros"})
            steps += [{"a": "SaveLoad", "light": False}, {"a": "SaveLoad", "light": True}]
            cases.append({"steps": steps})

    def com(r, c, au, *runs):
        return {"a": "AddComment", "s": 1, "r": r, "c": c, "author": au, "runs": [{"t": t, "b": b} for t, b in runs]}
    cases.append({"steps": [
        {"a": "Init", "sheets": ["S1"]},
        com(2, 2, "Alice", ("plain text", False)),
        com(3, 3, "Bob & S\u00f6hne <x>", ("Bob:", True), ("\nplease check this value ", False)),
        com(4, 4, "Alice", ("left", False), (" ", False), ("right", False)),
        com(5, 5, " padded author ", (" \tlead and trail\n", False)),
        com(6, 6, "tab\t", ("\n", False), ("x & y <z> \u00e9", True), ("\t", False)),
        com(7, 7, "", ("  ", False)),
        {"a": "SaveLoad", "light": False}, {"a": "SaveLoad", "light": False}]})
    cases.append({"steps": [
        {"a": "Init", "sheets": ["S1"]},
        {"a": "AddLink", "s": 1, "cell": "A1", "url": "http://t.example/", "loc": False, "tip": " padded tip & <x> "},
        {"a": "AddLink", "s": 1, "cell": "B2", "url": "'S1'!A1", "loc": True, "tip": "\u00fcber tip "},
        {"a": "AddDv", "s": 1, "sqref": "C1:C9", "type": "list", "op": "between", "blank": True, "showin": True, "showerr": True,
         "ptitle": " title ", "prompt": "  pick one  ", "etitle": "err ", "emsg": " bad value", "f1": "\"a,b\"", "f2": ""},
        {"a": "SetHf", "s": 1, "h": " &Cpadded header ", "f": "\tfoot \n"},
        {"a": "SaveLoad", "light": False}]})
    return cases


def scope_cases():
    """The same defined name in several scopes: local to each of three sheets (kept with its own sheet, with another
    sheet, at workbook level), global + local, and names that differ only in case in different scopes."""
    def nm(home, name, ref, local, cell):
        return {"a": "AddName", "home": home, "name": name, "addr": f"'{ref}'!${cell}", "ref": ref, "local": local, "hidden": False}
    init = {"a": "Init", "sheets": ["P1", "P2", "P3"]}
    save = {"a": "SaveLoad", "light": False}
    return [
        {"steps": [init, nm(1, "_xlnm.Print_Area", "P1", 0, "A$1:$C$9"), nm(2, "_xlnm.Print_Area", "P2", 1, "A$1:$D$8"),
                   nm(3, "_xlnm.Print_Area", "P3", 2, "B$2:$E$7"), save, save]},
        {"steps": [init, nm(0, "Total", "P1", -1, "A$1"), nm(0, "Total", "P2", 1, "B$2"), nm(0, "Total", "P3", 2, "C$3"), save]},
        {"steps": [init, nm(2, "Total", "P2", 1, "B$2"), nm(1, "Total", "P1", -1, "A$1"), save]},          # local first, then global
        {"steps": [init, nm(3, "Rate", "P1", 0, "A$1"), nm(1, "RATE", "P1", 1, "A$2"), nm(0, "rate", "P2", -1, "A$3"), save]},
        {"steps": [init, nm(0, "X", "Gone", 0, "A$1"), nm(0, "X", "Gone", 1, "A$1"), nm(2, "X", "Gone", -1, "A$1"), save]}]


# ------------------------------------------------------------------------------------------------------------------
def project(events):
    """Replace the bytes of every save by the independent decoder's view of the file."""
    for evs in events:
        for e in evs:
            if "hex" in e:
                hx = e.pop("hex")
                if hx:
                    try:
                        e["file"] = annot_view.view(bytes.fromhex(hx))
                    except Exception as ex:                      # unreadable package: data, not a tool error
                        e["file"] = annot_view.empty()
                        e["decoder_error"] = str(ex)[:200]
                else:
                    e["file"] = annot_view.empty()
    return events


def link_heavy(case):
    per = {}
    for st in case["steps"]:
        if st["a"] == "AddLink" and not st["loc"]:
            per[st["s"]] = per.get(st["s"], 0) + 1
    return any(v >= 2 for v in per.values())


def gen_cases(chk):
    rng = chk.rng
    quick = chk.tier == "quick"
    r = vlib.run_tlc("MC_Annot", "MC_Annot_replay.cfg", workers=4, coverage=False, timeout=1800)
    if not r.ok or not r.replays:
        raise vlib.ToolError("replay generation failed: " + (r.violation or r.out[-500:]))
    reps = r.replays
    total_paths = len(reps)
    if quick:
        reps = rng.sample(reps, min(len(reps), 1500))
    cases = [{"steps": rp} for rp in reps]
    n1 = len(cases)
    nsim = 80 if quick else 1500
    rs = vlib.run_tlc("MC_Annot", "MC_Annot_sim.cfg", workers=1, coverage=False, simulate=f"num={nsim}",
                      extra=["-depth", "45", "-seed", str(chk.seed)], timeout=3000)
    if rs.rc != 0 or rs.violation or not rs.replays:
        raise vlib.ToolError("TLC simulation of MC_Annot_sim.cfg failed: " + (rs.violation or rs.out[-500:]))
    seen = set()
    for rp in rs.replays:
        key = json.dumps(rp, sort_keys=True)
        if key not in seen:
            seen.add(key)
            cases.append({"steps": rp})
    n2 = len(cases)
    for k in range(100 if quick else 1500):
        cases.append(rand_case(rng, rng.choice([3, 8, 20, 40]) if quick else rng.choice([3, 8, 20, 40, 60])))
    n3 = len(cases)
    for k in range(60 if quick else 600):
        cases.append(link_case(rng))
    ra = vlib.run_tlc("MC_Annot", "MC_Annot_authors_replay.cfg", workers=4, coverage=False, timeout=1800)
    if not ra.ok or not ra.replays:
        raise vlib.ToolError("replay generation (authors) failed: " + (ra.violation or ra.out[-500:]))
    au_paths = ra.replays if quick else ra.replays
    if quick and len(au_paths) > 500:
        au_paths = rng.sample(au_paths, 500)
    nau = len(cases)
    cases += [{"steps": rp} for rp in au_paths]
    for k in range(80 if quick else 1500):
        cases.append(author_case(rng))
    cases += author_fixed_cases()
    nau = len(cases) - nau
    sc = scope_cases() + sheetpr_and_text_cases()
    cases += sc
    cases += exemplars()
    chk.extra["cases"] = {"hyperlink_permutation_cases": len(cases) - n3 - 4 - len(sc) - nau,
                          "several_mixed_case_authors_per_sheet_cases": nau, "same_name_in_several_scopes_and_sheetpr_and_text_edge_cases": len(sc),"tlc_paths_2_operations_then_save": n1, "of_all_such_paths": total_paths,
                          "tlc_simulated_histories_40_operations": n2 - n1, "generated_workbooks": n3 - n2,
                          "finding_exemplars": 4}
    for i, c in enumerate(cases):
        c["case"] = i
        norm(c)
    return cases


def describe(case, ev, detail):
    if ev is None:
        return detail
    return f"step {json.dumps({k: v for k, v in ev.items() if k not in ('pre', 'post', 'file', 'chars')})}: {detail}"


def judge(chk, cases, tag="c06", jobs=None):
    t0 = time.time()
    events = project(vlib.run_cases("annot", cases, timeout=60, jobs=jobs))
    t1 = time.time()
    out = vlib.validate("Trace_Annot", "Trace_Annot.cfg", events, chk.open_ids, tag, chunk_events=1200, jobs=4)
    first = {}
    for ci, off, detail in out["mismatch"]:
        if ci not in first or off < first[ci][0]:
            first[ci] = (off, detail)
    for ci, (off, detail) in first.items():
        # (after a mismatch the specification follows the observation: only a FIRST mismatch of kind "gen" blames
        # the generator / the model of a building step)
        if detail.startswith('<<"gen"'):
            raise vlib.ToolError(f"generator or building-step model out of line with the library (case {ci}, step {off}): "
                                 f"{detail[:600]} script={json.dumps(cases[ci]['steps'])[:600]}")
    chk.process_validation(out, cases, events, "annot", describe)
    vlib.log(f"[c06] {tag}: {len(cases)} cases driven + projected in {t1 - t0:.1f}s, {out['events']} events validated in "
             f"{time.time() - t1:.1f}s, {len(out['kf'])} known-finding hits, {len(first)} rejected")
    return events


def saveload_taken(r):
    m = re.findall(r"^<MCSaveLoad line [^>]*>: (\d+):(\d+)", r.out, re.M)
    return sum(int(b) for _a, b in m)


def run(chk):
    quick = chk.tier == "quick"
    build = ["MCAddSheet", "MCRename", "MCRemoveSheet", "MCSetState", "MCSetActive", "MCAddMerge", "MCAddLink", "MCAddComment",
             "MCAddName"]
    rest = ["MCAddDv", "MCAddCf", "MCSetAf", "MCSetCode", "MCSetTab", "MCAddView", "MCSetPs", "MCSetHf", "MCSetProt", "MCSetWbProt"]
    for cfg, must in ((("MC_Annot.cfg", build), ("MC_Annot_rest.cfg", rest), ("MC_Annot_authors.cfg", ["MCAddComment"])) if quick else
                      (("MC_Annot_d4.cfg", build), ("MC_Annot_rest_d4.cfg", rest), ("MC_Annot_all.cfg", build + rest),
                       ("MC_Annot_authors.cfg", ["MCAddComment"]))):
        r = vlib.tlc_mc("MC_Annot", cfg, workers=4, check=chk, must_take=must, timeout=7200, heap="8g")
        if r is not None and saveload_taken(r) == 0:
            raise vlib.ToolError(f"vacuous model checking run: SaveLoad never taken in {cfg}")
    dev = vlib.run_tlc("MC_Annot", "MC_Annot_deviant.cfg", workers=4, coverage=False)
    if dev.violation is None or "AnnotationsKeptMC" not in dev.violation:
        raise vlib.ToolError("TLC did not refute AnnotationsKept for the design with two independently seeded enumerations "
                             "of the hyperlinks: the property would be vacuous (" + str(dev.violation) + ")")
    chk.extra["deviant_design_refuted"] = dev.violation + f" ({dev.generated} states generated)"
    cases = gen_cases(chk)
    events = judge(chk, cases)
    # hash-map iteration order differs per process and per map instance: link-heavy cases again, in fresh processes
    heavy = [c for c in cases if link_heavy(c)]
    rounds = 3 if quick else 30
    small = [c for c in heavy if len(c["steps"]) <= 12]
    big = [c for c in heavy if len(c["steps"]) > 12]
    pick = (small if len(small) <= 150 else chk.rng.sample(small, 150)) + (big if len(big) <= 8 else chk.rng.sample(big, 8)) \
        + [c for c in cases[-4:] if c not in big]
    extra = 0
    for rd in range(rounds):
        again = [dict(c, case=f"{c['case']}r{rd}") for c in pick]
        judge(chk, again, tag=f"c06r{rd}", jobs=2)
        extra += len(again)
    chk.extra["cases"]["link_heavy_cases_rerun_in_fresh_processes"] = {"cases": len(pick), "rounds": rounds, "processes": 2 * rounds}
    chk.evaluations = len(cases) + extra
    chk.nontrivial = {json.dumps(c["steps"], sort_keys=True) for c in cases if len(c["steps"]) > 2}
    chk.rule = ("a case is a history of public-API operations that build a workbook (sheets added/renamed/removed/hidden, "
                "active tab, merges, hyperlinks, comments, defined names at any home/scope, validations, conditional formats, "
                "auto filter, tab colour, code name, view, page setup, header/footer, sheet and workbook protection, macro payload) with "
                "one or more "
                "save+reload steps; cases = TLC paths (2 operations then a save, all pools; 3 comments by a pool of 4 mixed-case authors then a save), TLC-simulated histories of 40 "
                "operations, generated workbooks with up to 60 items per kind and sheet and XML-special / non-ASCII texts, "
                "link-heavy cases re-run in fresh processes; distinct = different step lists, non-trivial = at least one "
                "building operation before the save")
    def links_of(v):
        sh = (v or {}).get("sheets") or []
        return sh[0].get("links") if sh else None
    last = events[-4][-1] if events[-4] else {}
    chk.sample({"script": cases[0]["steps"], "post": events[0][-1].get("post") if events[0] else None})
    chk.sample({"script": cases[-4]["steps"][:4] + ["..."], "post_links_sheet1": links_of(last.get("post")),
                "file_links_sheet1": links_of(last.get("file"))})
    chk.assumptions += [
        "where a defined name is kept (workbook list or a sheet's list) is treated as representation: after a load it must "
        "sit where LoadWb's Home rule puts it (localSheetId, else the sheet named in the address, else the workbook)",
        "collections are compared as sets plus a no-duplicate check (order of merges, comments, validations, conditional "
        "formats and names is not part of the statement); sheets and the rules of one conditional format are sequences",
        "contract of the model: one comment per cell, defined names unique per (name, scope) - the same name may be global "
        "and local to several sheets -, localSheetId below the sheet count, sheets are renamed "
        "only while they keep no defined names, a sheet is removed only while no name has a localSheetId; comment "
        "shapes beyond their target cell are not compared; CR characters and blanks at the ends of validation / conditional "
        "format formulas are not generated",
        "a comment's text is the concatenation of its runs (blanks, tabs and line feeds at run edges included; run fonts are "
        "driven - bold heading run - but not compared); the code name of a sheet and the macro payload of a workbook are "
        "driven and carried (they decide how the sheetPr element that holds the tab colour is written) but are not compared",
        "python3 zipfile / expat (pydec/annot_view.py) are correct; the spelling table of a text (driver) is checked by TLC "
        "(concatenation of the characters equals the text) before it is used to compute an escaped / trimmed form"]


def replay(chk, path):
    with open(path) as f:
        rp = json.load(f)
    judge(chk, [norm(rp["script"])])
