"""C10 - the cell store stays coherent under any history of operations.

Spec: spec/CellStore.tla (+ Grid.tla): the store in its real representation (hash map with a per-cell copy of the
coordinate, two ordered indexes, row table, column table), every public operation as the sequence of sub-updates
the code performs.  MC_CellStore*.cfg: TLC checks Coherent, QueriesAgree, AllEmitted (writer model), InGrid and
the refinement of the reference grid's cell-set semantics on all operation sequences over a 3x3 window.
Behaviours of the specification (every depth-1 path, TLC-simulated random histories of 1..60 operations on a
12x8 grid) and generated histories at the real grid limits are executed by harness/src/bin/cellstore.rs, which
logs after every operation every query API the property names plus an in-memory save; pydec/cellrefs.py extracts
the <c r=..> references of the sheet part; Trace_CellStore.tla judges every step.
"""
import json, os, sys
import vlib

sys.path.insert(0, vlib.ROOT)
from pydec import cellrefs

MAXROW, MAXCOL = 1048576, 16384
ACTIONS = ["DoGetCellMut", "DoSetCell", "DoRemoveCell", "DoSetStyle", "DoSetStyleByRange", "DoInsert", "DoRemove",
           "DoMove", "DoCopy", "DoCleanup", "DoCopyRowStyling", "DoCopyColStyling"]


def rect(r1, c1, r2, c2):
    return {"r1": r1, "c1": c1, "r2": r2, "c2": c2}


def finish_script(replay, rng, reload=None):
    """A TLC behaviour -> a driver script: choose the entry point of insert/remove (workbook level by sheet name or
    sheet level) and whether the initial sheet goes through a save/reload first (then the store is filled by the
    reader through Cells::add).  Content-free cells need not survive a save (the writer may drop them): in a
    reloaded initial sheet they get a value instead, which keeps the history inside its contract (no contract
    depends on cell content)."""
    steps = []
    for st in replay:
        st = dict(st)
        if st["a"] in ("Insert", "Remove"):
            st["lvl"] = rng.choice(["wb", "ws"])
        steps.append(st)
    init = steps[0]
    init["cells"] = sorted((dict(c) for c in init["cells"]), key=lambda c: (c["r"], c["c"]))
    init["rows"] = sorted((dict(r) for r in init["rows"]), key=lambda r: r["r"])
    init["cols"] = sorted((dict(c) for c in init["cols"]), key=lambda c: c["c"])
    init["reload"] = (rng.random() < 0.3) if reload is None else reload
    if init["reload"]:
        for c in init["cells"]:
            if c["v"] == "" and c["s"] == "":
                c["v"] = f"b{c['r']}_{c['c']}"
    return {"steps": steps}


def blank_cell_cases():
    """Always run: content-free cells (no value, no style) next to cells with content - the writer may drop the
    former but must write the latter."""
    e = {"a": "Init", "cells": [], "rows": [], "cols": [], "reload": False}
    return [
        {"steps": [dict(e), {"a": "GetCellMut", "r": 2, "c": 2}, {"a": "SetCell", "r": 1, "c": 1, "v": "x", "s": ""},
                   {"a": "SetStyle", "r": 3, "c": 1, "s": ""}, {"a": "SetCell", "r": 2, "c": 2, "v": "y", "s": ""}]},
    ]


def limit_cases(rng, count):
    """Histories next to the real grid limits and at line 1.  In-range by construction: top[ax] is an upper bound of
    everything occupied on that axis (cells and dimension entries)."""
    cases = []
    for _ in range(count):
        far_r, far_c = rng.random() < 0.7, rng.random() < 0.7
        r0 = MAXROW - rng.randint(3, 40) if far_r else rng.randint(1, 5)
        c0 = MAXCOL - rng.randint(3, 20) if far_c else rng.randint(1, 4)
        cells = [{"r": r0, "c": c0, "v": "x", "s": "F"}, {"r": r0 + 1, "c": c0 + 2, "v": "y", "s": ""},
                 {"r": r0 + 2, "c": c0 + 1, "v": "", "s": "N"}]
        if rng.random() < 0.5:
            cells.append({"r": 1, "c": 1, "v": "z", "s": ""})
        if rng.random() < 0.3:
            cells.append({"r": r0 + 2, "c": c0, "v": "", "s": ""})
        corner = rng.random() < 0.25
        if corner:
            cells.append({"r": MAXROW, "c": MAXCOL, "v": "corner", "s": ""})
        cells = list({(c["r"], c["c"]): c for c in cells}.values())
        init = {"a": "Init", "cells": cells, "rows": [{"r": r0 + 1, "s": rng.choice(["", "N", "F"])}],
                "cols": [{"c": c0, "s": rng.choice(["N", "F"])}], "reload": False}
        top = {"row": MAXROW if corner else r0 + 2, "col": MAXCOL if corner else c0 + 2}
        lim = {"row": MAXROW, "col": MAXCOL}
        steps = [init]
        nv = 0

        def near(ax):
            base = r0 if ax == "row" else c0
            x = rng.choice([base - 1, base, base + 1, base + 2, base + 3, top[ax], top[ax] + 1, 1, 2, lim[ax] - 1, lim[ax]])
            return max(1, min(lim[ax], x))

        def touch(r, c):
            top["row"] = max(top["row"], r)
            top["col"] = max(top["col"], c)

        for _ in range(rng.randint(1, 14)):
            kind = rng.random()
            if kind < 0.30:
                r, c = near("row"), near("col")
                a = rng.choice(["GetCellMut", "SetCell", "SetCell", "RemoveCell", "SetStyle"])
                st = {"a": a, "r": r, "c": c}
                if a == "SetCell":
                    nv += 1
                    st["v"] = f"w{nv}"
                    st["s"] = rng.choice(["", "", "N", "F"])
                if a == "SetStyle":
                    st["s"] = rng.choice(["", "N", "F"])
                if a != "RemoveCell":
                    touch(r, c)
                steps.append(st)
            elif kind < 0.45:
                ax = rng.choice(["row", "col"])
                room = lim[ax] - top[ax]
                if room <= 0:
                    continue
                n = min(room, rng.choice([1, 2, room, max(1, room - 1), rng.randint(1, room)]))
                p = near(ax)
                steps.append({"a": "Insert", "ax": ax, "p": p, "n": n, "lvl": rng.choice(["wb", "ws"])})
                top[ax] += n
            elif kind < 0.62:
                ax = rng.choice(["row", "col"])
                p = near(ax)
                n = max(1, min(rng.choice([1, 2, 3, lim[ax] - p + 1]), lim[ax] - p + 1))
                steps.append({"a": "Remove", "ax": ax, "p": p, "n": n, "lvl": rng.choice(["wb", "ws"])})
            elif kind < 0.80:
                h, w = rng.randint(0, 2), rng.randint(0, 2)
                r1 = max(1, min(MAXROW - h, near("row")))
                c1 = max(1, min(MAXCOL - w, near("col")))
                g = rect(r1, c1, r1 + h, c1 + w)
                dr = rng.choice([MAXROW - g["r2"], 1 - g["r1"], 0, 1, -1, 2])
                dc = rng.choice([MAXCOL - g["c2"], 1 - g["c1"], 0, 1, -1, 2])
                dr = max(1 - g["r1"], min(MAXROW - g["r2"], dr))
                dc = max(1 - g["c1"], min(MAXCOL - g["c2"], dc))
                if dr == 0 and dc == 0:
                    continue
                steps.append({"a": rng.choice(["Move", "Copy"]), "g": g, "dr": dr, "dc": dc})
                touch(g["r2"] + dr, g["c2"] + dc)
            elif kind < 0.86:
                steps.append({"a": "Cleanup"})
            elif kind < 0.92:
                r1, c1 = near("row"), near("col")
                g = rect(r1, c1, min(MAXROW, r1 + rng.randint(0, 2)), min(MAXCOL, c1 + rng.randint(0, 2)))
                touch(g["r2"], g["c2"])
                steps.append({"a": "SetStyleByRange", "g": g, "s": rng.choice(["", "N", "F"])})
            else:
                if rng.random() < 0.5:
                    src, dst = near("row"), near("row")
                    lo = max(1, min(MAXCOL, near("col")))
                    hi = min(MAXCOL, lo + rng.randint(0, 3))
                    dflt = top["col"] <= 40 and rng.random() < 0.5
                    steps.append({"a": "CopyRowStyling", "src": src, "dst": dst, "hs": not dflt, "c1": lo,
                                  "he": not dflt, "c2": hi})
                    touch(dst, top["col"] if dflt else hi)
                else:
                    src, dst = near("col"), near("col")
                    lo = max(1, min(MAXROW, near("row")))
                    hi = min(MAXROW, lo + rng.randint(0, 3))
                    dflt = top["row"] <= 40 and rng.random() < 0.5
                    steps.append({"a": "CopyColStyling", "src": src, "dst": dst, "hs": not dflt, "r1": lo,
                                  "he": not dflt, "r2": hi})
                    touch(top["row"] if dflt else hi, dst)
        if len(steps) > 1:
            cases.append({"steps": steps})
    return cases


def gen_cases(chk):
    rng = chk.rng
    quick = chk.tier == "quick"
    cases = blank_cell_cases()
    r = vlib.run_tlc("MC_CellStore", "MC_CellStore_replay.cfg", workers=4, coverage=False)
    if not r.ok or not r.replays:
        raise vlib.ToolError("replay generation (depth 1) failed: " + (r.violation or r.out[-500:]))
    for rp in r.replays:
        cases.append(finish_script(rp, rng, reload=False))
        if rng.random() < 0.5:
            cases.append(finish_script(rp, rng, reload=True))
    n1 = len(cases)
    if not quick:
        r2 = vlib.run_tlc("MC_CellStore", "MC_CellStore_replay_d2.cfg", workers=6, coverage=False, timeout=3000)
        if not r2.ok or not r2.replays:
            raise vlib.ToolError("replay generation (depth 2) failed")
        for rp in r2.replays:
            cases.append(finish_script(rp, rng))
    n1b = len(cases)
    nsim = 300 if quick else 3000
    rs = vlib.run_tlc("MC_CellStore", "MC_CellStore_sim.cfg", workers=1, coverage=False, simulate=f"num={nsim}",
                      extra=["-depth", "70", "-seed", str(chk.seed)], timeout=5000)
    if rs.rc != 0 or rs.violation or not rs.replays:
        raise vlib.ToolError("TLC simulation of MC_CellStore_sim.cfg failed: " + (rs.violation or rs.out[-800:]))
    seen = set()
    lens = []
    for rp in rs.replays:
        key = json.dumps(rp, sort_keys=True)
        if key in seen:
            continue
        seen.add(key)
        lens.append(len(rp) - 1)
        cases.append(finish_script(rp, rng))
    n2 = len(cases)
    cases += limit_cases(rng, 150 if quick else 3000)
    chk.extra["cases"] = {"tlc_paths_depth1": n1 - 1, "tlc_paths_depth2": n1b - n1, "tlc_simulated_histories": len(seen),
                          "simulated_history_lengths": {"min": min(lens), "max": max(lens),
                                                        "mean": round(sum(lens) / len(lens), 1)},
                          "grid_limit_histories": len(cases) - n2}
    for i, c in enumerate(cases):
        c["case"] = i
    return cases


def add_saved(events):
    """Projection of the saved bytes: the <c r=..> references of the sheet part, by pydec/cellrefs.py."""
    nsaved = 0
    for evs in events:
        for e in evs:
            o = e.get("obs")
            if not isinstance(o, dict):
                continue
            hx = o.pop("xlsx", "")
            o["saved"], o["savedrows"] = [], []
            if o.get("saveout") == "ok":
                try:
                    rows, cells = cellrefs.cell_refs_hex(hx)
                    o["saved"], o["savedrows"] = cells, rows
                    nsaved += 1
                except Exception as ex:           # not a readable package: data for the judge, not a tool error
                    o["saveout"] = "unreadable"
    return nsaved


def describe(case, ev, detail):
    if ev is None:
        return detail
    return f"step {json.dumps({k: v for k, v in ev.items() if k not in ('obs', 'cells', 'rows', 'cols')})}: {detail}"


def judge(chk, cases, batch=1200):
    """Drive and validate in batches (bounded memory); returns the events of the first batch (for samples) and the
    number of judged events."""
    first_events, total = None, 0
    for b0 in range(0, len(cases), batch):
        part = cases[b0:b0 + batch]
        events = vlib.run_cases("cellstore", part, timeout=120, jobs=min(6, max(1, vlib.NCPU - 2)))
        nsaved = add_saved(events)
        out = vlib.validate("Trace_CellStore", "Trace_CellStore.cfg", events, chk.open_ids, f"c10-{b0}", chunk_events=1200,
                            jobs=min(8, max(1, vlib.NCPU - 2)))
        first = {}
        for ci, off, detail in out["mismatch"]:
            if ci not in first or off < first[ci][0]:
                first[ci] = (off, detail)
        for ci, (off, detail) in first.items():
            # (after an earlier mismatch the specification follows the observed state, so only a *first*
            # mismatch of kind "gen" blames the generator)
            if detail.startswith('<<"gen"'):
                raise vlib.ToolError(f"generator produced an out-of-contract step (case {b0 + ci}, step {off}): {detail}")
        chk.process_validation(out, part, events, "cellstore", describe)
        chk.extra["saves_decoded"] = chk.extra.get("saves_decoded", 0) + nsaved
        total += sum(len(e) for e in events)
        if first_events is None:
            first_events = events
    return first_events, total


def run(chk):
    w = 4 if chk.tier == "quick" else 8
    vlib.tlc_mc("MC_CellStore", "MC_CellStore.cfg", workers=w, must_take=ACTIONS, check=chk)
    if chk.tier == "quick":
        vlib.tlc_mc("MC_CellStore", "MC_CellStore_d3.cfg", workers=w, must_take=ACTIONS, check=chk)
    else:                                  # depth 3 with the full pools, depth 4 with the lean pools
        vlib.tlc_mc("MC_CellStore", "MC_CellStore_d3full.cfg", workers=w, timeout=7200, heap="12g", must_take=ACTIONS, check=chk)
        vlib.tlc_mc("MC_CellStore", "MC_CellStore_d4.cfg", workers=w, timeout=7200, heap="12g", must_take=ACTIONS, check=chk)
    cases = gen_cases(chk)
    events, chk.evaluations = judge(chk, cases, batch=1200 if chk.tier == "quick" else 600)
    chk.nontrivial = {json.dumps(c["steps"], sort_keys=True) for c in cases if len(c["steps"]) > 1}
    chk.rule = ("a case is an initial sheet (built through the public API, in part saved and reloaded first) plus a "
                "history of get_cell_mut/set_cell/remove_cell/set_style(_by_range)/insert/remove rows and columns "
                "(workbook and sheet level)/move/copy range/cleanup/copy_row_styling/copy_col_styling; after every "
                "operation every query API and an in-memory save are recorded and judged; evaluations = judged "
                "events; distinct = different step lists, non-trivial = at least one operation")
    k = next((i for i, c in enumerate(cases[:len(events)]) if len(c["steps"]) > 6), 0)
    last = events[k][-1]
    chk.sample({"script": cases[0]["steps"][1:], "saved_refs_after_last_step": events[0][-1].get("obs", {}).get("saved")})
    chk.sample({"script": cases[k]["steps"][1:8], "sorted_listing_after_last_step": last.get("obs", {}).get("sorted"),
                "dimension": last.get("obs", {}).get("dim")})
    chk.assumptions += [
        "in-range arguments only (nothing pushed beyond XFD1048576; move/copy destination inside the grid)",
        "set_style_by_range is driven with cell ranges (A1:B2); the whole-row / whole-column forms (1:3, A:B) are "
        "rejected by the library's own assertion 'Non-standard range.' before anything is touched",
        "cells carry plain text values and one of three styles; no formulas or hyperlinks (C08/C06)",
        "cell content and the row/column tables are taken over from the observation after each accepted step; "
        "judged are the key set, the coordinates cells report, every query, the row-known clause and the saved refs",
    ]


def replay(chk, path):
    with open(path) as f:
        rp = json.load(f)
    judge(chk, [rp["script"]])
