"""X01 (extension domain "Meta") - per-sheet settings and workbook metadata: setters / getters, sheet-list operations,
save + load (eager, lazy with and without materialising sheets).

Spec: spec/Meta.tla (properties P1..P5 in its header; state = workbook -> sheets -> record of aspect values + document
properties; one action per setter, sheet-list operations, Save, Load(eager|lazy), Materialise).
MC_Meta*.cfg: TLC checks Independence (P2), ListOps (P5), RoundTrip (P3), Observers (P3/P4 at the level of the two
projections), WellFormed on small pools; the deviant design (a raw sheet saved from the part at its POSITION in the file
loaded last) must be REFUTED by TLC.
Behaviours of the specification (every path "one operation, Save, Load(eager|lazy)", TLC-simulated histories of 30
operations, TLC-simulated histories of the shape "operations, Save, Load(lazy), two operations, Save, Load") and
generator-made histories (all aspects with wide value domains, XML-special / blank-padded / non-ASCII texts, several
save generations with partly raw sheets) and histories that start from the real-world files of tests/test_files (the
independent reader's view of the original file is the initial model state; open eagerly / lazily, edit, save, load) are
executed by harness/src/bin/meta.rs, which logs the projection of the whole
workbook after every step; every written file is projected by pydec/meta_view.py (own OPC walk, ECMA-376 defaults for
absent attributes); spec/Trace_Meta.tla judges.
"""
import json, os, shutil, tempfile, time
import vlib
from pydec import meta_view

FLAG_KEYS = ["sheet", "objects", "scenarios", "formatCells", "formatColumns", "formatRows", "insertColumns", "insertRows",
             "insertHyperlinks", "deleteColumns", "deleteRows", "selectLocked", "selectUnlocked", "sort", "autoFilter", "pivotTables"]
PROP_KEYS = ["title", "subject", "creator", "keywords", "description", "lastmod", "category", "version", "revision",
             "created", "modified", "manager", "company"]
SHEET_NAMES = ["S1", "Data", "My & Sheet", "O'Brien", "a<b>", "Übersicht", "表", "q\"uote", "Sheet 2", "tab>", "Résumé & Co"]
# texts: XML-special characters, inner line breaks / tabs, non-ASCII; PADDED ones carry leading / trailing blanks
TEXTS = ["Report", "a & b <c>", "q\"uote's", "Über 表 \U0001F600", "line1\nline2", "tab\there", "&CPage &P of &N", "&L<left>&R\"r\"",
         "x]]>y", "1 < 2 > 0", "a b", "e"]
PADDED = [" padded ", "trail ", " lead", "\tt", "n\n", "  ", " a & b "]
ARGB = ["FFFF0000", "FF00B050", "FF123456", "80ABCDEF", "FF0000FF", "FFFFFF00"]
CELLS = ["A1", "B3", "C5", "D7", "AA10", "XFD1048576"]
DV_TYPES = [("list", "between", "\"a,b,c\"", ""), ("whole", "between", "1", "10"), ("decimal", "greaterThan", "0.5", ""),
            ("textLength", "lessThanOrEqual", "20", ""), ("custom", "between", "A1<>\"x&y\"", ""), ("date", "notBetween", "40000", "41000")]
CF_RULES = [("cellIs", "greaterThan", True, "5"), ("expression", "equal", True, "A1<>\"x&y\""), ("duplicateValues", "equal", False, ""),
            ("containsBlanks", "equal", True, "LEN(TRIM(A1))=0"), ("cellIs", "between", True, "B2<3"),
            ("top10", "equal", False, ""), ("containsText", "containsText", True, "NOT(ISERROR(SEARCH(\"a\",A1)))")]
PM_VALUES = ["0", "0.25", "0.3", "0.5", "0.7", "0.75", "1", "1.25", "2"]


# ------------------------------------------------------------------------------------------------------------------
# generator
# ------------------------------------------------------------------------------------------------------------------
def text(rng, padded=0.15):
    return rng.choice(PADDED) if rng.random() < padded else rng.choice(TEXTS)


def sheet_ops(rng, s, n):
    """n random setter steps on sheet s (any aspect)"""
    out = []
    uniq = [0]

    def nxt():
        uniq[0] += 1
        return uniq[0]
    for _ in range(n):
        k = rng.randrange(31)
        if k == 0:
            out.append({"a": "SetState", "s": s, "v": rng.choice(["hidden", "veryHidden", "visible"])})
        elif k == 1:
            out.append({"a": "SetTab", "s": s, "v": rng.choice(ARGB)})
        elif k == 2:
            out.append({"a": "ClearTab", "s": s})
        elif k == 3:
            out.append({"a": "SetZoom", "s": s, "v": rng.choice([10, 75, 100, 150, 400])})
        elif k == 4:
            out.append({"a": "SetZoomNormal", "s": s, "v": rng.choice([10, 80, 100, 400])})
        elif k == 5:
            out.append({"a": "SetGrid", "s": s, "v": rng.random() < 0.5})
        elif k == 6:
            out.append({"a": "SetMode", "s": s, "v": rng.choice(["normal", "pageBreakPreview", "pageLayout"])})
        elif k == 7:
            out.append({"a": "SetTabSel", "s": s, "v": rng.random() < 0.7})
        elif k == 8:
            out.append({"a": "SetTopLeft", "s": s, "v": rng.choice(CELLS)})
        elif k == 9:
            fz = rng.random() < 0.7
            out.append({"a": "SetPane", "s": s, "xs": str(rng.randint(0, 3)) if fz else rng.choice(["1200", "2400.5"]),
                        "ys": str(rng.randint(1, 5)) if fz else rng.choice(["900", "0"]), "tl": rng.choice(CELLS[:5]),
                        "ap": rng.choice(["bottomRight", "bottomLeft", "topRight", "topLeft"]),
                        "st": "frozen" if fz else rng.choice(["split", "frozenSplit"])})
        elif k == 10:
            cell = rng.choice(CELLS[:4])
            sq = rng.choice([cell, f"{cell}:E9", f"{cell} G1:G3", f"F1:F2 {cell}:E8"])
            out.append({"a": "AddSel", "s": s, "pane": rng.choice(["bottomRight", "bottomLeft", "topRight", "topLeft"]), "cell": cell, "sqref": sq})
        elif k == 11:
            out.append({"a": "SetProt", "s": s, "flags": {f: rng.random() < 0.5 for f in rng.sample(FLAG_KEYS, rng.randint(1, len(FLAG_KEYS)))}})
        elif k == 12:
            out.append({"a": "SetProtPw", "s": s, "pw": rng.choice(["secret", "p&w<d>", "über"])})
        elif k == 13:
            out.append({"a": "ClearProt", "s": s})
        elif k == 14:
            out.append({"a": "SetOrient", "s": s, "v": rng.choice(["landscape", "portrait", "default"])})
        elif k == 15:
            key = rng.choice(["paper", "scale", "fitw", "fith"])
            v = {"paper": [1, 8, 9, 11], "scale": [10, 80, 100, 400], "fitw": [0, 1, 2, 5], "fith": [0, 1, 3]}[key]
            out.append({"a": "SetPsNum", "s": s, "k": key, "v": rng.choice(v)})
        elif k == 16:
            out.append({"a": "SetPo", "s": s, "k": rng.choice(["hc", "vc"]), "v": rng.random() < 0.6})
        elif k in (17, 18):
            out.append({"a": "SetPm", "s": s, "k": rng.choice("lrtbhf"), "v": rng.choice(PM_VALUES)})
        elif k in (19, 20):
            out.append({"a": "SetHf", "s": s, "k": rng.choice("hf"), "v": text(rng, 0.25) if rng.random() < 0.9 else ""})
        elif k == 21:
            out.append({"a": "SetRowHidden", "s": s, "r": rng.choice([1, 2, 3, 7, 1048576]), "v": rng.random() < 0.75})
        elif k == 22:
            out.append({"a": "SetColHidden", "s": s, "c": rng.choice([1, 2, 3, 4, 5, 16384]), "v": rng.random() < 0.75})
        elif k == 23:
            out.append({"a": "SetAf", "s": s, "v": f"A1:{rng.choice(['C', 'Z', 'XFD'])}{rng.randint(2, 99)}"})
        elif k == 24:
            out.append({"a": "ClearAf", "s": s})
        elif k in (25, 26):
            ty, op, f1, f2 = rng.choice(DV_TYPES)
            j = nxt()
            out.append({"a": "AddDv", "s": s, "sqref": f"P{j}:Q{j + 1}" + (f" S{j}" if rng.random() < 0.3 else ""), "type": ty, "op": op,
                        "blank": rng.random() < 0.5, "showin": rng.random() < 0.5, "showerr": rng.random() < 0.5,
                        "ptitle": text(rng)[:30] if rng.random() < 0.6 else "", "prompt": text(rng) if rng.random() < 0.6 else "",
                        "etitle": text(rng)[:30] if rng.random() < 0.4 else "", "emsg": text(rng) if rng.random() < 0.4 else "",
                        "f1": f1, "f2": f2})
        elif k == 27:
            out.append({"a": "ClearDvs", "s": s})
        elif k in (28, 29):
            rules = []
            j = nxt()
            for _r in range(rng.randint(1, 3)):
                ty, op, hasf, f = rng.choice(CF_RULES)
                sty = [{"bold": rng.random() < 0.5, "fill": rng.choice(ARGB[:3] + ARGB[4:])}] if rng.random() < 0.7 else []
                rules.append({"type": ty, "op": op, "prio": nxt(), "stop": rng.random() < 0.3, "hasf": hasf, "f": f, "sty": sty,
                              "text": rng.choice(["a", "a & <b>"]) if ty == "containsText" and rng.random() < 0.6 else "",
                              "rank": rng.choice([1, 3, 10]) if ty == "top10" else 0,
                              "percent": ty == "top10" and rng.random() < 0.5, "bottom": ty == "top10" and rng.random() < 0.5})
            out.append({"a": "AddCf", "s": s, "sqref": f"U{j}:V{j + 3}" + (f" X{j}:X{j + 1}" if rng.random() < 0.3 else ""), "rules": rules})
        else:
            out.append({"a": "Materialise", "s": s})
    return out


def wb_ops(rng, n, names):
    out = []
    for _ in range(n):
        k = rng.randrange(4)
        if k <= 1:
            key = rng.choice(PROP_KEYS)
            v = rng.choice(["2020-01-02T03:04:05Z", "2024-12-31T23:59:59Z"]) if key in ("created", "modified") else text(rng)
            out.append({"a": "SetProp", "k": key, "v": v})
        elif k == 2 and len(names) < 12:
            nm = f"c{len(names)}{rng.choice(['', ' & <x>', ' ü'])}"
            names.append(nm)
            kind = rng.choice(["str", "num", "bool", "date"])
            out.append({"a": "AddCustom", "name": nm, "kind": kind, "v": text(rng) if kind == "str" else ("2021-02-03T10:00:00Z" if kind == "date" else ""),
                        "n": rng.choice([0, -5, 42, 2147483647, -2147483648]) if kind == "num" else 0, "b": rng.random() < 0.5 if kind == "bool" else False})
        else:
            out.append({"a": "SetActive", "i": rng.randint(0, 3)})
    return out


def rand_case(rng, size):
    """Build, save, load (eager or lazy), go on (materialise some sheets, edit, change the sheet list), save and load
    again: up to three generations."""
    ns = rng.randint(1, 4)
    base = rng.choice(["empty", "new_file"])
    names = rng.sample(SHEET_NAMES, ns)
    if base == "new_file":
        names[0] = "Sheet1"
    steps = [{"a": "Init", "base": base, "sheets": list(names)}]
    customs = []
    for gen in range(rng.randint(1, 3)):
        for _ in range(rng.randint(1, size)):
            r = rng.random()
            if r < 0.72:
                steps += sheet_ops(rng, rng.randint(1, len(names)), 1)
            elif r < 0.84:
                steps += wb_ops(rng, 1, customs)
            elif r < 0.89 and len(names) < 5:
                nm = rng.choice(SHEET_NAMES)          # (a used name is refused: part of the model)
                steps.append({"a": "AddSheet", "name": nm})
                if nm not in names:
                    names.append(nm)
            elif r < 0.94 and len(names) >= 2:
                i = rng.randint(1, len(names))
                steps.append({"a": "RemoveSheet", "s": i})
                del names[i - 1]
            else:
                i = rng.randint(1, len(names))
                nm = rng.choice(SHEET_NAMES)
                steps.append({"a": "Rename", "s": i, "name": nm})
                if nm not in names:
                    names[i - 1] = nm
        steps.append({"a": "Save", "via": rng.choice(["path", "mem"]), "light": rng.random() < 0.25})
        steps.append({"a": "Load", "mode": rng.choice(["eager", "lazy", "lazy"]), "via": rng.choice(["path", "mem"])})
    if steps[-1]["mode"] == "lazy":
        for i in range(1, len(names) + 1):
            if rng.random() < 0.7:
                steps.append({"a": "Materialise", "s": i})
    return {"steps": steps}


CORPUS = os.path.join(vlib.REPO, "tests", "test_files")


def corpus_cases(rng, quick):
    """Real-world files as initial states: what the independent reader sees in the original file is the model state
    (absent optional attributes stay absent); open (eager | lazy), optionally edit settings, save, load, compare."""
    out, skipped = [], []
    if not os.path.isdir(CORPUS):
        return out, skipped
    for name in sorted(os.listdir(CORPUS)):
        path = os.path.join(CORPUS, name)
        if not name.lower().endswith((".xlsx", ".xlsm")):
            continue
        try:
            with open(path, "rb") as f:
                o = meta_view.view(f.read(), raw=True)
        except Exception:
            o = {"ok": False}
        if not o["ok"] or not o["sheets"]:
            skipped.append(name)              # not a package the independent reader can read: no initial state
            continue
        big = os.path.getsize(path) > 600000
        ns = len(o["sheets"])
        # (C11-KF3, open: saving panics when a materialised sheet has a chart whose data is on a sheet that is still raw)
        charts = b"xl/charts/" in open(path, "rb").read()
        out.append({"steps": [{"a": "OpenFile", "path": path, "mode": "eager", "via": "path"}, {"a": "Save", "via": "path", "light": False},
                              {"a": "Load", "mode": "eager", "via": "path"}]})
        if big and quick:
            continue
        for rep in range(1 if quick else 4):
            # lazy: materialise some sheets, edit one of them, save with the rest still raw
            steps = [{"a": "OpenFile", "path": path, "mode": "lazy", "via": rng.choice(["path", "mem"])}]
            mats = [i for i in range(1, ns + 1) if rng.random() < 0.5]
            if charts:
                mats = list(range(1, ns + 1)) if rng.random() < 0.7 else []
            steps += [{"a": "Materialise", "s": i} for i in mats]
            if mats:
                steps += [st for st in sheet_ops(rng, rng.choice(mats), rng.randint(1, 3)) if st["a"] not in ("AddDv", "AddCf")]
            steps += [{"a": "Save", "via": rng.choice(["path", "mem"]), "light": False}, {"a": "Load", "mode": rng.choice(["eager", "lazy"]), "via": "path"}]
            if steps[-1]["mode"] == "lazy":
                steps += [{"a": "Materialise", "s": i} for i in range(1, ns + 1)]
            out.append({"steps": steps})
            # eager: a few setters on any sheet and on the document properties
            steps = [{"a": "OpenFile", "path": path, "mode": "eager", "via": rng.choice(["path", "mem"])}]
            for _ in range(rng.randint(1, 4)):
                steps += [st for st in sheet_ops(rng, rng.randint(1, ns), 1) if st["a"] not in ("AddDv", "AddCf")]
            steps += [st for st in wb_ops(rng, rng.randint(0, 2), ["c%d" % k for k in range(len(o["custom"]))]) if st["a"] != "SetActive"]
            steps += [{"a": "Save", "via": "path", "light": rng.random() < 0.2}, {"a": "Load", "mode": rng.choice(["eager", "lazy"]), "via": "mem"}]
            if steps[-1]["mode"] == "lazy":
                steps += [{"a": "Materialise", "s": i} for i in range(1, ns + 1)]
            out.append({"steps": steps})
    return out, skipped


def exemplars():
    """Cases that always exercise the open findings."""
    out = []
    out.append({"steps": [{"a": "Init", "base": "empty", "sheets": ["S1"]}, {"a": "SetActiveCell", "s": 1, "v": "B5"},
                          {"a": "Save", "via": "path", "light": False}, {"a": "Load", "mode": "eager", "via": "path"}]})
    out.append({"steps": [{"a": "Init", "base": "empty", "sheets": ["S1"]}, {"a": "SetStateStr", "s": 1, "v": "hidden"},
                          {"a": "Save", "via": "path", "light": False}, {"a": "Load", "mode": "eager", "via": "path"}]})
    out.append({"steps": [{"a": "Init", "base": "empty", "sheets": ["S1"]}, {"a": "SetProp", "k": "title", "v": " Report "},
                          {"a": "AddCustom", "name": "c", "kind": "str", "v": " x ", "n": 0, "b": False},
                          {"a": "Save", "via": "path", "light": False}, {"a": "Load", "mode": "eager", "via": "path"}]})
    out.append({"steps": [{"a": "Init", "base": "empty", "sheets": ["S1"]},
                          {"a": "AddSel", "s": 1, "pane": "topLeft", "cell": "A1", "sqref": "A10:B20 A1"},
                          {"a": "Save", "via": "path", "light": False}, {"a": "Load", "mode": "eager", "via": "path"}]})
    out.append({"steps": [{"a": "Init", "base": "empty", "sheets": ["S1"]},
                          {"a": "AddDv", "s": 1, "sqref": "A1:A5", "type": "whole", "op": "between", "blank": True, "showin": True,
                           "showerr": False, "ptitle": "", "prompt": "line1\nline2", "etitle": "", "emsg": "", "f1": "1", "f2": "10"},
                          {"a": "Save", "via": "path", "light": False}, {"a": "Load", "mode": "eager", "via": "path"}]})
    out.append({"steps": [{"a": "Init", "base": "empty", "sheets": ["S1"]},
                          {"a": "AddCf", "s": 1, "sqref": "A1:A9", "rules": [
                              {"type": "containsText", "op": "containsText", "prio": 1, "stop": False, "hasf": True,
                               "f": "NOT(ISERROR(SEARCH(\"a\",A1)))", "sty": [], "text": "a", "rank": 0, "percent": False, "bottom": False}]},
                          {"a": "Save", "via": "path", "light": False}, {"a": "Load", "mode": "eager", "via": "path"}]})
    if os.path.exists(os.path.join(CORPUS, "libre2.xlsx")):
        out.append({"steps": [{"a": "OpenFile", "path": os.path.join(CORPUS, "libre2.xlsx"), "mode": "eager", "via": "path"}]})
    out.append({"steps": [{"a": "Init", "base": "empty", "sheets": ["S1"]},
                          {"a": "SetPane", "s": 1, "xs": "1", "ys": "0", "tl": "B1", "ap": "topRight", "st": "frozen"},
                          {"a": "AddSel", "s": 1, "pane": "topRight", "cell": "B1", "sqref": "B1"},
                          {"a": "Save", "via": "path", "light": False}, {"a": "Load", "mode": "eager", "via": "path"}]})
    return out


# ------------------------------------------------------------------------------------------------------------------
def spell(s):
    return {"s": s, "c": list(s)}


def project(cases, events):
    """Add the independent view of every written file to its Save event, and to every Load event the spelling of the
    texts the case puts into document properties (TLC checks the spelling before it uses it)."""
    for case, evs in zip(cases, events):
        texts = sorted({st["v"] for st in case["steps"] if st["a"] in ("SetProp", "AddCustom") and isinstance(st.get("v"), str)})
        attrs = sorted({st[k] for st in case["steps"] if st["a"] == "AddDv" for k in ("ptitle", "prompt", "etitle", "emsg")}
                       | {st["name"] for st in case["steps"] if st["a"] == "AddCustom"})
        for e in evs:
            if e.get("a") == "Save":
                path = e.pop("path", "")
                try:
                    with open(path, "rb") as f:
                        data = f.read()
                    e["file"] = meta_view.view(data)
                except Exception as ex:                              # unreadable package: data, not a tool error
                    e["file"] = meta_view.empty()
                    e["file"]["err"] = f"{type(ex).__name__}: {ex}"[:200]
                e["chars"] = [spell(t) for t in attrs if any(ch in t for ch in "\n\t\r")]
            elif e.get("a") == "Load":
                e["chars"] = [spell(t) for t in texts if t != t.strip(" \t\r\n")]
            elif e.get("a") == "OpenFile":
                try:
                    with open(e["path"], "rb") as f:
                        e["orig"] = meta_view.view(f.read(), raw=True)
                except Exception as ex:
                    e["orig"] = meta_view.empty()
                    e["orig"]["err"] = f"{type(ex).__name__}: {ex}"[:200]
                o = e["orig"]
                ptexts = set(o["props"].values()) | {c["v"] for c in o["custom"]} | {x["t"] for x in o.get("core_seq", [])}
                texts = sorted(set(texts) | ptexts)
                e["chars"] = [spell(t) for t in sorted(ptexts) if t != t.strip(" \t\r\n")]
    return events


def gen_cases(chk):
    rng = chk.rng
    quick = chk.tier == "quick"
    cases = []
    r = vlib.run_tlc("MC_Meta", "MC_Meta_replay.cfg", workers=4, coverage=False, timeout=1800)
    if not r.ok or not r.replays:
        raise vlib.ToolError("replay generation failed: " + (r.violation or r.out[-500:]))
    cases += [{"steps": rp} for rp in r.replays]
    n1 = len(cases)
    if not quick:
        r4 = vlib.run_tlc("MC_Meta", "MC_Meta_replay_d4.cfg", workers=4, coverage=False, timeout=3000, heap="8g")
        if not r4.ok or not r4.replays:
            raise vlib.ToolError("replay generation (two operations) failed: " + (r4.violation or r4.out[-500:]))
        reps = r4.replays if len(r4.replays) <= 12000 else rng.sample(r4.replays, 12000)
        cases += [{"steps": rp} for rp in reps]
    n1b = len(cases)
    seen = set()
    for cfg, num, depth in (("MC_Meta_sim.cfg", 150 if quick else 2000, 32), ("MC_Meta_sim_sls.cfg", 400 if quick else 4000, 11)):
        rs = vlib.run_tlc("MC_Meta", cfg, workers=1, coverage=False, simulate=f"num={num}",
                          extra=["-depth", str(depth), "-seed", str(chk.seed)], timeout=3000)
        if rs.rc != 0 or rs.violation or not rs.replays:
            raise vlib.ToolError(f"TLC simulation of {cfg} failed: " + (rs.violation or rs.out[-500:]))
        for rp in rs.replays:
            key = json.dumps(rp, sort_keys=True)
            if key not in seen:
                seen.add(key)
                cases.append({"steps": rp})
    n2 = len(cases)
    for k in range(500 if quick else 5000):
        cases.append(rand_case(rng, rng.choice([2, 5, 10, 20])))
    n3 = len(cases)
    cc, skipped = corpus_cases(rng, quick)
    cases += cc
    ex = exemplars()
    cases += ex
    chk.extra["cases"] = {"tlc_paths_one_operation_save_load": n1, "tlc_paths_two_operations_save_load": n1b - n1,
                          "tlc_simulated_histories": n2 - n1b, "generated_histories": n3 - n2,
                          "real_world_file_histories": len(cc), "real_world_files_skipped_unreadable": skipped,
                          "finding_exemplars": len(ex)}
    for i, c in enumerate(cases):
        c["case"] = i
    return cases


def describe(case, ev, detail):
    if ev is None:
        return detail
    return f"step {json.dumps({k: v for k, v in ev.items() if k not in ('obs', 'file', 'chars', 'orig')})}: {detail}"


def judge(chk, cases, tag="x01"):
    t0 = time.time()
    tmp = tempfile.mkdtemp(prefix="meta-", dir=vlib.WORK)
    try:
        for c in cases:
            c["tmp"] = tmp
        events = project(cases, vlib.run_cases("meta", cases, timeout=60))
    finally:
        shutil.rmtree(tmp, ignore_errors=True)
        for c in cases:
            c.pop("tmp", None)
    t1 = time.time()
    out = vlib.validate("Trace_Meta", "Trace_Meta.cfg", events, chk.open_ids, tag, chunk_events=1500, jobs=4)
    first = {}
    for ci, off, detail in out["mismatch"]:
        if ci not in first or off < first[ci][0]:
            first[ci] = (off, detail)
    for ci, (off, detail) in first.items():
        # (after a mismatch the specification goes on from its own expectation: only a FIRST mismatch of kind "gen"
        # blames the generator / the model of a step)
        if detail.startswith('<<"gen"'):
            raise vlib.ToolError(f"generator or step model out of line with the library (case {ci}, step {off}): "
                                 f"{detail[:700]} script={json.dumps(cases[ci]['steps'])[:700]}")
    chk.process_validation(out, cases, events, "meta", describe)
    vlib.log(f"[x01] {tag}: {len(cases)} cases driven + projected in {t1 - t0:.1f}s, {out['events']} events validated in "
             f"{time.time() - t1:.1f}s, {len(out['kf'])} known-finding hits, {len(first)} rejected")
    return events


VIEW_ACTIONS = ["MCSetState", "MCSetStateStr", "MCSetActiveCell", "MCSetTab", "MCClearTab", "MCSetZoom", "MCSetZoomNormal", "MCSetGrid",
                "MCSetMode", "MCSetTabSel", "MCSetTopLeft", "MCSetPane", "MCAddSel", "MCSetProt", "MCSetProtPw", "MCClearProt"]
PAGE_ACTIONS = ["MCSetOrient", "MCSetPsNum", "MCSetPo", "MCSetPm", "MCSetHf", "MCSetRowHidden", "MCSetColHidden"]
DATA_ACTIONS = ["MCSetAf", "MCClearAf", "MCAddDv", "MCClearDvs", "MCAddCf", "MCSetProp", "MCAddCustom"]
LIST_ACTIONS = ["MCAddSheet", "MCRename", "MCRemoveSheet", "MCSetActive", "MCSave", "MCLoad"]


def run(chk):
    quick = chk.tier == "quick"
    vlib.tlc_mc("MC_Meta", "MC_Meta.cfg", workers=4, check=chk, must_take=VIEW_ACTIONS + PAGE_ACTIONS + DATA_ACTIONS + LIST_ACTIONS)
    vlib.tlc_mc("MC_Meta", "MC_Meta_store.cfg", workers=4, check=chk, must_take=LIST_ACTIONS + ["MCMaterialise", "MCSetTab", "MCSetZoom"])
    if not quick:
        vlib.tlc_mc("MC_Meta", "MC_Meta_store3.cfg", workers=4, check=chk, must_take=LIST_ACTIONS + ["MCMaterialise", "MCSetTab", "MCSetZoom"])
        vlib.tlc_mc("MC_Meta", "MC_Meta_view.cfg", workers=4, check=chk, must_take=VIEW_ACTIONS + LIST_ACTIONS + ["MCMaterialise"])
        vlib.tlc_mc("MC_Meta", "MC_Meta_page.cfg", workers=4, check=chk, must_take=PAGE_ACTIONS + LIST_ACTIONS + ["MCMaterialise"])
        vlib.tlc_mc("MC_Meta", "MC_Meta_data.cfg", workers=4, check=chk, must_take=DATA_ACTIONS + LIST_ACTIONS + ["MCMaterialise"])
        vlib.tlc_mc("MC_Meta", "MC_Meta_all3.cfg", workers=4, check=chk, timeout=7200, heap="8g",
                    must_take=VIEW_ACTIONS + PAGE_ACTIONS + DATA_ACTIONS + LIST_ACTIONS + ["MCMaterialise"])
    dev = vlib.run_tlc("MC_Meta", "MC_Meta_deviant.cfg", workers=4, coverage=False)
    if dev.violation is None or "RoundTrip" not in dev.violation:
        raise vlib.ToolError("TLC did not refute RoundTrip for the design that saves a raw sheet from the part at its position in "
                             "the file loaded last: the property would be vacuous (" + str(dev.violation) + ")")
    chk.extra["deviant_design_refuted"] = dev.violation + f" ({dev.generated} states generated)"
    cases = gen_cases(chk)
    events = judge(chk, cases)
    chk.evaluations = len(cases)
    chk.nontrivial = {json.dumps(c["steps"], sort_keys=True) for c in cases if len(c["steps"]) > 2}
    chk.rule = ("a case is a history of public-API operations on one workbook: setters of per-sheet settings (state, tab colour, "
                "sheet view: zoom / grid lines / mode / pane / selection, protection flags and password, page setup, print "
                "options, page margins, header / footer, hidden rows / columns, auto filter, data validations, conditional "
                "formats with style) and of document properties (core, extended, custom), sheet-list operations, Save, "
                "Load(eager | lazy), Materialise; the whole workbook is projected after every step and every written file is "
                "projected independently; cases = TLC paths (one operation, Save, Load; thorough: + two operations), "
                "TLC-simulated histories (30 free operations; operations, Save, Load(lazy), two operations, Save, Load), "
                "generated histories with wide value domains and up to three save generations, histories starting from the files of "
                "tests/test_files (initial state = the independent view of the original file); distinct = different step "
                "lists, non-trivial = at least two steps after Init")
    chk.sample({"script": cases[0]["steps"], "last_event": {k: v for k, v in events[0][-1].items() if k != "chars"}})
    chk.sample({"script": cases[-1]["steps"]})
    chk.assumptions += [
        "validations and conditional formats of a sheet are compared as sets plus a no-duplicate check (their order is not part "
        "of the statement); selections of a view, rules of a conditional format, custom properties and sheets are sequences",
        "optional attributes are three-valued in the model (never set / value); the independent reader applies the ECMA-376 "
        "defaults to absent attributes, so the file check compares what the file STATES, not how it is encoded",
        "in-contract values only: zoom 10..400, known enumeration values, operators always given explicitly for validations and "
        "conditional-format rules, numbers whose shortest decimal text is used on both sides (margins), no CR in texts",
        "the password hash of SetProtPw is random-salted: the model takes the hash fields the library produced as an opaque token "
        "and demands that they survive unchanged (hash correctness is C15)",
        "real-world files: only the aspects modelled are compared (theme colours, filter columns, x14 extensions, sheet-view and "
        "page-setup attributes the library has no accessor for are outside the projection); sheets of a package with charts "
        "are materialised all or none (C11-KF3)",
        "python3 zipfile / expat (pydec/xlsx.py, pydec/meta_view.py) are correct; the spelling table of a text is checked by TLC "
        "(concatenation of the characters equals the text) before it is used to compute a trimmed form"]


def replay(chk, path):
    with open(path) as f:
        rp = json.load(f)
    judge(chk, [rp["script"]], tag="x01replay")
