"""C14 - encrypted output decrypts to the exact package, with the right password only.

Spec: spec/Agile.tla (symbolic model: EncryptFile = what the library writes, Prog = the decryptor of
the standard as a program of terms; invariants Correct, LenDeclared, WrongPwFails, HmacCoversStream,
Layout, Fresh), MC_Agile*.cfg.
Conformance: harness/src/bin/agile.rs writes encrypted files through write_with_password,
write_with_password_light and set_password; pydec/cfb.py + pydec/agile_eval.py open the compound
file and evaluate the program *printed by TLC* on it; spec/Trace_Agile.tla judges every save.
"""
import json, os, shutil, tempfile
from concurrent.futures import ProcessPoolExecutor
import vlib
from pydec import agile_eval

DOMAIN = "agile"

# ---------------------------------------------------------------------------------------------
# passwords
# ---------------------------------------------------------------------------------------------
LONG_ASCII = "".join(chr(33 + (i * 7) % 90) for i in range(255))
LONG_MIXED = "".join(["a", "é", "Ж", "日", "\U0001F600", "\U00010348", "Z", "Ł"][i % 8] for i in range(255))
POOL = ["", "a", "password", "Pässwörd", "пароль", "Łódź",
        "p\U0001F600\U0001D518\U00010348", "\U0001F600\U0001F600\U0001F600", " lead and trail ", "A&<>\"'\\%",
        LONG_ASCII, LONG_MIXED, LONG_ASCII[:254], "\U0001F600" * 255]


def wrong_variants(pw):
    """Passwords that differ from pw in ways a faulty derivation would not notice."""
    out = [pw + "x"]
    if pw:
        out.append(pw[:-1])                                        # truncation by one
        out.append(chr(ord(pw[0]) ^ 0x100) + pw[1:])               # same low byte of the first UTF-16 unit
        out.append(pw[:-1] + chr(ord(pw[-1]) ^ 0x1))               # only the last character differs
        out.append(pw.swapcase() if pw.swapcase() != pw else pw + " ")
        if len(pw) > 16:
            out.append(pw[:15] + chr(ord(pw[15]) ^ 0x2) + pw[16:])   # differs after the 15th character only
    else:
        out += [" ", "\0"]
    seen, res = set(), []
    for w in out:
        try:
            w.encode("utf-16-le")
        except UnicodeEncodeError:
            continue
        if w != pw and w not in seen:
            seen.add(w)
            res.append(w)
    return res


def random_password(rng):
    n = rng.choice([1, 2, 3, 7, 8, 15, 16, 17, 31, 32, 33, 63, 64, 127, 128, 200, 254, 255, rng.randint(1, 255)])
    out = []
    for _ in range(n):
        k = rng.random()
        if k < 0.4:
            c = rng.randint(0x20, 0x7e)
        elif k < 0.7:
            c = rng.randint(0xa0, 0x2fff)
        elif k < 0.85:
            c = rng.choice([rng.randint(0x3000, 0xd7ff), rng.randint(0xe000, 0xfffd)])
        else:
            c = rng.randint(0x10000, 0x10ffff)
        out.append(chr(c))
    return "".join(out)


# ---------------------------------------------------------------------------------------------
# cases
# ---------------------------------------------------------------------------------------------
QUICK_SIZES = [0, 1, 15, 16, 17, 31, 32, 33, 4079, 4080, 4081, 4095, 4096, 4097, 8191, 8192, 8193,
               12287, 12288, 12289, 65535, 65536, 65537]


def thorough_sizes(rng):
    s = set(range(0, 66)) | set(range(4030, 4163)) | set(range(8126, 8259))
    for k in range(3, 66):
        s |= {k * 4096 - 1, k * 4096, k * 4096 + 1}
    for k in (100, 255, 256, 257):
        s |= {k * 4096 - 1, k * 4096, k * 4096 + 1, k * 4096 + 16, k * 4096 - 16}
    s |= {rng.randint(0, 300000) for _ in range(150)}
    return sorted(s)


def sp(pw, size, seed):
    return {"via": "set_password", "pw": pw, "size": size, "seed": seed}


def wp(pw, light, seed, cells=3, kind="num", fit=None, filler=0):
    d = {"via": "write_with_password_light" if light else "write_with_password", "pw": pw, "cells": cells,
         "kind": kind, "seed": seed, "filler": filler}
    if fit:
        d["fit"] = {"m": fit[0], "r": fit[1]}
    return d


def gen_cases(chk, replays):
    rng = chk.rng
    thorough = chk.tier == "thorough"
    cases = []
    pool = list(POOL)
    if thorough:
        pool += [random_password(rng) for _ in range(120)]
    # (1) every TLC history (abstract passwords p1/p2 bound to two different concrete passwords)
    for h in replays:
        a, b = rng.sample(pool, 2)
        bind = {"p1": a, "p2": b}
        cases.append({"origin": "tlc-history", "saves": [sp(bind[s["pw"]], s["size"], 11) for s in h]})
    # (2) boundary sizes through set_password, every password of the pool used
    sizes = thorough_sizes(rng) if thorough else QUICK_SIZES
    k = 0
    for n in sizes:
        per = 2
        saves = []
        for _ in range(per):
            saves.append(sp(pool[k % len(pool)], n, 1000 + k))
            k += 1
        cases.append({"origin": "boundary-size", "saves": saves})
    # packages beyond 1 MiB: segment numbers >= 256 (second byte of the little-endian block key in use)
    large = [256 * 4096 - 1, 256 * 4096, 256 * 4096 + 1, 257 * 4096 + 1]
    if thorough:
        large += [300 * 4096 + 17, 511 * 4096 + 4095, 513 * 4096 - 16, 1024 * 4096 + 1]
    for j, n in enumerate(large):
        cases.append({"origin": "large-package", "saves": [sp(pool[(2 * j + 2) % len(pool)], n, 3000 + j)]})
    for j, pw in enumerate(pool):
        cases.append({"origin": "every-password", "saves": [sp(pw, 4097 if j % 2 else 0, 7), sp(pw, 4096 + 15 * (j % 3), 7)]})
    # (3) the two workbook writers: package length steered around the 16-byte block and 4096-byte segment
    fits = [(16, 0), (16, 1), (16, 15), (4096, 0), (4096, 1), (4096, 4095)]
    if thorough:
        fits = [(16, r) for r in range(16)] + [(4096, r) for r in (0, 1, 2, 15, 16, 17, 4079, 4080, 4081, 4094, 4095)]
    for j, f in enumerate(fits):
        for light in (False, True):
            pw = pool[(3 * j + (1 if light else 0)) % len(pool)]
            cases.append({"origin": "writer-fit", "saves": [wp(pw, light, 50 + j, cells=2 + j % 5, fit=f)]})
    # workbooks of growing size, with numbers (package reproducible) and with shared strings (it is not)
    for j in range(12 if thorough else 3):
        pw = pool[(5 * j + 2) % len(pool)]
        cases.append({"origin": "writer-size", "saves": [
            wp(pw, False, 70 + j, cells=10 * (j + 1) ** 2, filler=rng.randint(0, 3000)),
            wp(pw, True, 70 + j, cells=10 * (j + 1) ** 2, filler=rng.randint(0, 3000)),
            wp(pw, j % 2 == 1, 90 + j, cells=4 + 30 * j, kind="str")]})
    # (4) freshness: the same password and the same input saved again and again, within one process
    for j in range(20 if thorough else 3):
        pw = pool[(7 * j + 2) % len(pool)]
        reps = 5 if thorough else 3
        cases.append({"origin": "same-input-again", "saves": [sp(pw, 100, 5)] * reps + [wp(pw, False, 5)] * 2 +
                      [wp(pw, True, 5)] * 2})
    # (5) random sizes and passwords
    for j in range(1500 if thorough else 12):
        pw = random_password(rng) if rng.random() < 0.7 else rng.choice(pool)
        n = rng.choice([rng.randint(0, 70), rng.randint(4000, 4200), rng.randint(8100, 8300), rng.randint(0, 40000),
                        16 * rng.randint(0, 600), 4096 * rng.randint(0, 12) + rng.choice([-1, 0, 1, 15, 16, 17])])
        cases.append({"origin": "random", "saves": [sp(pw, max(0, n), rng.randint(1, 1 << 30))]})
    for i, c in enumerate(cases):
        c["case"] = i
    return cases


# ---------------------------------------------------------------------------------------------
# driving + observing
# ---------------------------------------------------------------------------------------------
def pick_wrong(pw, k, salt):
    v = wrong_variants(pw)
    out = [v[0]]
    rest = v[1:]
    for j in range(min(k - 1, len(rest))):
        out.append(rest[(salt + j) % len(rest)])
    seen, res = set(), []
    for w in out:
        if w not in seen:
            seen.add(w)
            res.append(w)
    return res


def drive_and_observe(chk, cases, program, nwrong):
    """Run the cases on the real library, then open every written file with pydec.  Returns the list
    of per-case event lists (one event per save; paths removed)."""
    scratch = tempfile.mkdtemp(prefix="agile-", dir="/tmp")
    try:
        scripted = [dict(c, dir=os.path.join(scratch, f"c{j}")) for j, c in enumerate(cases)]
        raw = vlib.run_cases(DOMAIN, scripted, timeout=300, jobs=max(1, min(vlib.NCPU - 2, 8, len(cases))),
                             fatal_event=lambda c, kind: [
                                 {"a": "Save", "case": c["case"], "i": 0, "via": c["saves"][0]["via"], "pw": c["saves"][0]["pw"],
                                  "outcome": kind, "msg": "driver process " + kind, "enc": "", "ref": "", "ref2": ""}])
        jobs, where = [], []
        for ci, evs in enumerate(raw):
            for ei, e in enumerate(evs):
                if e.get("outcome") == "ok":
                    salt = ci * 7 + ei
                    jobs.append((program, e["enc"], e["pw"], pick_wrong(e["pw"], nwrong, salt), e["ref"], e["ref2"]))
                    where.append((ci, ei))
        with ProcessPoolExecutor(max_workers=max(1, min(vlib.NCPU - 2, 12))) as ex:
            observed = list(ex.map(agile_eval.observe_job, jobs, chunksize=2))
        blank = agile_eval.observe_file(program, "", "", [], "", "")     # type-stable defaults
        events = []
        for ci, evs in enumerate(raw):
            out = []
            for ei, e in enumerate(evs):
                ev = {k: v for k, v in e.items() if k not in ("enc", "ref", "ref2")}
                ev.update(blank)
                ev["units"] = agile_eval.utf16_units(e["pw"])
                if e.get("outcome") != "ok":
                    ev["malformed"] = ""
                out.append(ev)
            events.append(out)
        for (ci, ei), obs in zip(where, observed):
            events[ci][ei].update(obs)
        return events
    finally:
        shutil.rmtree(scratch, ignore_errors=True)


REASONS = {
    "outcome": "the save did not return Ok: outcome={outcome} {msg}",
    "malformed": "the output is not a file a decryptor of the standard can open: {malformed}",
    "verifier": "the password verifier does not match with the right password (H(verifierHashInput)={ver[0]:.24}.. "
                "decrypted verifierHashValue={ver[1]:.24}..)",
    "hmac": "the data-integrity HMAC over the whole EncryptedPackage stream does not verify (computed {mac[0]:.24}.. "
            "stored {mac[1]:.24}..)",
    "declared": "the declared length {declared} differs from the package length {ref_len}",
    "plain": "the decrypted bytes are not the package (sha256 {plain_sha:.16}.. length {plain_len}, package {ref_sha:.16}.. "
             "length {ref_len}, reproducible reference: {stable})",
    "wrongpw": "a different password passes the verifier",
    "fresh": "a random value is not fresh (equal to another value of this save or of an earlier save): {nonces}",
}


def describe(case, ev, detail):
    if not ev:
        return detail
    text = detail
    for code, t in REASONS.items():
        if f'"{code}"' in detail:
            try:
                text = t.format(stable=ev.get("ref_sha") == ev.get("ref2_sha"), **ev)
            except Exception:
                text = t
            if code == "wrongpw":
                text += " - tried: " + ", ".join(json.dumps(w["pw"])[:40] for w in ev.get("wrong", []))
            break
    return (f"save {ev.get('i')} of case '{case.get('origin')}' via {ev.get('via')} "
            f"(password {json.dumps(ev.get('pw'))[:60]} of {ev.get('units')} UTF-16 units, package {ev.get('ref_len')} bytes): "
            f"{text} [{detail}]")


def spec_prints(r):
    out = {}
    for line in r.prints:
        for tag in ("PROGRAM", "VECTORS"):
            head = f'<<"{tag}", '
            if line.startswith(head):
                out[tag] = json.loads(json.loads(line[len(head):-2]))
    if "PROGRAM" not in out or "VECTORS" not in out:
        raise vlib.ToolError("the specification did not print its decryptor program / vector terms")
    return out["PROGRAM"], out["VECTORS"]


def judge(chk, cases, program, nwrong):
    events = drive_and_observe(chk, cases, program, nwrong)
    out = vlib.validate("Trace_Agile", "Trace_Agile.cfg", events, chk.open_ids, "c14", chunk_events=60,
                        jobs=min(4, max(1, vlib.NCPU - 2)))
    for ci, off, detail in out["mismatch"]:
        if '"gen"' in detail:
            raise vlib.ToolError("case generator error: " + detail)
    chk.process_validation(out, cases, events, DOMAIN, describe)
    return events


def mc_deep_stack(chk, cfg, must_take):
    """vlib.tlc_mc with a 1 GiB thread stack (257-segment streams recurse deeply)."""
    r = vlib.run_tlc("MC_Agile", cfg, workers=4, stack="1g")
    if not r.ok:
        print(r.out[-4000:])
        raise vlib.ToolError(f"TLC did not complete cleanly on MC_Agile/{cfg}: rc={r.rc} {r.violation}")
    for a in must_take:
        if r.coverage.get(a, (0, 0))[1] == 0:
            raise vlib.ToolError(f"vacuous model checking run: action {a} of MC_Agile/{cfg} was never taken")
    vlib.log(f"[tlc] MC_Agile {cfg}: {r.generated} states generated, {r.distinct} distinct, depth {r.depth}, {r.wall:.1f}s")
    chk.add_mc("MC_Agile", cfg, r)
    return r


def run(chk):
    thorough = chk.tier == "thorough"
    acts = ["Save", "TamperLen", "TamperDrop", "TamperSwap"]
    r = vlib.tlc_mc("MC_Agile", "MC_Agile.cfg", workers=4, must_take=acts, check=chk)
    program, vectors = spec_prints(r)
    vlib.tlc_mc("MC_Agile", "MC_Agile_deep.cfg" if not thorough else "MC_Agile_deep3.cfg", workers=4, must_take=acts,
                check=chk)
    mc_deep_stack(chk, "MC_Agile_big4.cfg" if thorough else "MC_Agile_big.cfg", acts)     # segment numbers >= 256
    rr = vlib.tlc_mc("MC_Agile", "MC_Agile_replay.cfg", workers=2, must_take=["Save"], check=chk)
    if not rr.replays:
        raise vlib.ToolError("no REPLAY histories were printed")
    # the interpreter + the specification's encryption-side terms against the repository's pinned vectors
    bad = agile_eval.check_vectors(vectors)
    if bad:
        raise vlib.ToolError("term interpreter / specification terms disagree with the pinned vectors: " + "; ".join(bad))
    cases = gen_cases(chk, rr.replays)
    nwrong = 4 if thorough else 2
    events = judge(chk, cases, program, nwrong)
    flat = [e for evs in events for e in evs]
    chk.evaluations = len(flat) + sum(len(e["wrong"]) for e in flat)
    chk.nontrivial = {(e["via"], e["ref_len"], e["pw"]) for e in flat if e["outcome"] == "ok" and not e["malformed"]}
    chk.extra["files_decrypted"] = len([e for e in flat if e["outcome"] == "ok" and not e["malformed"]])
    chk.extra["wrong_password_attempts"] = sum(len(e["wrong"]) for e in flat)
    chk.extra["package_sizes"] = len({e["ref_len"] for e in flat})
    chk.extra["passwords"] = len({e["pw"] for e in flat})
    chk.extra["entry_points"] = sorted({e["via"] for e in flat})
    chk.extra["packages_known_byte_for_byte"] = len([e for e in flat if e["ref_sha"] == e["ref2_sha"]])
    fit = [(c["saves"][0]["fit"], evs[0]["ref_len"]) for c, evs in zip(cases, events) if c["origin"] == "writer-fit"]
    chk.extra["writer_packages_steered_to_boundary"] = f"{sum(1 for f, n in fit if n % f['m'] == f['r'])} of {len(fit)}"
    chk.extra["streams_in_output"] = sorted({",".join(e["streams"]) for e in flat})
    chk.rule = ("one evaluation = one encrypted file opened by the independent decryptor (+ one per wrong password tried "
                "on it); files come from every TLC history of MC_Agile_replay.cfg, boundary sizes around 16 and 4096 "
                "multiples through set_password, both workbook writers with the package length steered to block/segment "
                "boundaries, repeated saves of one input, random sizes/passwords; a case is non-trivial and distinct by "
                "(entry point, package length, password)")
    for e in flat[:2] + flat[-2:]:
        chk.sample({"event": {k: ((v[:40] + "...") if isinstance(v, str) and len(v) > 43 else v) for k, v in e.items()
                              if k not in ("ver", "mac", "wrong")},
                    "verifier_equation": [x[:16] + "..." for x in e["ver"]],
                    "wrong_passwords_tried": len(e["wrong"])})
    chk.sample({"program_printed_by_TLC": {k: json.dumps(v)[:160] + "..." for k, v in list(program.items())[:3]}})
    chk.assumptions += [
        "SHA-512 / HMAC (python hashlib, hmac) and AES-256-CBC (OpenSSL libcrypto) are correct; they are outside TLC and are "
        "checked against NIST SP 800-38A F.2.5 and the repository's pinned key-derivation/IV/ciphertext vectors on every run",
        "terms are compared in a free algebra (no collisions of H, Enc, Hmac): 'another password fails' is symbolic in the "
        "model and concrete (the verifier equation really fails) on every written file for 2-4 near-miss passwords",
        "freshness is judged as distinctness of the five random values across all saves of a trace (within one process and "
        "across driver processes); unpredictability of getrandom is not examined",
        "write_with_password(_light): the unencrypted package is write_writer(_light) of the same workbook, taken before "
        "and after the encrypted save; when the two differ (a save that is not pure, cf. C12) only the parts that are "
        "identical in both references are compared and the archive must end exactly at the declared length",
        "the \\x06DataSpaces storage that Office writes next to EncryptionInfo/EncryptedPackage is not part of the "
        "statement and is not demanded (the library does not write it; see coverage.streams_in_output)",
        "TLC's Json module and the pydec compound-file / EncryptionInfo parsers are correct",
    ]


def replay(chk, path):
    with open(path) as f:
        rp = json.load(f)
    r = vlib.run_tlc("MC_Agile", "MC_Agile_replay.cfg", workers=2)
    if not r.ok:
        raise vlib.ToolError("TLC did not complete on MC_Agile_replay.cfg")
    chk.add_mc("MC_Agile", "MC_Agile_replay.cfg", r)
    program, _ = spec_prints(r)
    events = judge(chk, [rp["script"]], program, 4)
    chk.evaluations = sum(len(e) for e in events)
    chk.nontrivial = {(e["via"], e["ref_len"], e["pw"]) for evs in events for e in evs}
    chk.sample({"replayed": path})
