"""C07 - structural edits relocate content exactly like a reference grid.

Spec: spec/Sheet.tla (+ Grid.tla).  MC_Sheet*.cfg: TLC checks InGrid, WellFormed, RemoveUndoesInsert,
MoveExact, CopyExact, OthersUntouched on a 5x4 grid.  Behaviours of the specification (all paths of
depth 1 over the 'rich' family, TLC-simulated random histories of 25 operations on a 12x8 grid) and
generator-made histories next to the real grid limits are executed by harness/src/bin/sheet.rs;
Trace_Sheet.tla validates every recorded step.
"""
import json
import vlib

MAXROW, MAXCOL = 1048576, 16384


def with_levels(replay, rng, both):
    """A TLC behaviour says which sheet is edited; the library offers a workbook-level entry point
    (by sheet name) and a sheet-level one: run both / pick one."""
    outs = []
    for lvl in (("wb", "ws") if both else (rng.choice(["wb", "ws"]),)):
        steps = []
        for st in replay:
            st = dict(st)
            if st["a"] in ("Insert", "Remove"):
                st["lvl"] = lvl if both else rng.choice(["wb", "ws"])
            steps.append(st)
        outs.append({"steps": steps})
    return outs


def cell(r, c, v, f="", s="", u=""):
    return {"r": r, "c": c, "v": v, "f": f, "s": s, "u": u}


def rect(r1, c1, r2, c2):
    return {"r1": r1, "c1": c1, "r2": r2, "c2": c2}


def limit_cases(rng, count):
    """Histories next to the real grid limits and at line 1.  In-range by construction: `top` is an
    upper bound of the occupied extent on each axis, raised by every insert / move."""
    cases = []
    for k in range(count):
        far = rng.random() < 0.7
        r0 = MAXROW - rng.randint(3, 40) if far else rng.randint(2, 6)
        c0 = MAXCOL - rng.randint(3, 20) if far else rng.randint(1, 5)
        sheet = {"name": "Edge", "cells": [cell(r0, c0, "x", "", "S1", ""), cell(r0 + 1, c0 + 2, "y", "1+2", "", "http://e/"),
                                           cell(1, 1, "z")],
                 "rows": [{"r": r0 + 1, "h": 33}], "cols": [{"c": c0, "w": 21}],
                 "merges": [rect(r0, c0, r0 + 2, c0 + 1)], "comments": [{"r": r0 + 2, "c": c0 + 2, "t": "edge"}],
                 "cf": [{"id": 7, "g": rect(r0, c0, r0 + 1, c0 + 2)}], "af": [rect(1, 1, r0 + 2, c0 + 2)]}
        other = {"name": "Far", "cells": [cell(MAXROW, MAXCOL, "corner"), cell(1, MAXCOL, "tr"), cell(MAXROW, 1, "bl")],
                 "rows": [{"r": MAXROW, "h": 40}], "cols": [{"c": MAXCOL, "w": 30}], "merges": [rect(MAXROW - 1, 1, MAXROW, 2)],
                 "comments": [], "cf": [], "af": []}
        # a third sheet whose name differs from the first one's only in case: by-name entry points must not mix them up
        twin = {"name": "EDGE", "cells": [cell(r0, c0, "t"), cell(1, 1, "u")], "rows": [{"r": r0, "h": 19}], "cols": [],
                "merges": [rect(r0, c0, r0 + 1, c0)], "comments": [], "cf": [], "af": []}
        steps = [{"a": "Init", "sheets": [sheet, other, twin]}]
        top = {"row": r0 + 2, "col": c0 + 2}
        lim = {"row": MAXROW, "col": MAXCOL}
        for _ in range(rng.randint(1, 6)):
            ax = rng.choice(["row", "col"])
            kind = rng.random()
            if kind < 0.4:
                room = lim[ax] - top[ax]
                if room <= 0:
                    continue
                n = rng.choice([1, room, max(1, room - 1), rng.randint(1, room)])
                p = rng.choice([1, 2, top[ax] - 2, top[ax] - 1, top[ax], top[ax] + 1, lim[ax]])
                p = max(1, min(lim[ax], p))
                steps.append({"a": "Insert", "s": 1, "ax": ax, "p": p, "n": n, "lvl": rng.choice(["wb", "ws"])})
                top[ax] += n
            elif kind < 0.8:
                p = rng.choice([1, 2, top[ax] - 3, top[ax] - 1, top[ax], lim[ax] - 1, lim[ax]])
                p = max(1, min(lim[ax], p))
                n = rng.choice([1, 2, 3, lim[ax] - p + 1])
                n = max(1, min(n, lim[ax] - p + 1))
                steps.append({"a": "Remove", "s": 1, "ax": ax, "p": p, "n": n, "lvl": rng.choice(["wb", "ws"])})
            else:
                h, w = rng.randint(0, 2), rng.randint(0, 2)
                r1 = max(1, min(MAXROW - h, rng.choice([top["row"] - 2, top["row"], 1])))
                c1 = max(1, min(MAXCOL - w, rng.choice([top["col"] - 2, top["col"], 1])))
                g = rect(r1, c1, r1 + h, c1 + w)
                dr = rng.choice([MAXROW - g["r2"], 1 - g["r1"], 0, 1, -1])
                dc = rng.choice([MAXCOL - g["c2"], 1 - g["c1"], 0, 1, -1])
                dr = max(1 - g["r1"], min(MAXROW - g["r2"], dr))
                dc = max(1 - g["c1"], min(MAXCOL - g["c2"], dc))
                if dr == 0 and dc == 0:
                    continue
                steps.append({"a": rng.choice(["Move", "Copy"]), "s": 1, "g": g, "dr": dr, "dc": dc})
                top["row"] = max(top["row"], g["r2"] + dr)
                top["col"] = max(top["col"], g["c2"] + dc)
        if len(steps) > 1:
            cases.append({"steps": steps})
    return cases


def gen_cases(chk):
    rng = chk.rng
    quick = chk.tier == "quick"
    cases = []
    r = vlib.run_tlc("MC_Sheet", "MC_Sheet_replay.cfg", workers=4, coverage=False)
    if not r.ok or not r.replays:
        raise vlib.ToolError("replay generation (depth 1) failed: " + (r.violation or r.out[-500:]))
    for rp in r.replays:
        cases += with_levels(rp, rng, both=True)
    n1 = len(cases)
    if not quick:
        r2 = vlib.run_tlc("MC_Sheet", "MC_Sheet_replay_d2.cfg", workers=6, coverage=False, timeout=3000)
        if not r2.ok:
            raise vlib.ToolError("replay generation (depth 2) failed")
        d2 = r2.replays if len(r2.replays) <= 20000 else rng.sample(r2.replays, 20000)
        for rp in d2:
            cases += with_levels(rp, rng, both=False)
    nsim = 400 if quick else 5000
    rs = vlib.run_tlc("MC_Sheet", "MC_Sheet_sim.cfg", workers=1, coverage=False, simulate=f"num={nsim}",
                      extra=["-depth", "30", "-seed", str(chk.seed)], timeout=3000)
    if rs.rc != 0 or rs.violation or not rs.replays:
        raise vlib.ToolError("TLC simulation of MC_Sheet_sim.cfg failed: " + (rs.violation or rs.out[-500:]))
    seen = set()
    for rp in rs.replays:
        key = json.dumps(rp, sort_keys=True)
        if key in seen:
            continue
        seen.add(key)
        cases += with_levels(rp, rng, both=False)
    n2 = len(cases)
    cases += limit_cases(rng, 300 if quick else 3000)
    chk.extra["cases"] = {"tlc_paths": n1 if quick else "depth1+depth2", "tlc_simulated_histories": len(seen),
                          "grid_limit_histories": len(cases) - n2}
    for i, c in enumerate(cases):
        c["case"] = i
    return cases


def describe(case, ev, detail):
    if ev is None:
        return detail
    return f"step {json.dumps({k: v for k, v in ev.items() if k not in ('obs', 'sheets')})}: {detail}"


def judge(chk, cases):
    events = vlib.run_cases("sheet", cases, timeout=20)
    out = vlib.validate("Trace_Sheet", "Trace_Sheet.cfg", events, chk.open_ids, "c07", chunk_events=3000)
    first = {}
    for ci, off, detail in out["mismatch"]:
        if ci not in first or off < first[ci][0]:
            first[ci] = (off, detail)
    for ci, (off, detail) in first.items():
        # (after an earlier mismatch the specification follows the observed state, so only a *first*
        # mismatch of kind "gen" blames the generator)
        if detail.startswith('<<"gen"'):
            raise vlib.ToolError(f"generator produced an out-of-contract step (case {ci}, step {off}): {detail}")
    chk.process_validation(out, cases, events, "sheet", describe)
    return events


def run(chk):
    vlib.tlc_mc("MC_Sheet", "MC_Sheet.cfg", workers=6, check=chk)
    vlib.tlc_mc("MC_Sheet", "MC_Sheet_d2.cfg", workers=6, check=chk)
    if chk.tier == "thorough":
        vlib.tlc_mc("MC_Sheet", "MC_Sheet_thorough.cfg", workers=12, timeout=7200, heap="16g", check=chk)
    cases = gen_cases(chk)
    events = judge(chk, cases)
    chk.evaluations = len(cases)
    chk.nontrivial = {json.dumps(c["steps"], sort_keys=True) for c in cases if len(c["steps"]) > 1}
    chk.rule = ("a case is an initial multi-sheet workbook plus a history of insert/remove rows/columns (workbook and "
                "sheet level), move/copy range, set/remove cell; cases = every depth-1 path of the bounded model at both "
                "levels (thorough: + depth 2), TLC-simulated random histories of 25 operations, and generated histories "
                "at the real grid limits; distinct = different step lists, non-trivial = at least one operation")
    chk.sample({"script": cases[0]["steps"][1:], "observed_after_last_step": events[0][-1]["obs"][0]})
    chk.sample({"script": cases[-1]["steps"][1:]})
    chk.assumptions += ["cells of the reference grid always carry a value; formulas used here contain no references "
                        "(reference shifting is C08); one range per conditional format",
                        "in-range arguments only (nothing pushed beyond XFD1048576), as the property states"]


def replay(chk, path):
    with open(path) as f:
        rp = json.load(f)
    judge(chk, [rp["script"]])
