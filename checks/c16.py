"""C16 - concurrent saves of a workbook or its clones equal sequential saves.

Spec: spec/ConcSave.tla (one action per linearisation point of make_buffer).  TLC checks OwnStrings,
PartIffRel, NoForeign and termination over all interleavings for five scenarios of string sets, and must
refute PartIffRel for the shared-table design (the tree before the repair).  Every complete
interleaving TLC enumerates (2 savers) or simulates (3 savers) is a schedule: real threads calling
write_writer are released yield point by yield point (cfg(umya_verif) hooks) in exactly that order by
harness/src/bin/sst.rs; Trace_ConcSave.tla validates every step and the produced files.
"""
import json, os
import vlib
from pydec import sst_view

UNIVERSE = ["Qa7x", "Qb7x", "Qc7x", "Qd7x", "Qe7x", "Qf7x", "Qg7x"]
A, B, C = "Qa7x", "Qb7x", "Qc7x"


def st(w, r, s, sh=1, rich=False):
    return {"a": "SetText", "w": w, "sh": sh, "r": r, "s": s, "rich": rich}


# how each scenario of MC_ConcSave.tla is built through the public API, and who saves what
SCENARIOS = {
    "equal":    [([{"a": "Init"}, st(1, 1, A), st(1, 2, B)], [1, 1]),                        # same object twice
                 ([{"a": "Init"}, st(1, 1, A), st(1, 2, B), {"a": "Clone", "w": 1}], [1, 2])],  # a clone
    "disjoint": [([{"a": "Init"}, st(1, 1, A), st(1, 2, A), {"a": "Clone", "w": 1}, st(2, 1, B), st(2, 2, C)], [1, 2])],
    "overlap":  [([{"a": "Init"}, st(1, 1, A), st(1, 2, B), {"a": "Clone", "w": 1}, st(2, 1, B), st(2, 2, C)], [1, 2]),
                 # the same with rich texts (two runs each)
                 ([{"a": "Init"}, st(1, 1, A, rich=True), st(1, 2, B, rich=True), {"a": "Clone", "w": 1},
                   st(2, 1, B, rich=True), st(2, 2, C, rich=True)], [1, 2])],
    "empty":    [([{"a": "Init"}, {"a": "Clone", "w": 1}, st(2, 1, A)], [1, 2])],
    "three":    [([{"a": "Init"}, st(1, 1, A), {"a": "Clone", "w": 1}, st(2, 1, B), {"a": "Clone", "w": 1},
                   {"a": "Delete", "w": 3, "sh": 1, "r": 1}], [1, 2, 3])],
    # a lazily reopened workbook: sheet S1 edited (loaded), sheet S2 still raw; savers = it and a clone of it
    "lazy":     [([{"a": "Init"}, st(1, 1, A), st(1, 1, B, sh=2), {"a": "Save", "w": 1}, {"a": "Reload", "w": 1, "lazy": True},
                   st(2, 1, C), {"a": "Clone", "w": 2}, st(3, 2, "Qd7x")], [2, 3])],
    # a lazily reopened workbook none of whose sheets is loaded: the same object twice, and it and a clone of it
    "lazyraw":  [([{"a": "Init"}, st(1, 1, A), st(1, 1, B, sh=2), {"a": "Save", "w": 1}, {"a": "Reload", "w": 1, "lazy": True}],
                  [2, 2]),
                 ([{"a": "Init"}, st(1, 1, A), st(1, 1, B, sh=2), {"a": "Save", "w": 1}, {"a": "Reload", "w": 1, "lazy": True},
                   {"a": "Clone", "w": 2}], [2, 3])],
}


def free_cases(chk, count):
    """Free-running savers (no cooperative scheduler: real threads released together, several rounds) on workbooks
    with many cells over few labels: interleavings below the granularity of the yield points.  Every file is judged
    by the same predicates; there are no Step events."""
    rng = chk.rng
    cases = []
    for k in range(count):
        n = rng.choice([600, 1500, 3000])
        labels = UNIVERSE[:rng.choice([2, 5, 7])]
        kind = k % 4
        if kind == 0:        # one object through shared references + a clone + an unrelated workbook, same labels
            setup = [{"a": "Init"}, {"a": "Fill", "w": 1, "sh": 1, "n": n, "labels": labels, "off": 0},
                     {"a": "Clone", "w": 1}, {"a": "Init"},
                     {"a": "Fill", "w": 3, "sh": 1, "n": n, "labels": labels, "off": rng.randint(0, 6)}]
            savers = [1, 1, 2, 3]
        elif kind == 1:      # clones that diverged: same labels in another order, one with a second sheet
            setup = [{"a": "Init"}, {"a": "Fill", "w": 1, "sh": 1, "n": n, "labels": labels, "off": 0},
                     {"a": "Clone", "w": 1}, {"a": "Fill", "w": 2, "sh": 1, "n": n, "labels": labels, "off": 3},
                     {"a": "Clone", "w": 1}, {"a": "Fill", "w": 3, "sh": 2, "n": n // 2, "labels": labels[::-1], "off": 1}]
            savers = [1, 2, 3]
        elif kind == 2:      # lazily reopened, nothing loaded: shared references and a clone
            setup = [{"a": "Init"}, {"a": "Fill", "w": 1, "sh": 1, "n": n, "labels": labels, "off": 0},
                     {"a": "Fill", "w": 1, "sh": 2, "n": n // 3, "labels": labels, "off": 2},
                     {"a": "Save", "w": 1}, {"a": "Reload", "w": 1, "lazy": True}, {"a": "Clone", "w": 2}]
            savers = [2, 2, 3]
        else:                # lazily reopened, one sheet loaded by an edit; the original next to it
            setup = [{"a": "Init"}, {"a": "Fill", "w": 1, "sh": 1, "n": n, "labels": labels, "off": 0},
                     {"a": "Fill", "w": 1, "sh": 2, "n": n // 3, "labels": labels, "off": 2},
                     {"a": "Save", "w": 1}, {"a": "Reload", "w": 1, "lazy": True}, st(2, 1, "Qd7x"), {"a": "Clone", "w": 2}]
            savers = [1, 2, 2, 3]
        cases.append({"scenario": "free", "steps": setup + [{"a": "FreeSave", "savers": savers, "rounds": rng.choice([2, 4])}]})
    return cases


def schedules(scenario, chk, simulate=None):
    cfg = os.path.join(vlib.WORK, f"MC_ConcSave_replay_{scenario}_{os.getpid()}.cfg")
    vlib.ensure_dirs()
    with open(cfg, "w") as f:
        f.write(f'CONSTANTS Sharing = "private" Scenario = "{scenario}" EmitReplay = TRUE\n'
                "SPECIFICATION MSpec\nINVARIANTS Emit\nCHECK_DEADLOCK FALSE\n")
    if simulate:
        r = vlib.run_tlc("MC_ConcSave", cfg, workers=1, coverage=False, simulate=f"num={simulate}",
                         extra=["-depth", "40", "-seed", str(chk.seed)])
        ok = r.rc == 0 and r.violation is None
    else:
        r = vlib.run_tlc("MC_ConcSave", cfg, workers=4, coverage=False)
        ok = r.ok
    os.remove(cfg)
    if not ok or not r.replays:
        raise vlib.ToolError(f"schedule generation for scenario {scenario} failed: " + (r.violation or r.out[-400:]))
    seen, out = set(), []
    for rp in r.replays:
        key = tuple(rp["schedule"])
        if key not in seen:
            seen.add(key)
            out.append(list(key))
    return out


def gen_cases(chk):
    quick = chk.tier == "quick"
    cases = []
    counts = {}
    for sc, variants in SCENARIOS.items():
        if sc == "three":
            sch = schedules(sc, chk, simulate=400 if quick else 20000)
        else:
            sch = schedules(sc, chk)
            if quick and len(sch) > 1200:
                sch = chk.rng.sample(sch, 1200)
        counts[sc] = len(sch)
        for setup, savers in variants:
            for s in sch:
                cases.append({"scenario": sc, "steps": setup + [{"a": "ConcSave", "savers": savers, "schedule": s}]})
        # the path-based entry point (xlsx::write: temporary sibling file + rename), savers writing to
        # sibling files of one directory: same stem / different extension, and different stems
        if sc in ("disjoint", "empty", "lazy"):
            setup, savers = variants[0]
            sub = sch if len(sch) <= 250 else chk.rng.sample(sch, 250 if quick else 1500)
            for k, s in enumerate(sub):
                names = ["book.xlsx", "book.xlsm"] if k % 2 == 0 else ["left.xlsx", "right.xlsx"]
                cases.append({"scenario": sc, "steps": setup + [{"a": "ConcSave", "savers": savers, "schedule": s,
                                                                 "paths": names[:len(savers)]}]})
    chk.extra["schedules_per_scenario"] = counts
    free = free_cases(chk, 8 if quick else 80)
    chk.extra["free_running_cases"] = len(free)
    cases += free
    for i, c in enumerate(cases):
        c["case"] = i
    return cases


EMPTY_VIEW = {"wellformed": False, "present": [], "sst": [], "has_part": False, "has_rel": False, "has_ct": False,
              "sheets": [], "bad_index": 0}


def to_trace(case, evs):
    """Driver events of one case -> the ConcSave trace TLC validates (the set-up steps are validated by C12)."""
    if len(evs) == 1 and evs[0].get("a") == "Fatal":
        return evs
    done = [e for e in evs if e.get("a") == "Done"]
    if not done:
        return [{"a": "Fatal", "case": case["case"], "outcome": "crash"}]
    done = done[0]
    savers = done["savers"]
    todo, want, base = [], [], []
    loaded_sst = []
    for e in evs:                              # table of the (last) file written during the set-up
        if e.get("a") == "Save" and e.get("hex"):
            try:
                loaded_sst = sst_view.view(bytes.fromhex(e["hex"]), UNIVERSE)["sst"]
            except Exception:
                loaded_sst = []
    for w in savers:
        t = done["texts"][w - 1]
        cells = sorted(t["cells"])
        want.append([c[2] for c in cells])
        todo.append([c[2] for c in cells if c[0] not in t["raw"]])     # raw sheets are copied, not re-registered
        base.append(loaded_sst if t["raw"] else [])
    out = [{"a": "Start", "case": case["case"], "todo": todo, "grp": [1] * len(savers), "base": base}]
    out += [e for e in evs if e.get("a") == "Step"]
    outs = []
    for o in done["outs"]:
        v, cells = dict(EMPTY_VIEW), []
        if o["outcome"] == "ok" and o["hex"]:
            try:
                v = sst_view.view(bytes.fromhex(o["hex"]), UNIVERSE)
                for sh in v["sheets"]:
                    cells += [c[1] for c in sh["cells"]]
            except Exception:
                v = dict(EMPTY_VIEW)
        outs.append({"outcome": o["outcome"], "view": v, "cells": cells, "want": want[len(outs)]})
    out.append({"a": "Done", "case": case["case"], "outcome": done["outcome"], "outs": outs})
    return out


def describe(case, ev, detail):
    last = case["steps"][-1]
    how = f"schedule {last['schedule']}" if "schedule" in last else f"free-running savers {last['savers']} x {last.get('rounds')} rounds"
    return f"scenario {case.get('scenario')} {how}: {detail}"


def judge(chk, cases):
    # batches: a library in which savers block each other makes every schedule end in the driver's own time-outs
    # (some 30 s per case); a handful of them is a verdict, thousands would only cost hours
    raw, ran, hung = [], [], 0
    k = 0
    while k < len(cases):
        size = 24 if k == 0 else 400          # a small first batch: a library that hangs everywhere is seen in a minute
        part = cases[k:k + size]
        k += size
        got = vlib.run_cases("sst", part, timeout=60, jobs=12)
        raw += got
        ran += part
        hung += sum(1 for evs in got if any(e.get("outcome") == "timeout" for e in evs))
        if hung >= 8 and k < len(cases):
            chk.extra["stopped_after_hanging_cases"] = {"hung": hung, "cases_run": len(ran), "cases_planned": len(cases)}
            vlib.log(f"[c16] {hung} cases hung: the remaining {len(cases) - len(ran)} cases are not run")
            break
    cases = ran
    events = [to_trace(c, e) for c, e in zip(cases, raw)]
    out = vlib.validate("Trace_ConcSave", "Trace_ConcSave.cfg", events, chk.open_ids, "c16", chunk_events=4000)
    first = {}
    for ci, off, detail in out["mismatch"]:
        if ci not in first or off < first[ci][0]:
            first[ci] = (off, detail)
    for ci, (off, detail) in first.items():
        if detail.startswith('<<"gen"'):
            raise vlib.ToolError(f"trace does not fit the specification (case {ci}, event {off}): {detail}")
    chk.process_validation(out, cases, events, "sst", describe)
    chk.extra["schedule_steps_not_as_the_specification_predicts"] = chk.extra.get(
        "schedule_steps_not_as_the_specification_predicts", 0) + out.get("notes", 0)
    return events


def run(chk):
    for sc in ("equal", "disjoint", "overlap", "empty", "three", "lazy", "lazyraw"):
        vlib.tlc_mc("MC_ConcSave", f"MC_ConcSave_{sc}.cfg", workers=2, check=chk)
    dev = vlib.run_tlc("MC_ConcSave", "MC_ConcSave_deviant.cfg", workers=2, coverage=False)
    if dev.violation is None or "PartIffRel" not in dev.violation:
        raise vlib.ToolError("TLC did not refute PartIffRel for the shared-table design: the invariant would be vacuous")
    chk.extra["deviant_design_refuted"] = dev.violation
    cases = gen_cases(chk)
    events = judge(chk, cases)
    chk.evaluations = len(cases)
    chk.nontrivial = {(c["scenario"], json.dumps(c["steps"][-1])) for c in cases}
    chk.rule = ("a case is a scenario (string sets equal / disjoint / overlapping / one saver without strings / three "
                "savers; a lazily reopened workbook with a raw sheet; plain and rich texts; same object through shared references or clones; "
                "write_writer into memory and xlsx::write to sibling paths) plus one complete interleaving of the savers at "
                "the granularity of the yield points; 2-saver scenarios: all interleavings (quick: at most 1200 sampled "
                "for the 3432 of 'equal'), 3 savers: TLC-simulated; distinct (scenario, savers, schedule) triples")
    chk.sample({"scenario": cases[0]["scenario"], "script": cases[0]["steps"], "trace": events[0][:4]})
    chk.assumptions += ["scheduling granularity = the yield points of the cfg(umya_verif) hooks (before every shared-string "
                        "registration, before the emptiness check and the dump, before the relationship check, entry/exit); "
                        "code between two yield points is assumed to touch no state shared between savers",
                        "python3 zipfile / expat are correct"]


def replay(chk, path):
    with open(path) as f:
        rp = json.load(f)
    judge(chk, [rp["script"]])
