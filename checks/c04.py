"""C04 - re-saving is stable: no drift, no loss of untouched content.

Spec: spec/Resave.tla (PART 1: the observable content of a workbook, Norm - what a save may legitimately
normalise -, single-cell edits, OrigSim / EditLocal as operators; PART 2: a bounded model of memory / file / save /
load over generations: private string table per save, style interning that reuses cell format 0 and equal entries,
blank unstyled cells dropped, a row element per row entry - hidden / custom height / styled, with or without cells -, every
column entry - hidden / wide / styled -, equal declared columns folded into <col min..max> runs only when adjacent) and spec/Channels.tla (every text channel as writer-op / reader-op pair over
character sequences; Esc / Unesc and, for cell text and cached strings, the ST_Xstring layer XEnc / XDec are computed,
Unesc(Esc(x)) = x and XDec(XEnc(x)) = x are checked).
MC_Resave*.cfg: TLC checks FixedPoint, FileFixedPoint, OrigSim (+ the trace specification's way of finding the digest
of cell format 0), EditLocal, SaveTwiceSame, NormIdempotent on every file of a bounded family; the deviant writer
that drops styled blank cells, the writer that leaves out hidden rows without cells and the writer whose column runs
jump over undeclared columns must be REFUTED (leaving out
default-valued rows without cells satisfies everything).  MC_Channels*.cfg: the intended configuration is drift-free and
writes only legal XML; the configuration of the tree before commit 5eeb38a (attributes written escaped, read raw)
, a writer that does not escape and an ST_Xstring writer that does not protect a literal _xHHHH_ at the very end of a
text must be REFUTED.
Conformance: harness/src/bin/resave.rs drives load -> (save -> load) x 3 in memory, a second save of the unchanged
workbook, and again (save -> load) x 3 after each single-cell edit of the case (random cells and values; thorough: one
edit per cell class - text, number, boolean, error, rich text, blank, formula, master / member of a shared formula,
cell with a hyperlink), for every corpus file the library can read (the five largest only in the thorough tier), for workbooks
generated through the public API with XML-special / non-ASCII text in every text channel and ST_Xstring-relevant cell
texts, and for foreign files built here (the original of a generated workbook has already been through the library's
writer, so what a writer defect drops or garbles is not in it): from the behaviours TLC prints for MC_Resave_replay.cfg,
and files with rows and columns of every kind without cells (hidden, hidden + height, styled, thick, descent, plain) and
ST_Xstring-relevant texts (literal _xHHHH_ at the start / in the middle / at the end, two in a row, _x005F_, characters
XML cannot carry) as shared, rich, inline and cached strings, equal NON-adjacent declared columns (an undeclared or a
different declared column between them; hidden / width / style), and number formats DECLARED under ids below 164 (ids with
and without a built-in code) used by cells - the style digest compares the format CODE, never the id.  Every generation logs the full projection through
public getters; pydec/resave_view.py adds the independent decoder's view of the bytes (part list, string inventory).
spec/Trace_Resave.tla judges every event with the operators of Resave.tla.
"""
import glob, hashlib, io, json, os, re, struct, time, zipfile
from concurrent.futures import ThreadPoolExecutor
import vlib
from pydec import resave_view

BIG_CORPUS = {"aaa_large.xlsx", "issue_216.xlsx", "issue_233.xlsx", "issue_188_3.xlsx", "issue_194_2.xlsx"}
# thorough tier only (20 000 .. 300 000 cells: the projection of one generation is up to 25 MB); they are driven and
# validated one at a time, two generations per chain, with a larger TLC heap
SPECIAL = set("&<>\"'")


def bits(x):
    return "%016x" % struct.unpack(">Q", struct.pack(">d", x))[0]


# ---------------------------------------------------------------------------------------------------------------------
# foreign files from TLC behaviours (MC_Resave: file = [x0, xfs, sst, extra, sheets: [cells: raw cells, rows]])
# ---------------------------------------------------------------------------------------------------------------------
def _esc(t):
    return t.replace("&", "&amp;").replace("<", "&lt;").replace(">", "&gt;").replace('"', "&quot;")


def _xmlchar(ch):
    o = ord(ch)
    return o in (9, 10, 13) or 0x20 <= o <= 0xD7FF or 0xE000 <= o <= 0xFFFD or o >= 0x10000


_LOOKALIKE = re.compile(r"_x[0-9A-Fa-f]{4}_")


def _xenc(t):
    """ST_Xstring (ECMA-376 Part 1, 22.9.2.19), written from the standard's text: a character XML cannot carry (and
    a carriage return, which an XML parser would turn into a line feed) becomes _xHHHH_; an underscore that starts a
    literal _xHHHH_ gets _x005F_ in front"""
    out = []
    for i, ch in enumerate(t):
        if not _xmlchar(ch) or ch == "\r":
            out.append("_x%04X_" % ord(ch))
        elif ch == "_" and _LOOKALIKE.match(t, i):
            out.append("_x005F_")
        else:
            out.append(ch)
    return "".join(out)


def _xs(t):
    return _esc(_xenc(t))


def _col(n):
    s = ""
    while n > 0:
        n, r = divmod(n - 1, 26)
        s = chr(65 + r) + s
    return s


FONT0 = {"X0": '<font><sz val="10"/><name val="Foreign Sans &amp; Co"/><family val="2"/></font>',
         "L0": '<font><sz val="11"/><color theme="1"/><name val="Calibri"/><family val="2"/><scheme val="minor"/></font>'}
# number formats a foreign file DECLARES in its styles.xml: under ids the library has a built-in code for (14, 42, 44: with
# another code, as localised Excel / WPS write them), under low ids it has none for (23, 60), an id < 164 next to the limit,
# and ordinary user-defined ids.  Cell formats 3.. use them in this order (XF_NUMFMT = their indexes).
LOW_NUMFMTS = [(14, "yyyy/mm/dd;@"), (42, '_ "\u00a5"* #,##0_ ;_ "\u00a5"* \\-#,##0_ ;_ "\u00a5"* "-"_ ;_ @_ '), (44, '"CHF" #,##0.00'),
               (23, "0.0\\ \"low\""), (60, "[$-411]ge.m.d"), (163, "0.000"), (164, '0.0" kg"'), (170, "#,##0.0;[Red]\\-#,##0.0")]
XF_NUMFMT = list(range(3, 3 + len(LOW_NUMFMTS)))
NUMFMTS_XML = (f'<numFmts count="{len(LOW_NUMFMTS)}">'
               + "".join('<numFmt numFmtId="%d" formatCode="%s"/>' % (i, c.replace("&", "&amp;").replace('"', "&quot;").replace("<", "&lt;"))
                         for i, c in LOW_NUMFMTS) + '</numFmts>')
NS_MAIN = "http://schemas.openxmlformats.org/spreadsheetml/2006/main"
NS_REL = "http://schemas.openxmlformats.org/officeDocument/2006/relationships"
NS_PKG = "http://schemas.openxmlformats.org/package/2006/relationships"


def build_xlsx(f, code_name="", text_map=None, shared_rows=0, rich="", twin=""):
    """bytes of a minimal, valid xlsx package for a file of the bounded model (written with string templates and
    zipfile: shares nothing with the library).  Cell format 1 duplicates cell format 0 (it only adds the attribute
    pivotButton, which the library does not model), cell format 2 is a bold font.  shared_rows = n > 0 puts a shared
    formula into column C of rows 1..n (master C1 with text and ref, the others only with si).  rich = text puts a
    rich-text cell D5 (first half bold, rest plain) into a row of its own; twin = "before" / "after" adds a PLAIN string
    with the same characters in C5 / E5 (two string items that differ only in kind).
    Beyond the model: a row may carry hid / thick / desc, a sheet may carry cols [{c, w, hid, xf}], and a cell may be
    t = "text" (shared string given as text), "rich" (shared string of runs [[text, bold], ..]), "inline" (inlineStr)
    or "str" (formula `f` with the cached string `text`); texts are written as ST_Xstring."""
    text_map = text_map or {}
    sheets = f["sheets"]
    ct = ['<?xml version="1.0" encoding="UTF-8" standalone="yes"?>',
          '<Types xmlns="http://schemas.openxmlformats.org/package/2006/content-types">',
          '<Default Extension="rels" ContentType="application/vnd.openxmlformats-package.relationships+xml"/>',
          '<Default Extension="xml" ContentType="application/xml"/>',
          '<Override PartName="/xl/workbook.xml" ContentType="application/vnd.openxmlformats-officedocument.spreadsheetml.sheet.main+xml"/>',
          '<Override PartName="/xl/styles.xml" ContentType="application/vnd.openxmlformats-officedocument.spreadsheetml.styles+xml"/>',
          '<Override PartName="/xl/sharedStrings.xml" ContentType="application/vnd.openxmlformats-officedocument.spreadsheetml.sharedStrings+xml"/>']
    for i in range(len(sheets)):
        ct.append(f'<Override PartName="/xl/worksheets/sheet{i + 1}.xml" ContentType="application/vnd.openxmlformats-officedocument.spreadsheetml.worksheet+xml"/>')
    ct.append('</Types>')
    parts = {"[Content_Types].xml": "".join(ct),
             "_rels/.rels": f'<?xml version="1.0" encoding="UTF-8" standalone="yes"?><Relationships xmlns="{NS_PKG}">'
                            f'<Relationship Id="rId1" Type="{NS_REL}/officeDocument" Target="xl/workbook.xml"/></Relationships>'}
    wbrels = [f'<Relationship Id="rId{i + 1}" Type="{NS_REL}/worksheet" Target="worksheets/sheet{i + 1}.xml"/>' for i in range(len(sheets))]
    n = len(sheets)
    wbrels.append(f'<Relationship Id="rId{n + 1}" Type="{NS_REL}/styles" Target="styles.xml"/>')
    wbrels.append(f'<Relationship Id="rId{n + 2}" Type="{NS_REL}/sharedStrings" Target="sharedStrings.xml"/>')
    if f["extra"]:
        wbrels.append(f'<Relationship Id="rId{n + 3}" Type="{NS_REL}/customXml" Target="../customXml/item1.xml"/>')
        parts["customXml/item1.xml"] = '<?xml version="1.0" encoding="UTF-8"?><note xmlns="urn:example:unmodelled">kept?</note>'
    parts["xl/_rels/workbook.xml.rels"] = f'<?xml version="1.0" encoding="UTF-8" standalone="yes"?><Relationships xmlns="{NS_PKG}">' + "".join(wbrels) + '</Relationships>'
    parts["xl/workbook.xml"] = (f'<?xml version="1.0" encoding="UTF-8" standalone="yes"?><workbook xmlns="{NS_MAIN}" xmlns:r="{NS_REL}"><sheets>'
                                + "".join(f'<sheet name="Model{i + 1}" sheetId="{i + 1}" r:id="rId{i + 1}"/>' for i in range(n))
                                + '</sheets></workbook>')
    parts["xl/styles.xml"] = (
        f'<?xml version="1.0" encoding="UTF-8" standalone="yes"?><styleSheet xmlns="{NS_MAIN}">'
        + NUMFMTS_XML +
        f'<fonts count="2">{FONT0[f["x0"]]}<font><b/><sz val="12"/><name val="Bold &amp; Beautiful"/></font></fonts>'
        '<fills count="2"><fill><patternFill patternType="none"/></fill><fill><patternFill patternType="gray125"/></fill></fills>'
        '<borders count="1"><border><left/><right/><top/><bottom/><diagonal/></border></borders>'
        '<cellStyleXfs count="1"><xf numFmtId="0" fontId="0" fillId="0" borderId="0"/></cellStyleXfs>'
        f'<cellXfs count="{3 + len(LOW_NUMFMTS)}"><xf numFmtId="0" fontId="0" fillId="0" borderId="0" xfId="0"/>'
        '<xf numFmtId="0" fontId="0" fillId="0" borderId="0" xfId="0" pivotButton="1"/>'
        '<xf numFmtId="0" fontId="1" fillId="0" borderId="0" xfId="0" applyFont="1"/>'
        + "".join(f'<xf numFmtId="{i}" fontId="0" fillId="0" borderId="0" xfId="0" applyNumberFormat="1"/>' for i, _c in LOW_NUMFMTS)
        + '</cellXfs>'
        '<cellStyles count="1"><cellStyle name="Normal" xfId="0" builtinId="0"/></cellStyles></styleSheet>')
    sst = [text_map.get(t, t) for t in f["sst"]]
    items = [f'<si><t xml:space="preserve">{_xs(t)}</t></si>' for t in sst]
    for sh in sheets:                       # shared strings given as text / runs: appended behind the model's table
        for c in sh["cells"]:
            if c["t"] == "text":
                c["_idx"] = len(items)
                items.append(f'<si><t xml:space="preserve">{_xs(c["text"])}</t></si>')
            elif c["t"] == "rich":
                c["_idx"] = len(items)
                items.append('<si>' + "".join(
                    (f'<r><rPr><b/><sz val="11"/><rFont val="Calibri"/></rPr><t xml:space="preserve">{_xs(t)}</t></r>' if b else
                     f'<r><t xml:space="preserve">{_xs(t)}</t></r>') for t, b in c["runs"]) + '</si>')
    nmodel = len(items)
    if rich:
        h = max(1, len(rich) // 2)
        items.append(f'<si><r><rPr><b/><sz val="11"/><rFont val="Calibri"/></rPr><t xml:space="preserve">{_esc(rich[:h])}</t></r>'
                     f'<r><t xml:space="preserve">{_esc(rich[h:])}</t></r></si>')
        if twin:
            items.append(f'<si><t xml:space="preserve">{_esc(rich)}</t></si>')
    parts["xl/sharedStrings.xml"] = (f'<?xml version="1.0" encoding="UTF-8" standalone="yes"?><sst xmlns="{NS_MAIN}" count="{len(items)}" uniqueCount="{len(items)}">'
                                     + "".join(items) + '</sst>')
    for i, sh in enumerate(sheets):
        rows = {r["r"]: r for r in sh["rows"]}
        out = [f'<?xml version="1.0" encoding="UTF-8" standalone="yes"?><worksheet xmlns="{NS_MAIN}" xmlns:r="{NS_REL}" '
               'xmlns:mc="http://schemas.openxmlformats.org/markup-compatibility/2006" mc:Ignorable="x14ac" '
               'xmlns:x14ac="http://schemas.microsoft.com/office/spreadsheetml/2009/9/ac">']
        if code_name:
            out.append(f'<sheetPr codeName="{_esc(code_name)}"/>')
        if sh.get("cols"):
            out.append('<cols>')
            for c in sorted(sh["cols"], key=lambda c: c.get("min", c.get("c"))):
                a = f' min="{c.get("min", c.get("c"))}" max="{c.get("max", c.get("c"))}" width="{c["w"]}"'
                if c["w"] != "8.38":
                    a += ' customWidth="1"'
                if c["xf"] >= 0:
                    a += f' style="{c["xf"]}"'
                if c["hid"]:
                    a += ' hidden="1"'
                out.append(f'<col{a}/>')
            out.append('</cols>')
        out.append('<sheetData>')
        for rn in sorted(rows):
            r = rows[rn]
            attrs = f' r="{rn}"'
            if r["xf"] >= 0:
                attrs += f' s="{r["xf"]}" customFormat="1"'
            if r["ht"] != "0":
                attrs += f' ht="{r["ht"]}" customHeight="1"'
            if r.get("hid"):
                attrs += ' hidden="1"'
            if r.get("thick"):
                attrs += ' thickBot="1"'
            if r.get("desc"):
                attrs += f' x14ac:dyDescent="{r["desc"]}"'
            out.append(f'<row{attrs}>')
            for c in sorted((c for c in sh["cells"] if c["r"] == rn), key=lambda c: c["c"]):
                a = f' r="{_col(c["c"])}{rn}"'
                if c["xf"] >= 0:
                    a += f' s="{c["xf"]}"'
                if c["t"] in ("text", "rich"):
                    out.append(f'<c{a} t="s"><v>{c["_idx"]}</v></c>')
                elif c["t"] == "inline":
                    out.append(f'<c{a} t="inlineStr"><is><t xml:space="preserve">{_xs(c["text"])}</t></is></c>')
                elif c["t"] == "str":
                    out.append(f'<c{a} t="str"><f>{_esc(c["f"])}</f><v xml:space="preserve">{_xs(c["text"])}</v></c>')
                elif c["t"] == "s":
                    out.append(f'<c{a} t="s"><v>{c["v"] - 1}</v></c>')
                elif c["t"] == "n":
                    out.append(f'<c{a}><v>{c["v"]}</v></c>')
                else:
                    out.append(f'<c{a}/>')
            if rn <= shared_rows:
                out.append(f'<c r="C{rn}"><f t="shared" ref="C1:C{shared_rows}" si="0">A1+1</f><v>{rn}</v></c>' if rn == 1 else
                           f'<c r="C{rn}"><f t="shared" si="0"/><v>{rn}</v></c>')
            out.append('</row>')
        if rich and i == 0:
            row5 = [f'<c r="D5" t="s"><v>{nmodel}</v></c>']
            if twin == "before":
                row5.insert(0, f'<c r="C5" t="s"><v>{nmodel + 1}</v></c>')
            elif twin == "after":
                row5.append(f'<c r="E5" t="s"><v>{nmodel + 1}</v></c>')
            out.append('<row r="5">' + "".join(row5) + '</row>')
        out.append('</sheetData></worksheet>')
        parts[f"xl/worksheets/sheet{i + 1}.xml"] = "".join(out)
    buf = io.BytesIO()
    with zipfile.ZipFile(buf, "w", zipfile.ZIP_DEFLATED) as z:
        for name, text in parts.items():
            z.writestr(zipfile.ZipInfo(name, date_time=(2020, 1, 1, 0, 0, 0)), text.encode("utf-8"))
    return buf.getvalue()


def from_tlc(replay, rng):
    """a behaviour of MC_Resave (Open file, optional Edit) -> driver case"""
    f = replay[0]["file"]
    texts = {"a": rng.choice(["a", "plain", " padded "]), "a&b": rng.choice(["a&b", "x<y>&\"z\"", "&amp;", "\u00e9&\U0001F600"]),
             "unused": "unused & lost"}
    rich = rng.choice(["", "Total 2024", "a&b <rich> \u00e9"])
    twin = rng.choice(["", "before", "after"]) if rich else ""
    data = build_xlsx(f, text_map=texts, rich=rich, twin=twin)
    edits = []
    for st in replay[1:]:
        if st["a"] == "Edit":
            edits.append({"si": st["s"] - 1, "mode": "at", "pick": 0, "r": st["r"], "c": st["c"],
                          "k": st["k"], "v": st["v"], "b": bits(float(st["v"])) if st["k"] == "num" else ""})
    if rich and not twin:
        edits.append(rng.choice(echo_edits(rng, 1)))
    return {"src": {"kind": "hex", "hex": data.hex(), "name": "tlc-model-file"}, "gens": 3, "light": rng.random() < 0.3,
            "edit": edits, "family": "tlc"}


# ---------------------------------------------------------------------------------------------------------------------
# generated workbooks (public API), XML-special and non-ASCII text in every text channel
# ---------------------------------------------------------------------------------------------------------------------
# an entity-looking text that loses one level per generation under a reader that unescapes once too often (and
# gains one under a reader that does not unescape): three levels, because the original of a generated workbook
# has itself been through one save + load
DEEP = "&amp;amp;amp;lt;"
TEXTS = [DEEP, "x " + DEEP + " y", "123", "1e5", "TRUE", "a&b", "<tag>", "x>y", "q\"uote", "it's", "&amp;", "&lt;b&gt;", "&amp;amp;", "\u00e9 \u00fc \u65e5\u672c", "\U0001F600 & co",
         "a&b<c>d\"e'f", "1 < 2 && 3 > 2", "semi;colon&", "&#38;", "plain", " padded & ", "tab\t&", "line1\nline2 <x>", "]]>", "%26"]
SHEET_NAMES = [DEEP, "Data & Co", "a<b>", "q\"uote", "O'Brien", "\u00dcbersicht", "\u8868 & \u56f3", "R\u00e9sum\u00e9 <1>", "Sheet 2", "x!y", "&amp;",
               "tab>", "\U0001F600 sheet", "S1", "semi;&lt;"]
FONT_NAMES = [DEEP + " Font", "Marks & Co", "Fo<nt>", "F\u00f6n't \"q\"", "&amp; Sans", "Arial", "\uff2d\uff33 \uff30\u30b4\u30b7\u30c3\u30af"]
NUMFMTS = ["\"" + DEEP + "\"0.0", "\"a&b\"0.0", "0.00\" <kg>\"", "[$\u20ac-407]#,##0.00", "\"it's\"@", "0.0%", "#,##0;[Red]\\-#,##0", "\"&amp;\"0", "yyyy\\-mm\\-dd"]
URLS = ["http://h.example/{n}?" + DEEP, "http://h.example/p?a={n}&b=2", "https://\u00fcml.example/{n}/\u00e9", "mailto:x{n}@example.org?subject=a<b>&body=\"q\"",
        "file:///C:/dir/it's{n}.xlsx", "http://h.example/{n}#frag&x", "http://h.example/&amp;{n}"]
AUTHORS = [DEEP, "Ann", "Bob & Co", "<anon>", "\u00c5sa", "O'Neil", "\u8457\u8005", "q\"t"]
HEADERS = ["&L" + DEEP + " {n}", "&CPage &P of &N", "&L<left> & \"q\"", "&R\u00dcber {n}", " padded {n} ", "&C&amp; {n}", "&Lit's {n}"]
NAMES = [DEEP, "Name", "N\u00e4me", "_x", "\u540d\u524d", "Rng.A", "A&B", "lt<gt>"]
PROPS = ["title", "creator", "lastModifiedBy", "subject", "description", "keywords", "category", "manager", "company"]
FORMULAS = ["A1&\"<&>\"", "IF(A1<B1,\"<\",\">\")", "\"a&b\"&\"it's\"", "SUM(A1:B2)", "A1<>B1", "\"\u00e9&\U0001F600\"", "1+2"]
COLS = ["A", "B", "C", "D", "E", "F", "G", "Z", "AA"]


# ST_Xstring-relevant texts (cell text, shared strings, rich-text runs, cached strings of formulas): literal _xHHHH_
# look-alikes at the start, in the middle and AT THE END of a text, two in a row, the literal _x005F_, near misses,
# characters XML cannot carry, and mixtures
XS_TEXTS = ["_x0041_", "_x0041_ at the start", "mid_x0041_dle", "REG_x0041_", "_x000D_", "_x000d_", "a_x005F_x0042_", "_x005F_",
            "x_x005F_", "_x0041__x0042_", "__x0041_", "_x0041__", "two_x0041__x000A_", "tail_x0041", "_x41_", "_xZZZZ_", "_x00410_",
            "_", "__", "_x", "a\u0001b", "\u0008", "bell\u0007 end", "tab\tnl\ncr\rend", "_x0041_\u0001_x005F_", "\u001f_x001F_",
            "\ufffe edge \uffff", "caf\u00e9_x00E9_", "\U0001F600_xD83D_", "end with cr\r", "_x0041_\u0002"]


def gap_cols(rng, base):
    """equal NON-adjacent declared columns: with an undeclared column between them, and with a declared but different one
    between them - once for hidden, once for width, once for style"""
    out, c = [], base
    for kd in rng.sample([dict(w="8.38", hid=True, xf=-1), dict(w="14.5", hid=False, xf=-1), dict(w="8.38", hid=False, xf=2),
                          dict(w="5", hid=True, xf=-1), dict(w="8.38", hid=False, xf=XF_NUMFMT[1])], 4):
        other = dict(w="31", hid=False, xf=-1) if kd["w"] != "31" else dict(w="9", hid=False, xf=-1)
        if rng.random() < 0.5:
            out += [dict(kd, c=c), dict(kd, c=c + 2)]                       # c+1 is not declared
            c += 4
        else:
            out += [dict(kd, c=c), dict(other, c=c + 1), dict(kd, c=c + 2)]
            c += 4
        if rng.random() < 0.3:
            out += [dict(kd, c=c), dict(kd, c=c + 1), dict(kd, c=c + 3)]    # an adjacent pair, then a gap
            c += 5
    return out


def rand_foreign(rng, k):
    """A foreign file beyond the bounded model: rows and columns of every kind WITHOUT cells (hidden + empty, hidden +
    height, styled, thick bottom, descent, plain), the same with cells, and string cells in every encoding (shared
    plain, shared rich runs, inline, cached string of a formula) carrying ST_Xstring-relevant texts."""
    rows, cells, cols = {}, [], []
    kinds = [dict(ht="0", hid=True, xf=-1), dict(ht="20", hid=True, xf=-1), dict(ht="0", hid=False, xf=2), dict(ht="0", hid=False, xf=-1),
             dict(ht="33.5", hid=False, xf=-1), dict(ht="0", hid=True, xf=2), dict(ht="0", hid=False, xf=-1, thick=True),
             dict(ht="0", hid=False, xf=-1, desc="0.25"), dict(ht="0", hid=False, xf=1)]
    rn = 0
    for kd in rng.sample(kinds, rng.randint(3, len(kinds))) + [kinds[0], kinds[2]]:
        rn += rng.randint(1, 3)
        rows[rn] = dict(kd, r=rn)
        if rng.random() < 0.4:                                   # the same kind of row, holding cells
            texts = rng.sample(XS_TEXTS, 3) + [rng.choice(TEXTS)]
            for ci, t in enumerate(texts):
                enc = rng.choice(["text", "rich", "inline", "str"])
                c = {"r": rn, "c": ci + 1, "t": enc, "v": "", "f": "", "xf": rng.choice([-1, -1, 1, 2]), "text": t}
                if enc == "rich":
                    if len(t) < 2:
                        c["t"] = "text"
                    else:
                        h = rng.randint(1, len(t) - 1)
                        c["runs"] = [[t[:h], True], [t[h:], False]]
                elif enc == "str":
                    c["f"] = rng.choice(["A1&B1", "\"x\"&\"y\"", "T(A1)"])
                elif enc == "inline" and (t.strip() != t or t in ("123", "1e5", "TRUE")):
                    c["t"] = "text"                     # (inline strings go through value guessing in the reader: C03's matter)
                cells.append(c)
    cols += gap_cols(rng, 20)
    if rows:                                                    # numbers (and a text) under every declared number format
        rn = max(rows) + 2
        rows[rn] = dict(r=rn, ht="0", hid=False, xf=-1)
        for ci, xf in enumerate(rng.sample(XF_NUMFMT, 5)):
            cells.append({"r": rn, "c": ci + 1, "t": "n", "v": rng.choice(["1234.5", "45000", "-7", "0.125"]), "f": "", "xf": xf})
    for cn, kd in zip(rng.sample(range(1, 12), 5), rng.sample(
            [dict(w="8.38", hid=True, xf=-1), dict(w="12.5", hid=True, xf=-1), dict(w="8.38", hid=False, xf=2), dict(w="8.38", hid=False, xf=-1),
             dict(w="30", hid=False, xf=-1), dict(w="8.38", hid=True, xf=2)], 5)):
        cols.append(dict(kd, c=cn))
    f = {"x0": rng.choice(["X0", "L0"]), "xfs": ["X0", "S1"], "sst": ["a", "a&b"], "extra": [], "rid": "o",
         "sheets": [{"cells": cells, "rows": list(rows.values()), "cols": cols}]}
    edits = [rand_edit(rng)]
    if cells:
        edits.append({"si": 0, "mode": "existing", "pick": rng.randint(0, 99), "r": 1, "c": 1, "k": "text", "v": rng.choice(XS_TEXTS), "b": ""})
    return {"src": {"kind": "hex", "hex": build_xlsx(f).hex(), "name": f"foreign-{k}"}, "gens": 3, "light": rng.random() < 0.3,
            "edit": edits, "family": "foreign"}


def foreign_fixture():
    """always part of the run: every kind of row and column without cells, and every ST_Xstring-relevant text in every
    string encoding"""
    rows = [dict(r=1, ht="0", hid=False, xf=-1), dict(r=2, ht="0", hid=True, xf=-1), dict(r=3, ht="20", hid=True, xf=-1),
            dict(r=4, ht="0", hid=False, xf=2), dict(r=5, ht="0", hid=True, xf=2), dict(r=6, ht="0", hid=False, xf=-1, thick=True),
            dict(r=7, ht="0", hid=False, xf=-1, desc="0.25"), dict(r=8, ht="18", hid=False, xf=-1), dict(r=9, ht="0", hid=True, xf=-1)]
    cells = [{"r": 9, "c": 1, "t": "text", "v": "", "f": "", "xf": -1, "text": "in a hidden row"}]
    for k, t in enumerate(XS_TEXTS):
        rn = 11 + k
        rows.append(dict(r=rn, ht="0", hid=False, xf=-1))
        cells.append({"r": rn, "c": 1, "t": "text", "v": "", "f": "", "xf": -1, "text": t})
        if len(t) >= 2:
            cells.append({"r": rn, "c": 2, "t": "rich", "v": "", "f": "", "xf": -1, "text": t, "runs": [[t[:1], True], [t[1:], False]]})
            cells.append({"r": rn, "c": 3, "t": "rich", "v": "", "f": "", "xf": -1, "text": "x" + t, "runs": [["x", False], [t, True]]})
        if t.strip() == t:
            cells.append({"r": rn, "c": 4, "t": "inline", "v": "", "f": "", "xf": -1, "text": t})
        cells.append({"r": rn, "c": 5, "t": "str", "v": "", "f": "A1&B1", "xf": -1, "text": t})
    cols = [dict(c=2, w="8.38", hid=True, xf=-1), dict(c=7, w="8.38", hid=False, xf=-1), dict(c=8, w="8.38", hid=True, xf=-1),
            dict(c=9, w="14.5", hid=True, xf=-1), dict(c=10, w="8.38", hid=False, xf=2), dict(c=11, w="8.38", hid=True, xf=2),
            dict(c=12, w="22", hid=False, xf=-1)]
    # equal non-adjacent declared columns (hidden / width / style), an undeclared or a different declared column between them
    for base, kd in ((14, dict(w="8.38", hid=True, xf=-1)), (22, dict(w="14.5", hid=False, xf=-1)), (30, dict(w="8.38", hid=False, xf=2)),
                     (38, dict(w="5", hid=True, xf=-1))):
        cols += [dict(kd, c=base), dict(kd, c=base + 2),
                 dict(kd, c=base + 4), dict(w="31", hid=False, xf=-1, c=base + 5), dict(kd, c=base + 6)]
    rows.append(dict(r=60, ht="0", hid=False, xf=-1))
    rows.append(dict(r=61, ht="0", hid=False, xf=XF_NUMFMT[0]))
    for ci, xf in enumerate(XF_NUMFMT):                          # every declared number format on a number and on a text
        cells.append({"r": 60, "c": ci + 1, "t": "n", "v": "45000.5", "f": "", "xf": xf})
        cells.append({"r": 60, "c": ci + 21, "t": "text", "v": "", "f": "", "xf": xf, "text": "text under format %d" % xf})
    f = {"x0": "X0", "xfs": ["X0", "S1"], "sst": ["a", "a&b"], "extra": [], "rid": "o",
         "sheets": [{"cells": cells, "rows": rows, "cols": cols}]}
    edits = [{"si": 0, "mode": "at", "pick": 0, "r": 50, "c": 3, "k": "text", "v": t, "b": ""} for t in ("REG_x0041_", "_x000D_", "a_x005F_x0042_")]
    edits.append({"si": 0, "mode": "at", "pick": 0, "r": 51, "c": 3, "k": "formula", "v": "A1&B1", "b": "", "cached": "cached_x0041_"})
    return {"src": {"kind": "hex", "hex": build_xlsx(f).hex(), "name": "foreign-fixture"}, "gens": 3, "light": False, "edit": edits,
            "family": "foreign"}


def quote_sheet(n):
    return "'" + n.replace("'", "''") + "'"


def rand_style(rng):
    sp = {}
    if rng.random() < 0.6:
        sp["font"] = {"name": rng.choice(FONT_NAMES), "size": rng.choice(["9", "10.5", "11", "14"]), "bold": rng.random() < 0.4,
                      "italic": rng.random() < 0.2, "color": rng.choice(["", "FFFF0000", "FF00B050"])}
    if rng.random() < 0.5:
        sp["numfmt"] = rng.choice(NUMFMTS)
    if rng.random() < 0.3:
        sp["fill"] = rng.choice(["FFFFFF00", "FF123456"])
    if rng.random() < 0.2:
        sp["halign"] = rng.choice(["center", "right"])
    if rng.random() < 0.2:
        sp["border"] = rng.choice(["thin", "double"])
    return sp


def rand_wb(rng, size):
    """a workbook description for the driver's `build`"""
    ns = rng.randint(1, 3)
    names = rng.sample(SHEET_NAMES, ns)
    n = [0]

    def fmt(t):
        n[0] += 1
        return t.replace("{n}", str(n[0]))

    def text():
        return fmt(rng.choice(TEXTS) + (" {n}" if rng.random() < 0.5 else ""))

    def celltext():                      # cell text, rich-text runs, cached strings: also the ST_Xstring-relevant texts
        return rng.choice(XS_TEXTS) if rng.random() < 0.35 else text()

    sheets = []
    for si in range(ns):
        cells, used = [], set()
        for _ in range(rng.randint(1, size)):
            r, c = rng.randint(1, 30), rng.randint(1, 9)
            if (r, c) in used:
                continue
            used.add((r, c))
            k = rng.choice(["text", "text", "text", "num", "bool", "err", "rich", "blank"])
            cell = {"r": r, "c": c, "k": k, "v": "", "b": "", "f": ""}
            if k == "text":
                cell["v"] = celltext()
            elif k == "num":
                cell["b"] = bits(rng.choice([0.0, 1.5, -2.25, 1e300, 123456789.125, 0.1 + 0.2, 42.0]))
            elif k == "bool":
                cell["v"] = rng.choice(["TRUE", "FALSE"])
            elif k == "err":
                cell["v"] = rng.choice(["#N/A", "#DIV/0!", "#REF!"])
            elif k == "rich":
                cell["runs"] = [[celltext(), True], [" & <tail> " + text(), False]] if rng.random() < 0.6 else \
                    [[text(), False], [rng.choice(XS_TEXTS), True]]          # a look-alike at the end of the last run
            if k in ("text", "num") and rng.random() < 0.25:
                cell["f"] = rng.choice(FORMULAS)
            if k == "blank" or rng.random() < 0.5:
                cell["sty"] = rand_style(rng)
                if k == "blank" and not cell["sty"]:
                    cell["sty"] = {"fill": "FFFFFF00"}
            cells.append(cell)
        sh = {"name": names[si], "cells": cells, "rows": [], "cols": [], "merges": [], "links": [], "comments": [], "dvs": [],
              "cfs": [], "tables": []}
        if rng.random() < 0.2:
            sh["state"] = "hidden" if si > 0 else ""
        # rows and columns of every kind, most of them without cells (rows 31..60 hold at most hyperlink cells):
        # hidden + empty, hidden + height, hidden + (maybe) cells, styled empty, plain empty
        for r, kd in zip(rng.sample(range(1, 60), 6), [("", True, False), ("20.25", True, False), ("", True, True), ("", False, True),
                                                      ("", False, False), ("33", False, rng.random() < 0.4)]):
            if rng.random() < 0.7:
                row = {"r": r, "ht": kd[0], "hid": kd[1]}
                if kd[2]:
                    row["sty"] = rand_style(rng) or {"fill": "FF123456"}
                sh["rows"].append(row)
        for c, kd in zip(rng.sample(range(1, 30), 6), [("", True, False), ("12.5", True, False), ("", True, True), ("", False, True),
                                                      ("", False, False), ("30", False, rng.random() < 0.4)]):
            if rng.random() < 0.7:
                col = {"c": c, "w": kd[0], "hid": kd[1]}
                if kd[2]:
                    col["sty"] = rand_style(rng) or {"fill": "FF123456"}
                sh["cols"].append(col)
        for k in range(rng.randint(0, 2)):
            sh["merges"].append(f"K{2 * k + 1}:M{2 * k + 2}")
        lcells = set()
        for k in range(rng.randint(0, min(size, 4))):
            cell = f"{rng.choice(COLS)}{rng.randint(31, 60)}"
            if cell in lcells:
                continue
            lcells.add(cell)
            if rng.random() < 0.3:
                sh["links"].append({"cell": cell, "url": f"{quote_sheet(rng.choice(names))}!A{k + 1}", "loc": True, "tip": text()})
            else:
                sh["links"].append({"cell": cell, "url": fmt(rng.choice(URLS)), "loc": False, "tip": rng.choice(["", text()])})
        ccells = set()
        for k in range(rng.randint(0, 3)):
            rc = (rng.randint(1, 50), rng.randint(1, 12))
            if rc in ccells:
                continue
            ccells.add(rc)
            sh["comments"].append({"r": rc[0], "c": rc[1], "author": rng.choice(AUTHORS), "text": text()})
        for k in range(rng.randint(0, 2)):
            sh["dvs"].append({"sqref": f"P{k + 1}:Q{k + 2}", "type": "list", "op": "between", "blank": True, "showin": True, "showerr": True,
                              "ptitle": text()[:30], "prompt": text(), "etitle": text()[:30], "emsg": text(),
                              "f1": rng.choice(["\"a,b,c\"", "\"x&y,<z>\""]), "f2": ""})
        for k in range(rng.randint(0, 2)):
            sh["cfs"].append({"sqref": f"U{k + 1}:V{k + 4}", "rules": [
                {"type": "cellIs", "op": "greaterThan", "prio": k + 1, "hasf": True, "f": rng.choice(["5", "\"a&b\"", "$A$1<>\"<\""]),
                 "sty": {"font": {"name": "", "size": "", "bold": True, "italic": False, "color": "FFFF0000"}}}]})
        if rng.random() < 0.3:
            sh["af"] = f"A1:{rng.choice(COLS)}{rng.randint(2, 30)}"
        if rng.random() < 0.3:
            sh["tab"] = rng.choice(["FFFF0000", "FF123456"])
        if rng.random() < 0.5:
            sh["hf"] = {"h": fmt(rng.choice(HEADERS)), "f": fmt(rng.choice(HEADERS))}
        if rng.random() < 0.4:
            k = rng.randint(2, 4)
            sh["tables"].append({"name": f"Table{si + 1}", "display": rng.choice(["", f"Disp{si + 1}"]),
                                 "area": f"A70:{COLS[k - 1]}75", "cols": [text() + f" c{j}" for j in range(k)],
                                 "style": rng.choice(["", "TableStyleMedium2"])})
        if rng.random() < 0.3:
            sh["ps"] = {"paper": rng.choice([1, 9]), "orient": rng.choice(["landscape", "portrait"]), "scale": rng.randint(50, 150)}
        sheets.append(sh)
    wb = {"sheets": sheets, "names": [], "props": {}, "active": rng.randint(0, ns - 1)}
    for k in range(rng.randint(0, 3)):
        ref = rng.choice(names)
        safe = not (ref[0] in "'\"" or ref[-1] in "'\"")
        addr = f"{quote_sheet(ref)}!$A${k + 1}:$B${k + 5}" if safe else rng.choice(["42", "\"x&y\""])
        wb["names"].append({"name": rng.choice(NAMES) + str(k), "addr": addr, "home": rng.randint(0, ns),
                            "local": -1, "hidden": rng.random() < 0.2})
    for p in rng.sample(PROPS, rng.randint(0, len(PROPS))):
        wb["props"][p] = text()
    if rng.random() < 0.4:
        wb["props"]["custom"] = [{"name": "key & <" + str(k) + ">", "value": text()} for k in range(rng.randint(1, 2))]
    return wb


def rand_edit(rng, ncells_hint=50):
    k = rng.choice(["text", "text", "num", "bool", "formula"])
    ed = {"si": rng.randint(0, 6), "mode": rng.choice(["existing", "existing", "at"]), "pick": rng.randint(0, 10 ** 6),
          "r": rng.choice([1, 2, 7, 100, rng.randint(1, 200)]), "c": rng.choice([1, 2, 5, 30, rng.randint(1, 40)]),
          "k": k, "v": "", "b": ""}
    if k == "text":
        ed["v"] = rng.choice(XS_TEXTS) if rng.random() < 0.4 else rng.choice(TEXTS)
    elif k == "num":
        ed["b"] = bits(rng.choice([7.0, -0.5, 1e21, 3.141592653589793]))
    elif k == "bool":
        ed["v"] = rng.choice(["TRUE", "FALSE"])
    else:
        ed["v"] = rng.choice(["A1+1", "\"a&b\"&\"<\"", "SUM(A1:A3)"])
        ed["cached"] = rng.choice(XS_TEXTS + ["cached"])
    return ed


CLASSES = ["text", "num", "bool", "err", "rich", "blank", "formula", "master", "child", "link"]


def class_edits(rng, nsheets=8):
    """one edit per cell class (the driver picks a cell of that class on the chosen sheet, if there is one)"""
    out = []
    for cl in CLASSES:
        ed = rand_edit(rng)
        ed.update({"mode": "class", "class": cl, "si": rng.randint(0, nsheets - 1)})
        out.append(ed)
    return out


ECHOES = [(e, w) for e in ("plain-of-rich", "rich-of-plain", "rich-of-rich") for w in ("before", "after")]


def echo_edits(rng, nsheets=8):
    """edits that repeat the characters of an existing string cell in another kind (plain <-> rich text) or in other
    runs, right before / behind that cell: nothing but the edited cell may change - not its kind, not its runs"""
    out = []
    for e, w in ECHOES:
        ed = rand_edit(rng)
        ed.update({"mode": "echo", "echo": e, "where": w, "si": rng.randint(0, nsheets - 1), "k": "text"})
        out.append(ed)
    return out


def channel_fixture():
    """One workbook with an XML-special text in every text channel of MC_Channels (always part of the run)."""
    t = "a&b<c>d\"e'f " + DEEP
    sty = {"font": {"name": DEEP + " & <Co> \"q\" it's", "size": "10", "bold": False, "italic": False, "color": ""}, "numfmt": "\"a&b<c>'" + DEEP + "\"0.0"}
    sn = "a&b<c>\"e'f " + DEEP
    sh = {"name": sn, "cells": [{"r": 1, "c": 1, "k": "text", "v": t, "b": "", "f": "", "sty": sty},
                                           {"r": 2, "c": 1, "k": "num", "v": "", "b": bits(2.5), "f": "A1&\"<&>'\"&\"\"\"\""},
                                           {"r": 3, "c": 1, "k": "rich", "v": "", "b": "", "f": "", "runs": [[t, True], ["&amp;", False]]}],
          "rows": [{"r": 1, "ht": "20", "hid": False, "sty": sty}], "cols": [{"c": 1, "w": "20", "hid": False, "sty": sty}],
          "merges": ["K1:L2"],
          "links": [{"cell": "B5", "url": "http://h.example/?a=1&b=<2>\"'" + DEEP, "loc": False, "tip": t},
                    {"cell": "B6", "url": quote_sheet(sn) + "!A1", "loc": True, "tip": ""}],
          "comments": [{"r": 4, "c": 2, "author": "A&B <C> \"q\" it's " + DEEP, "text": t}],
          "dvs": [{"sqref": "P1:P3", "type": "list", "op": "between", "blank": True, "showin": True, "showerr": True,
                   "ptitle": "t&<\"'>" + DEEP, "prompt": t, "etitle": "e&<\"'>" + DEEP, "emsg": t, "f1": "\"x&y,<z>\"", "f2": ""}],
          "cfs": [], "hf": {"h": "&L" + t, "f": "&C" + DEEP + " <f> \"q\" it's"},
          "tables": [{"name": "Table1", "display": "Disp1", "area": "A70:B73", "cols": [t, "c&d<e>\"f'" + DEEP], "style": ""}]}
    wb = {"sheets": [sh], "names": [{"name": "N&<\"'>" + DEEP, "addr": quote_sheet(sn) + "!$A$1", "home": 0, "local": -1, "hidden": False}],
          "props": {p: t + " " + p for p in PROPS}, "active": 0}
    wb["props"]["custom"] = [{"name": "k&<\"'>" + DEEP, "value": t}]
    return wb


CHANNELS = ["sheet_name", "defined_name", "hyperlink_target", "hyperlink_location", "table_name", "table_column", "numfmt_code",
            "font_name", "dv_prompt", "custom_property_name", "cell_text", "formula_text", "comment_author", "comment_text",
            "header_footer", "doc_property", "defined_name_address"]


def channel_texts(obs, sty):
    """texts observed per channel in one projection (measurement for the evidence file / vacuity guard)"""
    out = {c: set() for c in CHANNELS}
    for st in sty.values():
        try:
            j = json.loads(st)
            out["font_name"].add(j["font"]["name"])
            out["numfmt_code"].add(j["numFmt"])
        except Exception:
            pass
    for nm in obs.get("names", []):
        out["defined_name"].add(nm["name"])
        out["defined_name_address"].add(nm["addr"])
    pr = obs.get("props", {})
    for k, v in pr.items():
        if isinstance(v, str):
            out["doc_property"].add(v)
    for c in pr.get("custom", []) if isinstance(pr.get("custom"), list) else []:
        out["custom_property_name"].add(c["name"])
        out["doc_property"].add(c["value"])
    for sh in obs.get("sheets", []):
        out["sheet_name"].add(sh["name"])
        for c in sh["cells"]:
            if c["k"] in ("text", "rich"):
                out["cell_text"].add(c["v"])
            if c["f"]:
                out["formula_text"].add(c["f"])
        for l in sh["links"]:
            out["hyperlink_location" if l["loc"] else "hyperlink_target"].add(l["url"])
        for c in sh["comments"]:
            out["comment_author"].add(c["author"])
            out["comment_text"].add(c["text"])
        for d in sh["dvs"]:
            for k in ("ptitle", "prompt", "etitle", "emsg"):
                out["dv_prompt"].add(d[k])
        out["header_footer"].add(sh["hf"]["h"])
        out["header_footer"].add(sh["hf"]["f"])
        for nm in sh["names"]:
            out["defined_name"].add(nm["name"])
            out["defined_name_address"].add(nm["addr"])
        for t in sh["tables"]:
            out["table_name"].add(t["name"])
            out["table_name"].add(t["display"])
            for c in t["cols"]:
                out["table_column"].add(c["name"])
    return out


# ---------------------------------------------------------------------------------------------------------------------
# cases
# ---------------------------------------------------------------------------------------------------------------------
def corpus_files(thorough):
    d = os.path.join(vlib.REPO, "tests", "test_files")
    out = []
    for f in sorted(glob.glob(os.path.join(d, "*.xlsx")) + glob.glob(os.path.join(d, "*.xlsm"))):
        name = os.path.basename(f)
        if os.path.getsize(f) == 0:
            continue                      # aaa_large_string.xlsx is an empty file in the tree as given
        if name in BIG_CORPUS and not thorough:
            continue
        out.append((name, f))
    return out


def kf_exemplars():
    """files built here that always exercise the open findings which do not depend on the corpus: a sheet with a code
    name in a workbook without macros (C04-KF2), an edit of the master cell of a shared formula (C04-KF4)"""
    f = {"x0": "X0", "xfs": ["X0", "S1"], "sst": ["a", "a&b"], "extra": [], "rid": "o",
         "sheets": [{"cells": [{"r": 1, "c": 1, "t": "s", "v": 2, "f": "", "xf": 2}, {"r": 2, "c": 1, "t": "", "v": "", "f": "", "xf": 1}],
                     "rows": [{"r": 1, "ht": "0", "xf": -1}, {"r": 2, "ht": "0", "xf": -1}, {"r": 3, "ht": "0", "xf": -1}]}]}
    return [{"src": {"kind": "hex", "hex": build_xlsx(f, code_name="Code & <Name>", shared_rows=3).hex(), "name": "kf2-kf4-built-file"},
             "gens": 3, "light": False,
             "edit": [{"si": 0, "mode": "at", "pick": 0, "r": 1, "c": 1, "k": "text", "v": "edited & <ok>", "b": ""},
                      {"si": 0, "mode": "at", "pick": 0, "r": 1, "c": 3, "k": "num", "v": "", "b": bits(42.0)},     # the master
                      {"si": 0, "mode": "at", "pick": 0, "r": 2, "c": 3, "k": "text", "v": "a child: harmless", "b": ""}],
             "family": "kf"}]


def gen_cases(chk):
    rng = chk.rng
    quick = chk.tier == "quick"
    cases = kf_exemplars()
    cases.append({"src": {"kind": "gen", "wb": channel_fixture()}, "gens": 3, "light": False,
                  "edit": [{"si": 0, "mode": "existing", "pick": 0, "r": 1, "c": 1, "k": "text", "v": "new & <text>", "b": ""}],
                  "family": "channels"})
    cases.append({"src": {"kind": "gen", "wb": channel_fixture()}, "gens": 3, "light": True, "edit": [rand_edit(rng)], "family": "channels"})
    cases.append({"src": {"kind": "gen", "wb": channel_fixture()}, "gens": 2, "light": False, "edit": echo_edits(rng, 1), "family": "channels"})
    twins = {"x0": "X0", "xfs": ["X0", "S1"], "sst": ["a", "a&b"], "extra": [], "rid": "o",
             "sheets": [{"cells": [{"r": 1, "c": 1, "t": "s", "v": 1, "f": "", "xf": -1}], "rows": [{"r": 1, "ht": "0", "xf": -1}]}]}
    for tw in ("before", "after", ""):
        cases.append({"src": {"kind": "hex", "hex": build_xlsx(twins, rich="Total 2024", twin=tw).hex(), "name": "rich-twin-" + (tw or "none")},
                      "gens": 2, "light": False, "edit": echo_edits(rng, 1) if not tw else [rand_edit(rng)], "family": "twins"})
    ncor = 0
    big = []
    for name, path in corpus_files(not quick):
        ncor += 1
        if name in BIG_CORPUS:
            big.append({"src": {"kind": "corpus", "path": path, "name": name}, "gens": 2, "light": False,
                        "edit": [rand_edit(rng)], "family": "corpus-big"})
            continue
        if quick:
            groups = [[rand_edit(rng), rng.choice(echo_edits(rng))]]
        else:
            ce = class_edits(rng) + class_edits(rng, 1) + echo_edits(rng) + echo_edits(rng, 1)
            groups = [[rand_edit(rng) for _ in range(4)]] + [ce[i:i + 5] for i in range(0, len(ce), 5)]
        if name == "aaa.xlsx":       # W6 of the second sheet is the master of a shared formula (W6:W14): C04-KF4
            groups[0].append({"si": 1, "mode": "at", "pick": 0, "r": 6, "c": 23, "k": "text", "v": "over the master", "b": ""})
        for edits in groups:
            cases.append({"src": {"kind": "corpus", "path": path, "name": name}, "gens": 3, "light": False,
                          "edit": edits, "family": "corpus"})
        if not quick:
            cases.append({"src": {"kind": "corpus", "path": path, "name": name}, "gens": 3, "light": True,
                          "edit": [rand_edit(rng)], "family": "corpus"})
    r = vlib.run_tlc("MC_Resave", "MC_Resave_replay.cfg", workers=4, coverage=False, timeout=1800)
    if not r.ok or not r.replays:
        raise vlib.ToolError("replay generation failed: " + (r.violation or r.out[-500:]))
    seen, reps = set(), []
    for rp in r.replays:
        key = json.dumps(rp, sort_keys=True)
        if key not in seen:
            seen.add(key)
            reps.append(rp)
    total = len(reps)
    if quick and len(reps) > 600:
        reps = rng.sample(reps, 600)
    ntlc = len(reps)
    cases += [from_tlc(rp, rng) for rp in reps]
    ngen = 250 if quick else 2500
    for k in range(ngen):
        cases.append({"src": {"kind": "gen", "wb": rand_wb(rng, rng.choice([3, 8, 20, 40]))}, "gens": 3, "light": rng.random() < 0.3,
                      "edit": [rand_edit(rng), rng.choice(echo_edits(rng, 3))] if quick
                      else [rand_edit(rng)] + rng.sample(class_edits(rng, 3), 2) + rng.sample(echo_edits(rng, 3), 2),
                      "family": "generated"})
    nfor = 80 if quick else 1500
    cases.append(foreign_fixture())
    for k in range(nfor):
        cases.append(rand_foreign(rng, k))
    chk.extra["cases"] = {"foreign_files_rows_columns_xstring": nfor + 1, "corpus_files": ncor, "of_which_large": len(big), "tlc_model_files": ntlc, "of_all_tlc_behaviours": total, "generated_workbooks": ngen,
                          "fixtures": 7}
    for i, c in enumerate(cases + big):
        c["case"] = i
    return cases, big


# ---------------------------------------------------------------------------------------------------------------------
# projection of the bytes, validation
# ---------------------------------------------------------------------------------------------------------------------
def project(events, side):
    """Replace the bytes of every event by the independent decoder's view; move the style tables (diagnostics only)
    out of the events TLC reads."""
    def one(evs):
        for e in evs:
            if "hex" in e:
                hx = e.pop("hex")
                try:
                    e["file"] = resave_view.view(bytes.fromhex(hx)) if hx else resave_view.empty()
                except Exception as ex:                      # unreadable package: data, not a tool error
                    e["file"] = resave_view.empty()
                    e["decoder_error"] = str(ex)[:200]
            if "sty" in e:
                for x in e.pop("sty"):
                    side.setdefault(e.get("case"), {})[x["h"]] = x["j"]
        return evs
    with ThreadPoolExecutor(max_workers=4) as ex:
        return list(ex.map(one, events))


def describe_factory(side):
    def describe(case, ev, detail):
        src = case["src"]
        label = src.get("name") or src["kind"]
        extra = ""
        sty = side.get(case.get("case"), {})
        hs = [h for h in re.findall(r'"([0-9a-f]{16})"', detail) if h in sty][:2]
        if len(hs) == 2 and hs[0] != hs[1]:
            try:
                a, b = json.loads(sty[hs[0]]), json.loads(sty[hs[1]])
                extra = " styles differ in: " + json.dumps({k: [a[k], b[k]] for k in a if a[k] != b.get(k)})[:400]
            except Exception:
                pass
        head = {k: v for k, v in (ev or {}).items() if k not in ("obs", "file", "cell")}
        return f"{label} ({case.get('family')}): {json.dumps(head)}: {detail[:900]}{extra}"
    return describe


def judge(chk, cases, tag="c04"):
    t0 = time.time()
    raw = vlib.run_cases("resave", cases, timeout=900, jobs=6)
    for ci, evs in enumerate(raw):
        if evs and evs[0].get("a") == "Fatal" and evs[0].get("outcome") == "timeout":
            # (a hang is not what this property is about, and a slow machine must never become a verdict)
            raise vlib.ToolError(f"driver timed out on case {ci} ({cases[ci]['src'].get('name') or cases[ci]['src']['kind']})")
    side = {}
    events = project(raw, side)
    t1 = time.time()
    out = vlib.validate("Trace_Resave", "Trace_Resave.cfg", events, chk.open_ids, tag, chunk_events=400, jobs=4, timeout=7200)
    first = {}
    for ci, off, detail in out["mismatch"]:
        if ci not in first or off < first[ci][0]:
            first[ci] = (off, detail)
    for ci, (off, detail) in first.items():
        if detail.startswith('<<"gen"'):
            raise vlib.ToolError(f"generator / protocol out of line (case {ci}, event {off}): {detail[:600]}")
    chk.process_validation(out, cases, events, "resave", describe_factory(side))
    vlib.log(f"[c04] {tag}: {len(cases)} cases driven + projected in {t1 - t0:.1f}s, {out['events']} events validated in "
             f"{time.time() - t1:.1f}s, {len(out['kf'])} known-finding hits, {len(first)} rejected")
    return events, side


def judge_big(chk, case):
    """One large corpus file: driven, projected and validated on its own (one TLC instance with a 12 GB heap); only
    a summary of its events is kept."""
    t0 = time.time()
    raw = vlib.run_cases("resave", [case], timeout=3000, jobs=1)
    if raw[0] and raw[0][0].get("a") == "Fatal" and raw[0][0].get("outcome") == "timeout":
        raise vlib.ToolError(f"driver timed out on {case['src']['name']}")
    side = {}
    events = project(raw, side)
    path = os.path.join(vlib.WORK, f"trace-c04big-{os.getpid()}.ndjson")
    vlib.write_ndjson(path, events[0])
    try:
        v = vlib.validate_file("Trace_Resave", "Trace_Resave.cfg", path, chk.open_ids, timeout=7200, heap="12g")
    finally:
        if os.path.exists(path):
            os.remove(path)
    out = {"mismatch": [(0, l - 1, d) for l, d in v.mismatches], "kf": [(fid, 0, l - 1) for fid, l in v.kf],
           "events": len(events[0]), "states": v.states, "chunks": 1}
    for _ci, off, detail in out["mismatch"]:
        if detail.startswith('<<"gen"'):
            raise vlib.ToolError(f"generator / protocol out of line ({case['src']['name']}, event {off}): {detail[:600]}")
    ncells = [sum(len(sh["cells"]) for sh in e["obs"]["sheets"]) for e in events[0] if "obs" in e]
    slim = [[{k: x for k, x in e.items() if k not in ("obs", "file")} for e in events[0]]]
    chk.process_validation(out, [case], slim, "resave", describe_factory(side))
    vlib.log(f"[c04] {case['src']['name']}: {len(slim[0])} events, {max(ncells) if ncells else 0} cells per generation, "
             f"{len(out['mismatch'])} mismatches, {time.time() - t0:.1f}s")
    return len(slim[0]) >= 4


def taken(r, action):
    return sum(int(b) for _a, b in re.findall(r"^<%s line [^>]*>: (\d+):(\d+)" % action, r.out, re.M))


def expect_refuted(chk, module, cfg, invariant, what):
    r = vlib.run_tlc(module, cfg, workers=4, coverage=False)
    if r.violation is None or invariant not in r.violation:
        raise vlib.ToolError(f"TLC did not refute {invariant} for {what}: the property would be vacuous ({r.violation})")
    chk.extra.setdefault("deviant_designs_refuted", []).append(f"{cfg}: {r.violation} ({r.generated} states generated)")


def run(chk):
    quick = chk.tier == "quick"
    # quick: 32 cell sets x {foreign, library-made} x (base file + every single deviation of the other features); thorough:
    # 128 cell sets x single deviations, and 32 cell sets x every pair of deviations
    for cfg in (["MC_Resave.cfg"] if quick else ["MC_Resave_thorough.cfg", "MC_Resave_thorough2.cfg"]):
        r = vlib.tlc_mc("MC_Resave", cfg, workers=4, check=chk, timeout=7200, heap="8g")
        if r is not None and (taken(r, "MCEdit") == 0 or taken(r, "MCResave") == 0):
            raise vlib.ToolError("vacuous model checking run: MCEdit / MCResave never taken")
    # a writer that leaves out the <row> of a row without cells whose attributes all have their default value satisfies
    # every property (Norm does not count such an entry as content) ...
    vlib.tlc_mc("MC_Resave", "MC_Resave_rowskip.cfg", workers=4, check=chk, timeout=7200)
    r = vlib.tlc_mc("MC_Channels", "MC_Channels.cfg", workers=4, check=chk)
    if r is not None and taken(r, "SaveLoad") == 0:
        raise vlib.ToolError("vacuous model checking run: SaveLoad of Channels never taken")
    if not os.environ.get("VERIF_DEBUG_SKIP_MC"):
        expect_refuted(chk, "MC_Resave", "MC_Resave_deviant.cfg", "OrigSim", "the writer that drops styled blank cells")
        # ... the one whose test for "nothing of its own" forgets `hidden` does not
        expect_refuted(chk, "MC_Resave", "MC_Resave_deviant_hidden.cfg", "OrigSim",
                       "the writer that skips rows without cells, height and style although they are hidden")
        expect_refuted(chk, "MC_Resave", "MC_Resave_deviant_colfold.cfg", "OrigSim",
                       "the writer that folds equal declared columns into one run across undeclared columns")
        expect_refuted(chk, "MC_Channels", "MC_Channels_xstring_deviant.cfg", "DriftFree",
                       "an ST_Xstring writer that does not protect a literal _xHHHH_ at the very end of a text")
        expect_refuted(chk, "MC_Channels", "MC_Channels_deviant.cfg", "DriftFree",
                       "the configuration 'write Esc, read Id' of the tree before commit 5eeb38a")
        expect_refuted(chk, "MC_Channels", "MC_Channels_rawwriter.cfg", "WrittenSafe", "a writer that does not escape")
    cases, big = gen_cases(chk)
    events, side = judge(chk, cases)
    bigok = [c["src"]["name"] for c in big if judge_big(chk, c)]
    # measurement: which text channels were exercised with XML-special characters (vacuity guard)
    seen = {c: set() for c in CHANNELS}
    for ci, evs in enumerate(events):
        if cases[ci]["src"]["kind"] != "gen" or not evs or evs[0].get("outcome") != "ok":
            continue
        for ch, ts in channel_texts(evs[0]["obs"], side.get(cases[ci]["case"], {})).items():
            seen[ch] |= {t for t in ts if SPECIAL & set(t)}
    # (table names are identifiers in Excel: no special characters to put there; tooltips are not read by the library)
    missing = [c for c in CHANNELS if not seen[c] and c != "table_name"]
    if missing:
        raise vlib.ToolError("text channels never exercised with an XML-special character: " + ", ".join(missing))
    chk.extra["channels_exercised_distinct_special_texts"] = {c: len(v) for c, v in seen.items()}
    # measurement: rows / columns without cells and ST_Xstring-relevant texts in the ORIGINALS the library loaded from
    # files it did not write (vacuity guard)
    stat = {"hidden_rows_without_cells": 0, "hidden_rows_with_cells": 0, "styled_rows_without_cells": 0, "plain_rows_without_cells": 0,
            "hidden_columns": 0, "styled_columns": 0, "texts_ending_in_lookalike": 0, "texts_with_lookalike_elsewhere": 0,
            "texts_with_control_character": 0, "cached_strings_with_lookalike": 0, "rich_texts_with_lookalike": 0}
    for ci, evs in enumerate(events):
        if cases[ci]["src"]["kind"] != "hex" or not evs or evs[0].get("outcome") != "ok":
            continue
        obs = evs[0]["obs"]
        for sh in obs["sheets"]:
            used = {c["r"] for c in sh["cells"]}
            for r in sh["rows"]:
                styled = r["s"] != obs["plain"]
                if r["hid"]:
                    stat["hidden_rows_with_cells" if r["r"] in used else "hidden_rows_without_cells"] += 1
                elif r["r"] not in used:
                    stat["styled_rows_without_cells" if styled else "plain_rows_without_cells"] += 1
            for c in sh["cols"]:
                stat["hidden_columns"] += 1 if c["hid"] else 0
                stat["styled_columns"] += 1 if c["s"] != obs["plain"] else 0
            for c in sh["cells"]:
                if c["k"] not in ("text", "rich"):
                    continue
                la = _LOOKALIKE.search(c["v"]) is not None
                stat["texts_ending_in_lookalike"] += 1 if re.search(r"_x[0-9A-Fa-f]{4}_$", c["v"]) else 0
                stat["texts_with_lookalike_elsewhere"] += 1 if re.search(r"_x[0-9A-Fa-f]{4}_.", c["v"], re.S) else 0
                stat["texts_with_control_character"] += 1 if any(not _xmlchar(ch) for ch in c["v"]) else 0
                stat["cached_strings_with_lookalike"] += 1 if la and c["f"] else 0
                stat["rich_texts_with_lookalike"] += 1 if la and c["k"] == "rich" else 0
    if not all(stat.values()):
        raise vlib.ToolError("foreign files never exercised: " + ", ".join(k for k, v in stat.items() if not v))
    chk.extra["foreign_originals_exercised"] = stat
    # measurement: the echo edits that found a string cell to repeat (vacuity guard: every variant at least once)
    applied = {f"{e}/{w}": 0 for e, w in ECHOES}
    for ci, evs in enumerate(events):
        eds = [e for e in evs if e.get("a") == "Edit"]
        for spec, ev in zip(cases[ci]["edit"], eds):
            if spec.get("mode") == "echo" and ev.get("echoed"):
                applied[f"{spec['echo']}/{spec['where']}"] += 1
    if not all(applied.values()):
        raise vlib.ToolError("echo edits never applied: " + ", ".join(k for k, v in applied.items() if not v))
    chk.extra["echo_edits_applied"] = applied
    chk.extra["corpus_files_the_library_rejects"] = sorted(
        cases[ci]["src"]["name"] for ci, evs in enumerate(events)
        if cases[ci]["family"] == "corpus" and evs and evs[0].get("outcome") == "unreadable")
    chk.evaluations = len(cases) + len(big)
    keys = set()
    for ci, c in enumerate(cases):
        if len(events[ci]) >= 4:                     # at least Load + two generations recorded
            src = c["src"]
            keys.add(hashlib.sha1(json.dumps([src.get("name"), src.get("wb"), src.get("hex", ""), c["edit"], c["light"]],
                                                 sort_keys=True).encode()).hexdigest())
    keys.update(n + " (large)" for n in bigok)
    chk.nontrivial = keys
    chk.rule = ("a case is one original file (corpus file / workbook generated through the public API with XML-special and "
                "non-ASCII text in every text channel / foreign file built here: from a TLC behaviour of MC_Resave, or with rows and "
                "columns of every kind without cells and ST_Xstring-relevant texts in every string encoding) driven through load, "
                "3 x (save, load), a second save of the unchanged workbook, and for each single-cell edit again 3 x (save, load); "
                "distinct = different (file, edits, writer); non-trivial = the library could read the file and at least two "
                "generations were recorded")
    g = [i for i, c in enumerate(cases) if c["family"] == "generated"]
    if g:
        e = events[g[0]]
        chk.sample({"family": "generated", "workbook": cases[g[0]]["src"]["wb"]["sheets"][0]["name"],
                    "events": [{k: v for k, v in x.items() if k not in ("obs", "file")} for x in e][:9],
                    "gen1_sheet1_cells": e[1]["obs"]["sheets"][0]["cells"][:3] if len(e) > 1 and e[1]["obs"]["sheets"] else []})
    t = [i for i, c in enumerate(cases) if c["family"] == "tlc"]
    if t:
        chk.sample({"family": "tlc", "edit": cases[t[0]]["edit"],
                    "events": [{k: v for k, v in x.items() if k not in ("obs", "file")} for x in events[t[0]]][:9]})
    c0 = [i for i, c in enumerate(cases) if c["family"] == "corpus"]
    if c0:
        chk.sample({"family": "corpus", "file": cases[c0[0]]["src"]["name"],
                    "file_views": [{"a": x["a"], "nparts": x["file"]["nparts"], "nstr": x["file"]["nstr"]} for x in events[c0[0]] if "file" in x]})
    chk.assumptions += [
        "the projection covers cells (kind, value, number bits, formula, rich-text runs, style digest), row and column "
        "entries, merges, hyperlinks, comments, validations, conditional formats, auto filter, tab colour, views, page setup / "
        "margins / print options, header/footer, sheet format, protection, defined names, tables, images (name, anchor, data "
        "digest), chart anchors, counts of shapes / OLE objects / pivot tables, breaks, sheet state and code name, workbook "
        "names / protection / document and custom properties / active tab; what the library keeps only as raw parts is seen "
        "through the decoder's part list",
        "a style is compared through a 64-bit FNV-1a digest of its effective form (C05's form: absent font / fill / border read "
        "as the library default); the style that cell format 0 of a foreign file denotes is identified as the one digest of "
        "the original that no longer occurs after the first save (one uniform choice per workbook, Resave!OrigSimHolds)",
        "the string inventory is compared as a multiset, parts by name and content type; bytes of parts are not compared",
        "python3 zipfile / expat (pydec) are correct; edits are simple values (text, number, boolean, formula text without "
        "surrounding blanks), i.e. the classes C01 shows to survive a save"]


def replay(chk, path):
    with open(path) as f:
        rp = json.load(f)
    judge(chk, [rp["script"]], tag="c04replay")
