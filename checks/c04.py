"""C04 - re-saving is stable: no drift, no loss of untouched content.

Spec: spec/Resave.tla (PART 1: the observable content of a workbook, Norm - what a save may legitimately
normalise -, single-cell edits, OrigSim / EditLocal as operators; PART 2: a bounded model of memory / file / save /
load over generations: private string table per save, style interning that reuses cell format 0 and equal entries,
blank unstyled cells dropped, a row element per row) and spec/Channels.tla (every text channel as writer-op /
reader-op pair over character sequences; Esc / Unesc are computed, Unesc(Esc(x)) = x is checked).
MC_Resave*.cfg: TLC checks FixedPoint, FileFixedPoint, OrigSim (+ the trace specification's way of finding the digest
of cell format 0), EditLocal, SaveTwiceSame, NormIdempotent on every file of a bounded family; the deviant writer
that drops styled blank cells must be REFUTED.  MC_Channels*.cfg: the intended configuration is drift-free and
writes only legal XML; the configuration of the tree before commit 5eeb38a (attributes written escaped, read raw)
and a writer that does not escape must be REFUTED.
Conformance: harness/src/bin/resave.rs drives load -> (save -> load) x 3 in memory, a second save of the unchanged
workbook, and again (save -> load) x 3 after each single-cell edit of the case (random cells and values; thorough: one
edit per cell class - text, number, boolean, error, rich text, blank, formula, master / member of a shared formula,
cell with a hyperlink), for every corpus file the library can read (the five largest only in the thorough tier), for workbooks
generated through the public API with XML-special / non-ASCII text in every text channel, and for foreign files built
here from the behaviours TLC prints for MC_Resave_replay.cfg.  Every generation logs the full projection through
public getters; pydec/resave_view.py adds the independent decoder's view of the bytes (part list, string inventory).
spec/Trace_Resave.tla judges every event with the operators of Resave.tla.
"""
import glob, hashlib, io, json, os, re, struct, time, zipfile
from concurrent.futures import ThreadPoolExecutor
import vlib
from pydec import resave_view

BIG_CORPUS = {"aaa_large.xlsx", "issue_216.xlsx", "issue_233.xlsx", "issue_188_3.xlsx", "issue_194_2.xlsx"}
# thorough tier only (20 000 .. 300 000 cells: the projection of one generation is up to 25 MB); they are driven and
# validated one at a time, two generations per chain, with a larger TLC heap
SPECIAL = set("&<>\"'")


def bits(x):
    return "%016x" % struct.unpack(">Q", struct.pack(">d", x))[0]


# ---------------------------------------------------------------------------------------------------------------------
# foreign files from TLC behaviours (MC_Resave: file = [x0, xfs, sst, extra, sheets: [cells: raw cells, rows]])
# ---------------------------------------------------------------------------------------------------------------------
def _esc(t):
    return t.replace("&", "&amp;").replace("<", "&lt;").replace(">", "&gt;").replace('"', "&quot;")


def _col(n):
    s = ""
    while n > 0:
        n, r = divmod(n - 1, 26)
        s = chr(65 + r) + s
    return s


FONT0 = {"X0": '<font><sz val="10"/><name val="Foreign Sans &amp; Co"/><family val="2"/></font>',
         "L0": '<font><sz val="11"/><color theme="1"/><name val="Calibri"/><family val="2"/><scheme val="minor"/></font>'}
NS_MAIN = "http://schemas.openxmlformats.org/spreadsheetml/2006/main"
NS_REL = "http://schemas.openxmlformats.org/officeDocument/2006/relationships"
NS_PKG = "http://schemas.openxmlformats.org/package/2006/relationships"


def build_xlsx(f, code_name="", text_map=None, shared_rows=0, rich="", twin=""):
    """bytes of a minimal, valid xlsx package for a file of the bounded model (written with string templates and
    zipfile: shares nothing with the library).  Cell format 1 duplicates cell format 0 (it only adds the attribute
    pivotButton, which the library does not model), cell format 2 is a bold font.  shared_rows = n > 0 puts a shared
    formula into column C of rows 1..n (master C1 with text and ref, the others only with si).  rich = text puts a
    rich-text cell D5 (first half bold, rest plain) into a row of its own; twin = "before" / "after" adds a PLAIN string
    with the same characters in C5 / E5 (two string items that differ only in kind)."""
    text_map = text_map or {}
    sheets = f["sheets"]
    ct = ['<?xml version="1.0" encoding="UTF-8" standalone="yes"?>',
          '<Types xmlns="http://schemas.openxmlformats.org/package/2006/content-types">',
          '<Default Extension="rels" ContentType="application/vnd.openxmlformats-package.relationships+xml"/>',
          '<Default Extension="xml" ContentType="application/xml"/>',
          '<Override PartName="/xl/workbook.xml" ContentType="application/vnd.openxmlformats-officedocument.spreadsheetml.sheet.main+xml"/>',
          '<Override PartName="/xl/styles.xml" ContentType="application/vnd.openxmlformats-officedocument.spreadsheetml.styles+xml"/>',
          '<Override PartName="/xl/sharedStrings.xml" ContentType="application/vnd.openxmlformats-officedocument.spreadsheetml.sharedStrings+xml"/>']
    for i in range(len(sheets)):
        ct.append(f'<Override PartName="/xl/worksheets/sheet{i + 1}.xml" ContentType="application/vnd.openxmlformats-officedocument.spreadsheetml.worksheet+xml"/>')
    ct.append('</Types>')
    parts = {"[Content_Types].xml": "".join(ct),
             "_rels/.rels": f'<?xml version="1.0" encoding="UTF-8" standalone="yes"?><Relationships xmlns="{NS_PKG}">'
                            f'<Relationship Id="rId1" Type="{NS_REL}/officeDocument" Target="xl/workbook.xml"/></Relationships>'}
    wbrels = [f'<Relationship Id="rId{i + 1}" Type="{NS_REL}/worksheet" Target="worksheets/sheet{i + 1}.xml"/>' for i in range(len(sheets))]
    n = len(sheets)
    wbrels.append(f'<Relationship Id="rId{n + 1}" Type="{NS_REL}/styles" Target="styles.xml"/>')
    wbrels.append(f'<Relationship Id="rId{n + 2}" Type="{NS_REL}/sharedStrings" Target="sharedStrings.xml"/>')
    if f["extra"]:
        wbrels.append(f'<Relationship Id="rId{n + 3}" Type="{NS_REL}/customXml" Target="../customXml/item1.xml"/>')
        parts["customXml/item1.xml"] = '<?xml version="1.0" encoding="UTF-8"?><note xmlns="urn:example:unmodelled">kept?</note>'
    parts["xl/_rels/workbook.xml.rels"] = f'<?xml version="1.0" encoding="UTF-8" standalone="yes"?><Relationships xmlns="{NS_PKG}">' + "".join(wbrels) + '</Relationships>'
    parts["xl/workbook.xml"] = (f'<?xml version="1.0" encoding="UTF-8" standalone="yes"?><workbook xmlns="{NS_MAIN}" xmlns:r="{NS_REL}"><sheets>'
                                + "".join(f'<sheet name="Model{i + 1}" sheetId="{i + 1}" r:id="rId{i + 1}"/>' for i in range(n))
                                + '</sheets></workbook>')
    parts["xl/styles.xml"] = (
        f'<?xml version="1.0" encoding="UTF-8" standalone="yes"?><styleSheet xmlns="{NS_MAIN}">'
        f'<fonts count="2">{FONT0[f["x0"]]}<font><b/><sz val="12"/><name val="Bold &amp; Beautiful"/></font></fonts>'
        '<fills count="2"><fill><patternFill patternType="none"/></fill><fill><patternFill patternType="gray125"/></fill></fills>'
        '<borders count="1"><border><left/><right/><top/><bottom/><diagonal/></border></borders>'
        '<cellStyleXfs count="1"><xf numFmtId="0" fontId="0" fillId="0" borderId="0"/></cellStyleXfs>'
        '<cellXfs count="3"><xf numFmtId="0" fontId="0" fillId="0" borderId="0" xfId="0"/>'
        '<xf numFmtId="0" fontId="0" fillId="0" borderId="0" xfId="0" pivotButton="1"/>'
        '<xf numFmtId="0" fontId="1" fillId="0" borderId="0" xfId="0" applyFont="1"/></cellXfs>'
        '<cellStyles count="1"><cellStyle name="Normal" xfId="0" builtinId="0"/></cellStyles></styleSheet>')
    sst = [text_map.get(t, t) for t in f["sst"]]
    items = [f'<si><t xml:space="preserve">{_esc(t)}</t></si>' for t in sst]
    if rich:
        h = max(1, len(rich) // 2)
        items.append(f'<si><r><rPr><b/><sz val="11"/><rFont val="Calibri"/></rPr><t xml:space="preserve">{_esc(rich[:h])}</t></r>'
                     f'<r><t xml:space="preserve">{_esc(rich[h:])}</t></r></si>')
        if twin:
            items.append(f'<si><t xml:space="preserve">{_esc(rich)}</t></si>')
    parts["xl/sharedStrings.xml"] = (f'<?xml version="1.0" encoding="UTF-8" standalone="yes"?><sst xmlns="{NS_MAIN}" count="{len(items)}" uniqueCount="{len(items)}">'
                                     + "".join(items) + '</sst>')
    for i, sh in enumerate(sheets):
        rows = {r["r"]: r for r in sh["rows"]}
        out = [f'<?xml version="1.0" encoding="UTF-8" standalone="yes"?><worksheet xmlns="{NS_MAIN}" xmlns:r="{NS_REL}">']
        if code_name:
            out.append(f'<sheetPr codeName="{_esc(code_name)}"/>')
        out.append('<sheetData>')
        for rn in sorted(rows):
            r = rows[rn]
            attrs = f' r="{rn}"'
            if r["ht"] != "0":
                attrs += f' ht="{r["ht"]}" customHeight="1"'
            if r["xf"] >= 0:
                attrs += f' s="{r["xf"]}" customFormat="1"'
            out.append(f'<row{attrs}>')
            for c in sorted((c for c in sh["cells"] if c["r"] == rn), key=lambda c: c["c"]):
                a = f' r="{_col(c["c"])}{rn}"'
                if c["xf"] >= 0:
                    a += f' s="{c["xf"]}"'
                if c["t"] == "s":
                    out.append(f'<c{a} t="s"><v>{c["v"] - 1}</v></c>')
                elif c["t"] == "n":
                    out.append(f'<c{a}><v>{c["v"]}</v></c>')
                else:
                    out.append(f'<c{a}/>')
            if rn <= shared_rows:
                out.append(f'<c r="C{rn}"><f t="shared" ref="C1:C{shared_rows}" si="0">A1+1</f><v>{rn}</v></c>' if rn == 1 else
                           f'<c r="C{rn}"><f t="shared" si="0"/><v>{rn}</v></c>')
            out.append('</row>')
        if rich and i == 0:
            row5 = [f'<c r="D5" t="s"><v>{len(sst)}</v></c>']
            if twin == "before":
                row5.insert(0, f'<c r="C5" t="s"><v>{len(sst) + 1}</v></c>')
            elif twin == "after":
                row5.append(f'<c r="E5" t="s"><v>{len(sst) + 1}</v></c>')
            out.append('<row r="5">' + "".join(row5) + '</row>')
        out.append('</sheetData></worksheet>')
        parts[f"xl/worksheets/sheet{i + 1}.xml"] = "".join(out)
    buf = io.BytesIO()
    with zipfile.ZipFile(buf, "w", zipfile.ZIP_DEFLATED) as z:
        for name, text in parts.items():
            z.writestr(zipfile.ZipInfo(name, date_time=(2020, 1, 1, 0, 0, 0)), text.encode("utf-8"))
    return buf.getvalue()


def from_tlc(replay, rng):
    """a behaviour of MC_Resave (Open file, optional Edit) -> driver case"""
    f = replay[0]["file"]
    texts = {"a": rng.choice(["a", "plain", " padded "]), "a&b": rng.choice(["a&b", "x<y>&\"z\"", "&amp;", "\u00e9&\U0001F600"]),
             "unused": "unused & lost"}
    rich = rng.choice(["", "Total 2024", "a&b <rich> \u00e9"])
    twin = rng.choice(["", "before", "after"]) if rich else ""
    data = build_xlsx(f, text_map=texts, rich=rich, twin=twin)
    edits = []
    for st in replay[1:]:
        if st["a"] == "Edit":
            edits.append({"si": st["s"] - 1, "mode": "at", "pick": 0, "r": st["r"], "c": st["c"],
                          "k": st["k"], "v": st["v"], "b": bits(float(st["v"])) if st["k"] == "num" else ""})
    if rich and not twin:
        edits.append(rng.choice(echo_edits(rng, 1)))
    return {"src": {"kind": "hex", "hex": data.hex(), "name": "tlc-model-file"}, "gens": 3, "light": rng.random() < 0.3,
            "edit": edits, "family": "tlc"}


# ---------------------------------------------------------------------------------------------------------------------
# generated workbooks (public API), XML-special and non-ASCII text in every text channel
# ---------------------------------------------------------------------------------------------------------------------
# an entity-looking text that loses one level per generation under a reader that unescapes once too often (and
# gains one under a reader that does not unescape): three levels, because the original of a generated workbook
# has itself been through one save + load
DEEP = "&amp;amp;amp;lt;"
TEXTS = [DEEP, "x " + DEEP + " y", "123", "1e5", "TRUE", "a&b", "<tag>", "x>y", "q\"uote", "it's", "&amp;", "&lt;b&gt;", "&amp;amp;", "\u00e9 \u00fc \u65e5\u672c", "\U0001F600 & co",
         "a&b<c>d\"e'f", "1 < 2 && 3 > 2", "semi;colon&", "&#38;", "plain", " padded & ", "tab\t&", "line1\nline2 <x>", "]]>", "%26"]
SHEET_NAMES = [DEEP, "Data & Co", "a<b>", "q\"uote", "O'Brien", "\u00dcbersicht", "\u8868 & \u56f3", "R\u00e9sum\u00e9 <1>", "Sheet 2", "x!y", "&amp;",
               "tab>", "\U0001F600 sheet", "S1", "semi;&lt;"]
FONT_NAMES = [DEEP + " Font", "Marks & Co", "Fo<nt>", "F\u00f6n't \"q\"", "&amp; Sans", "Arial", "\uff2d\uff33 \uff30\u30b4\u30b7\u30c3\u30af"]
NUMFMTS = ["\"" + DEEP + "\"0.0", "\"a&b\"0.0", "0.00\" <kg>\"", "[$\u20ac-407]#,##0.00", "\"it's\"@", "0.0%", "#,##0;[Red]\\-#,##0", "\"&amp;\"0", "yyyy\\-mm\\-dd"]
URLS = ["http://h.example/{n}?" + DEEP, "http://h.example/p?a={n}&b=2", "https://\u00fcml.example/{n}/\u00e9", "mailto:x{n}@example.org?subject=a<b>&body=\"q\"",
        "file:///C:/dir/it's{n}.xlsx", "http://h.example/{n}#frag&x", "http://h.example/&amp;{n}"]
AUTHORS = [DEEP, "Ann", "Bob & Co", "<anon>", "\u00c5sa", "O'Neil", "\u8457\u8005", "q\"t"]
HEADERS = ["&L" + DEEP + " {n}", "&CPage &P of &N", "&L<left> & \"q\"", "&R\u00dcber {n}", " padded {n} ", "&C&amp; {n}", "&Lit's {n}"]
NAMES = [DEEP, "Name", "N\u00e4me", "_x", "\u540d\u524d", "Rng.A", "A&B", "lt<gt>"]
PROPS = ["title", "creator", "lastModifiedBy", "subject", "description", "keywords", "category", "manager", "company"]
FORMULAS = ["A1&\"<&>\"", "IF(A1<B1,\"<\",\">\")", "\"a&b\"&\"it's\"", "SUM(A1:B2)", "A1<>B1", "\"\u00e9&\U0001F600\"", "1+2"]
COLS = ["A", "B", "C", "D", "E", "F", "G", "Z", "AA"]


def quote_sheet(n):
    return "'" + n.replace("'", "''") + "'"


def rand_style(rng):
    sp = {}
    if rng.random() < 0.6:
        sp["font"] = {"name": rng.choice(FONT_NAMES), "size": rng.choice(["9", "10.5", "11", "14"]), "bold": rng.random() < 0.4,
                      "italic": rng.random() < 0.2, "color": rng.choice(["", "FFFF0000", "FF00B050"])}
    if rng.random() < 0.5:
        sp["numfmt"] = rng.choice(NUMFMTS)
    if rng.random() < 0.3:
        sp["fill"] = rng.choice(["FFFFFF00", "FF123456"])
    if rng.random() < 0.2:
        sp["halign"] = rng.choice(["center", "right"])
    if rng.random() < 0.2:
        sp["border"] = rng.choice(["thin", "double"])
    return sp


def rand_wb(rng, size):
    """a workbook description for the driver's `build`"""
    ns = rng.randint(1, 3)
    names = rng.sample(SHEET_NAMES, ns)
    n = [0]

    def fmt(t):
        n[0] += 1
        return t.replace("{n}", str(n[0]))

    def text():
        return fmt(rng.choice(TEXTS) + (" {n}" if rng.random() < 0.5 else ""))

    sheets = []
    for si in range(ns):
        cells, used = [], set()
        for _ in range(rng.randint(1, size)):
            r, c = rng.randint(1, 30), rng.randint(1, 9)
            if (r, c) in used:
                continue
            used.add((r, c))
            k = rng.choice(["text", "text", "text", "num", "bool", "err", "rich", "blank"])
            cell = {"r": r, "c": c, "k": k, "v": "", "b": "", "f": ""}
            if k == "text":
                cell["v"] = text()
            elif k == "num":
                cell["b"] = bits(rng.choice([0.0, 1.5, -2.25, 1e300, 123456789.125, 0.1 + 0.2, 42.0]))
            elif k == "bool":
                cell["v"] = rng.choice(["TRUE", "FALSE"])
            elif k == "err":
                cell["v"] = rng.choice(["#N/A", "#DIV/0!", "#REF!"])
            elif k == "rich":
                cell["runs"] = [[text(), True], [" & <tail> " + text(), False]]
            if k in ("text", "num") and rng.random() < 0.25:
                cell["f"] = rng.choice(FORMULAS)
            if k == "blank" or rng.random() < 0.5:
                cell["sty"] = rand_style(rng)
                if k == "blank" and not cell["sty"]:
                    cell["sty"] = {"fill": "FFFFFF00"}
            cells.append(cell)
        sh = {"name": names[si], "cells": cells, "rows": [], "cols": [], "merges": [], "links": [], "comments": [], "dvs": [],
              "cfs": [], "tables": []}
        if rng.random() < 0.2:
            sh["state"] = "hidden" if si > 0 else ""
        for r in rng.sample(range(1, 40), rng.randint(0, 3)):
            row = {"r": r, "ht": rng.choice(["", "20.25", "33"]), "hid": rng.random() < 0.2}
            if rng.random() < 0.4:
                row["sty"] = rand_style(rng)
            sh["rows"].append(row)
        for c in rng.sample(range(1, 14), rng.randint(0, 3)):
            col = {"c": c, "w": rng.choice(["", "12.5", "30"]), "hid": rng.random() < 0.2}
            if rng.random() < 0.4:
                col["sty"] = rand_style(rng)
            sh["cols"].append(col)
        for k in range(rng.randint(0, 2)):
            sh["merges"].append(f"K{2 * k + 1}:M{2 * k + 2}")
        lcells = set()
        for k in range(rng.randint(0, min(size, 4))):
            cell = f"{rng.choice(COLS)}{rng.randint(31, 60)}"
            if cell in lcells:
                continue
            lcells.add(cell)
            if rng.random() < 0.3:
                sh["links"].append({"cell": cell, "url": f"{quote_sheet(rng.choice(names))}!A{k + 1}", "loc": True, "tip": text()})
            else:
                sh["links"].append({"cell": cell, "url": fmt(rng.choice(URLS)), "loc": False, "tip": rng.choice(["", text()])})
        ccells = set()
        for k in range(rng.randint(0, 3)):
            rc = (rng.randint(1, 50), rng.randint(1, 12))
            if rc in ccells:
                continue
            ccells.add(rc)
            sh["comments"].append({"r": rc[0], "c": rc[1], "author": rng.choice(AUTHORS), "text": text()})
        for k in range(rng.randint(0, 2)):
            sh["dvs"].append({"sqref": f"P{k + 1}:Q{k + 2}", "type": "list", "op": "between", "blank": True, "showin": True, "showerr": True,
                              "ptitle": text()[:30], "prompt": text(), "etitle": text()[:30], "emsg": text(),
                              "f1": rng.choice(["\"a,b,c\"", "\"x&y,<z>\""]), "f2": ""})
        for k in range(rng.randint(0, 2)):
            sh["cfs"].append({"sqref": f"U{k + 1}:V{k + 4}", "rules": [
                {"type": "cellIs", "op": "greaterThan", "prio": k + 1, "hasf": True, "f": rng.choice(["5", "\"a&b\"", "$A$1<>\"<\""]),
                 "sty": {"font": {"name": "", "size": "", "bold": True, "italic": False, "color": "FFFF0000"}}}]})
        if rng.random() < 0.3:
            sh["af"] = f"A1:{rng.choice(COLS)}{rng.randint(2, 30)}"
        if rng.random() < 0.3:
            sh["tab"] = rng.choice(["FFFF0000", "FF123456"])
        if rng.random() < 0.5:
            sh["hf"] = {"h": fmt(rng.choice(HEADERS)), "f": fmt(rng.choice(HEADERS))}
        if rng.random() < 0.4:
            k = rng.randint(2, 4)
            sh["tables"].append({"name": f"Table{si + 1}", "display": rng.choice(["", f"Disp{si + 1}"]),
                                 "area": f"A70:{COLS[k - 1]}75", "cols": [text() + f" c{j}" for j in range(k)],
                                 "style": rng.choice(["", "TableStyleMedium2"])})
        if rng.random() < 0.3:
            sh["ps"] = {"paper": rng.choice([1, 9]), "orient": rng.choice(["landscape", "portrait"]), "scale": rng.randint(50, 150)}
        sheets.append(sh)
    wb = {"sheets": sheets, "names": [], "props": {}, "active": rng.randint(0, ns - 1)}
    for k in range(rng.randint(0, 3)):
        ref = rng.choice(names)
        safe = not (ref[0] in "'\"" or ref[-1] in "'\"")
        addr = f"{quote_sheet(ref)}!$A${k + 1}:$B${k + 5}" if safe else rng.choice(["42", "\"x&y\""])
        wb["names"].append({"name": rng.choice(NAMES) + str(k), "addr": addr, "home": rng.randint(0, ns),
                            "local": -1, "hidden": rng.random() < 0.2})
    for p in rng.sample(PROPS, rng.randint(0, len(PROPS))):
        wb["props"][p] = text()
    if rng.random() < 0.4:
        wb["props"]["custom"] = [{"name": "key & <" + str(k) + ">", "value": text()} for k in range(rng.randint(1, 2))]
    return wb


def rand_edit(rng, ncells_hint=50):
    k = rng.choice(["text", "text", "num", "bool", "formula"])
    ed = {"si": rng.randint(0, 6), "mode": rng.choice(["existing", "existing", "at"]), "pick": rng.randint(0, 10 ** 6),
          "r": rng.choice([1, 2, 7, 100, rng.randint(1, 200)]), "c": rng.choice([1, 2, 5, 30, rng.randint(1, 40)]),
          "k": k, "v": "", "b": ""}
    if k == "text":
        ed["v"] = rng.choice(TEXTS)
    elif k == "num":
        ed["b"] = bits(rng.choice([7.0, -0.5, 1e21, 3.141592653589793]))
    elif k == "bool":
        ed["v"] = rng.choice(["TRUE", "FALSE"])
    else:
        ed["v"] = rng.choice(["A1+1", "\"a&b\"&\"<\"", "SUM(A1:A3)"])
    return ed


CLASSES = ["text", "num", "bool", "err", "rich", "blank", "formula", "master", "child", "link"]


def class_edits(rng, nsheets=8):
    """one edit per cell class (the driver picks a cell of that class on the chosen sheet, if there is one)"""
    out = []
    for cl in CLASSES:
        ed = rand_edit(rng)
        ed.update({"mode": "class", "class": cl, "si": rng.randint(0, nsheets - 1)})
        out.append(ed)
    return out


ECHOES = [(e, w) for e in ("plain-of-rich", "rich-of-plain", "rich-of-rich") for w in ("before", "after")]


def echo_edits(rng, nsheets=8):
    """edits that repeat the characters of an existing string cell in another kind (plain <-> rich text) or in other
    runs, right before / behind that cell: nothing but the edited cell may change - not its kind, not its runs"""
    out = []
    for e, w in ECHOES:
        ed = rand_edit(rng)
        ed.update({"mode": "echo", "echo": e, "where": w, "si": rng.randint(0, nsheets - 1), "k": "text"})
        out.append(ed)
    return out


def channel_fixture():
    """One workbook with an XML-special text in every text channel of MC_Channels (always part of the run)."""
    t = "a&b<c>d\"e'f " + DEEP
    sty = {"font": {"name": DEEP + " & <Co> \"q\" it's", "size": "10", "bold": False, "italic": False, "color": ""}, "numfmt": "\"a&b<c>'" + DEEP + "\"0.0"}
    sn = "a&b<c>\"e'f " + DEEP
    sh = {"name": sn, "cells": [{"r": 1, "c": 1, "k": "text", "v": t, "b": "", "f": "", "sty": sty},
                                           {"r": 2, "c": 1, "k": "num", "v": "", "b": bits(2.5), "f": "A1&\"<&>'\"&\"\"\"\""},
                                           {"r": 3, "c": 1, "k": "rich", "v": "", "b": "", "f": "", "runs": [[t, True], ["&amp;", False]]}],
          "rows": [{"r": 1, "ht": "20", "hid": False, "sty": sty}], "cols": [{"c": 1, "w": "20", "hid": False, "sty": sty}],
          "merges": ["K1:L2"],
          "links": [{"cell": "B5", "url": "http://h.example/?a=1&b=<2>\"'" + DEEP, "loc": False, "tip": t},
                    {"cell": "B6", "url": quote_sheet(sn) + "!A1", "loc": True, "tip": ""}],
          "comments": [{"r": 4, "c": 2, "author": "A&B <C> \"q\" it's " + DEEP, "text": t}],
          "dvs": [{"sqref": "P1:P3", "type": "list", "op": "between", "blank": True, "showin": True, "showerr": True,
                   "ptitle": "t&<\"'>" + DEEP, "prompt": t, "etitle": "e&<\"'>" + DEEP, "emsg": t, "f1": "\"x&y,<z>\"", "f2": ""}],
          "cfs": [], "hf": {"h": "&L" + t, "f": "&C" + DEEP + " <f> \"q\" it's"},
          "tables": [{"name": "Table1", "display": "Disp1", "area": "A70:B73", "cols": [t, "c&d<e>\"f'" + DEEP], "style": ""}]}
    wb = {"sheets": [sh], "names": [{"name": "N&<\"'>" + DEEP, "addr": quote_sheet(sn) + "!$A$1", "home": 0, "local": -1, "hidden": False}],
          "props": {p: t + " " + p for p in PROPS}, "active": 0}
    wb["props"]["custom"] = [{"name": "k&<\"'>" + DEEP, "value": t}]
    return wb


CHANNELS = ["sheet_name", "defined_name", "hyperlink_target", "hyperlink_location", "table_name", "table_column", "numfmt_code",
            "font_name", "dv_prompt", "custom_property_name", "cell_text", "formula_text", "comment_author", "comment_text",
            "header_footer", "doc_property", "defined_name_address"]


def channel_texts(obs, sty):
    """texts observed per channel in one projection (measurement for the evidence file / vacuity guard)"""
    out = {c: set() for c in CHANNELS}
    for st in sty.values():
        try:
            j = json.loads(st)
            out["font_name"].add(j["font"]["name"])
            out["numfmt_code"].add(j["numFmt"])
        except Exception:
            pass
    for nm in obs.get("names", []):
        out["defined_name"].add(nm["name"])
        out["defined_name_address"].add(nm["addr"])
    pr = obs.get("props", {})
    for k, v in pr.items():
        if isinstance(v, str):
            out["doc_property"].add(v)
    for c in pr.get("custom", []) if isinstance(pr.get("custom"), list) else []:
        out["custom_property_name"].add(c["name"])
        out["doc_property"].add(c["value"])
    for sh in obs.get("sheets", []):
        out["sheet_name"].add(sh["name"])
        for c in sh["cells"]:
            if c["k"] in ("text", "rich"):
                out["cell_text"].add(c["v"])
            if c["f"]:
                out["formula_text"].add(c["f"])
        for l in sh["links"]:
            out["hyperlink_location" if l["loc"] else "hyperlink_target"].add(l["url"])
        for c in sh["comments"]:
            out["comment_author"].add(c["author"])
            out["comment_text"].add(c["text"])
        for d in sh["dvs"]:
            for k in ("ptitle", "prompt", "etitle", "emsg"):
                out["dv_prompt"].add(d[k])
        out["header_footer"].add(sh["hf"]["h"])
        out["header_footer"].add(sh["hf"]["f"])
        for nm in sh["names"]:
            out["defined_name"].add(nm["name"])
            out["defined_name_address"].add(nm["addr"])
        for t in sh["tables"]:
            out["table_name"].add(t["name"])
            out["table_name"].add(t["display"])
            for c in t["cols"]:
                out["table_column"].add(c["name"])
    return out


# ---------------------------------------------------------------------------------------------------------------------
# cases
# ---------------------------------------------------------------------------------------------------------------------
def corpus_files(thorough):
    d = os.path.join(vlib.REPO, "tests", "test_files")
    out = []
    for f in sorted(glob.glob(os.path.join(d, "*.xlsx")) + glob.glob(os.path.join(d, "*.xlsm"))):
        name = os.path.basename(f)
        if os.path.getsize(f) == 0:
            continue                      # aaa_large_string.xlsx is an empty file in the tree as given
        if name in BIG_CORPUS and not thorough:
            continue
        out.append((name, f))
    return out


def kf_exemplars():
    """files built here that always exercise the open findings which do not depend on the corpus: a sheet with a code
    name in a workbook without macros (C04-KF2), an edit of the master cell of a shared formula (C04-KF4)"""
    f = {"x0": "X0", "xfs": ["X0", "S1"], "sst": ["a", "a&b"], "extra": [], "rid": "o",
         "sheets": [{"cells": [{"r": 1, "c": 1, "t": "s", "v": 2, "f": "", "xf": 2}, {"r": 2, "c": 1, "t": "", "v": "", "f": "", "xf": 1}],
                     "rows": [{"r": 1, "ht": "0", "xf": -1}, {"r": 2, "ht": "0", "xf": -1}, {"r": 3, "ht": "0", "xf": -1}]}]}
    return [{"src": {"kind": "hex", "hex": build_xlsx(f, code_name="Code & <Name>", shared_rows=3).hex(), "name": "kf2-kf4-built-file"},
             "gens": 3, "light": False,
             "edit": [{"si": 0, "mode": "at", "pick": 0, "r": 1, "c": 1, "k": "text", "v": "edited & <ok>", "b": ""},
                      {"si": 0, "mode": "at", "pick": 0, "r": 1, "c": 3, "k": "num", "v": "", "b": bits(42.0)},     # the master
                      {"si": 0, "mode": "at", "pick": 0, "r": 2, "c": 3, "k": "text", "v": "a child: harmless", "b": ""}],
             "family": "kf"}]


def gen_cases(chk):
    rng = chk.rng
    quick = chk.tier == "quick"
    cases = kf_exemplars()
    cases.append({"src": {"kind": "gen", "wb": channel_fixture()}, "gens": 3, "light": False,
                  "edit": [{"si": 0, "mode": "existing", "pick": 0, "r": 1, "c": 1, "k": "text", "v": "new & <text>", "b": ""}],
                  "family": "channels"})
    cases.append({"src": {"kind": "gen", "wb": channel_fixture()}, "gens": 3, "light": True, "edit": [rand_edit(rng)], "family": "channels"})
    cases.append({"src": {"kind": "gen", "wb": channel_fixture()}, "gens": 2, "light": False, "edit": echo_edits(rng, 1), "family": "channels"})
    twins = {"x0": "X0", "xfs": ["X0", "S1"], "sst": ["a", "a&b"], "extra": [], "rid": "o",
             "sheets": [{"cells": [{"r": 1, "c": 1, "t": "s", "v": 1, "f": "", "xf": -1}], "rows": [{"r": 1, "ht": "0", "xf": -1}]}]}
    for tw in ("before", "after", ""):
        cases.append({"src": {"kind": "hex", "hex": build_xlsx(twins, rich="Total 2024", twin=tw).hex(), "name": "rich-twin-" + (tw or "none")},
                      "gens": 2, "light": False, "edit": echo_edits(rng, 1) if not tw else [rand_edit(rng)], "family": "twins"})
    ncor = 0
    big = []
    for name, path in corpus_files(not quick):
        ncor += 1
        if name in BIG_CORPUS:
            big.append({"src": {"kind": "corpus", "path": path, "name": name}, "gens": 2, "light": False,
                        "edit": [rand_edit(rng)], "family": "corpus-big"})
            continue
        if quick:
            groups = [[rand_edit(rng), rng.choice(echo_edits(rng))]]
        else:
            ce = class_edits(rng) + class_edits(rng, 1) + echo_edits(rng) + echo_edits(rng, 1)
            groups = [[rand_edit(rng) for _ in range(4)]] + [ce[i:i + 5] for i in range(0, len(ce), 5)]
        if name == "aaa.xlsx":       # W6 of the second sheet is the master of a shared formula (W6:W14): C04-KF4
            groups[0].append({"si": 1, "mode": "at", "pick": 0, "r": 6, "c": 23, "k": "text", "v": "over the master", "b": ""})
        for edits in groups:
            cases.append({"src": {"kind": "corpus", "path": path, "name": name}, "gens": 3, "light": False,
                          "edit": edits, "family": "corpus"})
        if not quick:
            cases.append({"src": {"kind": "corpus", "path": path, "name": name}, "gens": 3, "light": True,
                          "edit": [rand_edit(rng)], "family": "corpus"})
    r = vlib.run_tlc("MC_Resave", "MC_Resave_replay.cfg", workers=4, coverage=False, timeout=1800)
    if not r.ok or not r.replays:
        raise vlib.ToolError("replay generation failed: " + (r.violation or r.out[-500:]))
    seen, reps = set(), []
    for rp in r.replays:
        key = json.dumps(rp, sort_keys=True)
        if key not in seen:
            seen.add(key)
            reps.append(rp)
    total = len(reps)
    if quick and len(reps) > 600:
        reps = rng.sample(reps, 600)
    ntlc = len(reps)
    cases += [from_tlc(rp, rng) for rp in reps]
    ngen = 250 if quick else 2500
    for k in range(ngen):
        cases.append({"src": {"kind": "gen", "wb": rand_wb(rng, rng.choice([3, 8, 20, 40]))}, "gens": 3, "light": rng.random() < 0.3,
                      "edit": [rand_edit(rng), rng.choice(echo_edits(rng, 3))] if quick
                      else [rand_edit(rng)] + rng.sample(class_edits(rng, 3), 2) + rng.sample(echo_edits(rng, 3), 2),
                      "family": "generated"})
    chk.extra["cases"] = {"corpus_files": ncor, "of_which_large": len(big), "tlc_model_files": ntlc, "of_all_tlc_behaviours": total, "generated_workbooks": ngen,
                          "fixtures": 7}
    for i, c in enumerate(cases + big):
        c["case"] = i
    return cases, big


# ---------------------------------------------------------------------------------------------------------------------
# projection of the bytes, validation
# ---------------------------------------------------------------------------------------------------------------------
def project(events, side):
    """Replace the bytes of every event by the independent decoder's view; move the style tables (diagnostics only)
    out of the events TLC reads."""
    def one(evs):
        for e in evs:
            if "hex" in e:
                hx = e.pop("hex")
                try:
                    e["file"] = resave_view.view(bytes.fromhex(hx)) if hx else resave_view.empty()
                except Exception as ex:                      # unreadable package: data, not a tool error
                    e["file"] = resave_view.empty()
                    e["decoder_error"] = str(ex)[:200]
            if "sty" in e:
                for x in e.pop("sty"):
                    side.setdefault(e.get("case"), {})[x["h"]] = x["j"]
        return evs
    with ThreadPoolExecutor(max_workers=4) as ex:
        return list(ex.map(one, events))


def describe_factory(side):
    def describe(case, ev, detail):
        src = case["src"]
        label = src.get("name") or src["kind"]
        extra = ""
        sty = side.get(case.get("case"), {})
        hs = [h for h in re.findall(r'"([0-9a-f]{16})"', detail) if h in sty][:2]
        if len(hs) == 2 and hs[0] != hs[1]:
            try:
                a, b = json.loads(sty[hs[0]]), json.loads(sty[hs[1]])
                extra = " styles differ in: " + json.dumps({k: [a[k], b[k]] for k in a if a[k] != b.get(k)})[:400]
            except Exception:
                pass
        head = {k: v for k, v in (ev or {}).items() if k not in ("obs", "file", "cell")}
        return f"{label} ({case.get('family')}): {json.dumps(head)}: {detail[:900]}{extra}"
    return describe


def judge(chk, cases, tag="c04"):
    t0 = time.time()
    raw = vlib.run_cases("resave", cases, timeout=900, jobs=6)
    for ci, evs in enumerate(raw):
        if evs and evs[0].get("a") == "Fatal" and evs[0].get("outcome") == "timeout":
            # (a hang is not what this property is about, and a slow machine must never become a verdict)
            raise vlib.ToolError(f"driver timed out on case {ci} ({cases[ci]['src'].get('name') or cases[ci]['src']['kind']})")
    side = {}
    events = project(raw, side)
    t1 = time.time()
    out = vlib.validate("Trace_Resave", "Trace_Resave.cfg", events, chk.open_ids, tag, chunk_events=400, jobs=4, timeout=7200)
    first = {}
    for ci, off, detail in out["mismatch"]:
        if ci not in first or off < first[ci][0]:
            first[ci] = (off, detail)
    for ci, (off, detail) in first.items():
        if detail.startswith('<<"gen"'):
            raise vlib.ToolError(f"generator / protocol out of line (case {ci}, event {off}): {detail[:600]}")
    chk.process_validation(out, cases, events, "resave", describe_factory(side))
    vlib.log(f"[c04] {tag}: {len(cases)} cases driven + projected in {t1 - t0:.1f}s, {out['events']} events validated in "
             f"{time.time() - t1:.1f}s, {len(out['kf'])} known-finding hits, {len(first)} rejected")
    return events, side


def judge_big(chk, case):
    """One large corpus file: driven, projected and validated on its own (one TLC instance with a 12 GB heap); only
    a summary of its events is kept."""
    t0 = time.time()
    raw = vlib.run_cases("resave", [case], timeout=3000, jobs=1)
    if raw[0] and raw[0][0].get("a") == "Fatal" and raw[0][0].get("outcome") == "timeout":
        raise vlib.ToolError(f"driver timed out on {case['src']['name']}")
    side = {}
    events = project(raw, side)
    path = os.path.join(vlib.WORK, f"trace-c04big-{os.getpid()}.ndjson")
    vlib.write_ndjson(path, events[0])
    try:
        v = vlib.validate_file("Trace_Resave", "Trace_Resave.cfg", path, chk.open_ids, timeout=7200, heap="12g")
    finally:
        if os.path.exists(path):
            os.remove(path)
    out = {"mismatch": [(0, l - 1, d) for l, d in v.mismatches], "kf": [(fid, 0, l - 1) for fid, l in v.kf],
           "events": len(events[0]), "states": v.states, "chunks": 1}
    for _ci, off, detail in out["mismatch"]:
        if detail.startswith('<<"gen"'):
            raise vlib.ToolError(f"generator / protocol out of line ({case['src']['name']}, event {off}): {detail[:600]}")
    ncells = [sum(len(sh["cells"]) for sh in e["obs"]["sheets"]) for e in events[0] if "obs" in e]
    slim = [[{k: x for k, x in e.items() if k not in ("obs", "file")} for e in events[0]]]
    chk.process_validation(out, [case], slim, "resave", describe_factory(side))
    vlib.log(f"[c04] {case['src']['name']}: {len(slim[0])} events, {max(ncells) if ncells else 0} cells per generation, "
             f"{len(out['mismatch'])} mismatches, {time.time() - t0:.1f}s")
    return len(slim[0]) >= 4


def taken(r, action):
    return sum(int(b) for _a, b in re.findall(r"^<%s line [^>]*>: (\d+):(\d+)" % action, r.out, re.M))


def expect_refuted(chk, module, cfg, invariant, what):
    r = vlib.run_tlc(module, cfg, workers=4, coverage=False)
    if r.violation is None or invariant not in r.violation:
        raise vlib.ToolError(f"TLC did not refute {invariant} for {what}: the property would be vacuous ({r.violation})")
    chk.extra.setdefault("deviant_designs_refuted", []).append(f"{cfg}: {r.violation} ({r.generated} states generated)")


def run(chk):
    quick = chk.tier == "quick"
    r = vlib.tlc_mc("MC_Resave", "MC_Resave.cfg" if quick else "MC_Resave_thorough.cfg", workers=4, check=chk, timeout=7200, heap="8g")
    if r is not None and (taken(r, "MCEdit") == 0 or taken(r, "MCResave") == 0):
        raise vlib.ToolError("vacuous model checking run: MCEdit / MCResave never taken")
    r = vlib.tlc_mc("MC_Channels", "MC_Channels.cfg", workers=4, check=chk)
    if r is not None and taken(r, "SaveLoad") == 0:
        raise vlib.ToolError("vacuous model checking run: SaveLoad of Channels never taken")
    if not os.environ.get("VERIF_DEBUG_SKIP_MC"):
        expect_refuted(chk, "MC_Resave", "MC_Resave_deviant.cfg", "OrigSim", "the writer that drops styled blank cells")
        expect_refuted(chk, "MC_Channels", "MC_Channels_deviant.cfg", "DriftFree",
                       "the configuration 'write Esc, read Id' of the tree before commit 5eeb38a")
        expect_refuted(chk, "MC_Channels", "MC_Channels_rawwriter.cfg", "WrittenSafe", "a writer that does not escape")
    cases, big = gen_cases(chk)
    events, side = judge(chk, cases)
    bigok = [c["src"]["name"] for c in big if judge_big(chk, c)]
    # measurement: which text channels were exercised with XML-special characters (vacuity guard)
    seen = {c: set() for c in CHANNELS}
    for ci, evs in enumerate(events):
        if cases[ci]["src"]["kind"] != "gen" or not evs or evs[0].get("outcome") != "ok":
            continue
        for ch, ts in channel_texts(evs[0]["obs"], side.get(cases[ci]["case"], {})).items():
            seen[ch] |= {t for t in ts if SPECIAL & set(t)}
    # (table names are identifiers in Excel: no special characters to put there; tooltips are not read by the library)
    missing = [c for c in CHANNELS if not seen[c] and c != "table_name"]
    if missing:
        raise vlib.ToolError("text channels never exercised with an XML-special character: " + ", ".join(missing))
    chk.extra["channels_exercised_distinct_special_texts"] = {c: len(v) for c, v in seen.items()}
    # measurement: the echo edits that found a string cell to repeat (vacuity guard: every variant at least once)
    applied = {f"{e}/{w}": 0 for e, w in ECHOES}
    for ci, evs in enumerate(events):
        eds = [e for e in evs if e.get("a") == "Edit"]
        for spec, ev in zip(cases[ci]["edit"], eds):
            if spec.get("mode") == "echo" and ev.get("echoed"):
                applied[f"{spec['echo']}/{spec['where']}"] += 1
    if not all(applied.values()):
        raise vlib.ToolError("echo edits never applied: " + ", ".join(k for k, v in applied.items() if not v))
    chk.extra["echo_edits_applied"] = applied
    chk.extra["corpus_files_the_library_rejects"] = sorted(
        cases[ci]["src"]["name"] for ci, evs in enumerate(events)
        if cases[ci]["family"] == "corpus" and evs and evs[0].get("outcome") == "unreadable")
    chk.evaluations = len(cases) + len(big)
    keys = set()
    for ci, c in enumerate(cases):
        if len(events[ci]) >= 4:                     # at least Load + two generations recorded
            src = c["src"]
            keys.add(hashlib.sha1(json.dumps([src.get("name"), src.get("wb"), src.get("hex", ""), c["edit"], c["light"]],
                                                 sort_keys=True).encode()).hexdigest())
    keys.update(n + " (large)" for n in bigok)
    chk.nontrivial = keys
    chk.rule = ("a case is one original file (corpus file / workbook generated through the public API with XML-special and "
                "non-ASCII text in every text channel / foreign file built from a TLC behaviour of MC_Resave) driven through load, "
                "3 x (save, load), a second save of the unchanged workbook, and for each single-cell edit again 3 x (save, load); "
                "distinct = different (file, edits, writer); non-trivial = the library could read the file and at least two "
                "generations were recorded")
    g = [i for i, c in enumerate(cases) if c["family"] == "generated"]
    if g:
        e = events[g[0]]
        chk.sample({"family": "generated", "workbook": cases[g[0]]["src"]["wb"]["sheets"][0]["name"],
                    "events": [{k: v for k, v in x.items() if k not in ("obs", "file")} for x in e][:9],
                    "gen1_sheet1_cells": e[1]["obs"]["sheets"][0]["cells"][:3] if len(e) > 1 and e[1]["obs"]["sheets"] else []})
    t = [i for i, c in enumerate(cases) if c["family"] == "tlc"]
    if t:
        chk.sample({"family": "tlc", "edit": cases[t[0]]["edit"],
                    "events": [{k: v for k, v in x.items() if k not in ("obs", "file")} for x in events[t[0]]][:9]})
    c0 = [i for i, c in enumerate(cases) if c["family"] == "corpus"]
    if c0:
        chk.sample({"family": "corpus", "file": cases[c0[0]]["src"]["name"],
                    "file_views": [{"a": x["a"], "nparts": x["file"]["nparts"], "nstr": x["file"]["nstr"]} for x in events[c0[0]] if "file" in x]})
    chk.assumptions += [
        "the projection covers cells (kind, value, number bits, formula, rich-text runs, style digest), row and column "
        "entries, merges, hyperlinks, comments, validations, conditional formats, auto filter, tab colour, views, page setup / "
        "margins / print options, header/footer, sheet format, protection, defined names, tables, images (name, anchor, data "
        "digest), chart anchors, counts of shapes / OLE objects / pivot tables, breaks, sheet state and code name, workbook "
        "names / protection / document and custom properties / active tab; what the library keeps only as raw parts is seen "
        "through the decoder's part list",
        "a style is compared through a 64-bit FNV-1a digest of its effective form (C05's form: absent font / fill / border read "
        "as the library default); the style that cell format 0 of a foreign file denotes is identified as the one digest of "
        "the original that no longer occurs after the first save (one uniform choice per workbook, Resave!OrigSimHolds)",
        "the string inventory is compared as a multiset, parts by name and content type; bytes of parts are not compared",
        "python3 zipfile / expat (pydec) are correct; edits are simple values (text, number, boolean, formula text without "
        "surrounding blanks), i.e. the classes C01 shows to survive a save"]


def replay(chk, path):
    with open(path) as f:
        rp = json.load(f)
    judge(chk, [rp["script"]], tag="c04replay")
