"""C19 - formatted values show the correctly rounded number.

Spec: spec/NumFmt.tla (decimal odometer state machine; RoundHalfAway / Group3 / Fmt on digit sequences, tied to
integer arithmetic by invariants), MC_NumFmt.cfg (quick) / MC_NumFmt_thorough.cfg.
Conformance: spec/Trace_NumFmt.tla judges every recorded call of the library (driver: harness/src/bin/numfmt.rs).
"""
import json
import struct
import vlib

KMAX = 6
B = 256          # items per event

# --------------------------------------------------------------------------------------------------
# patterns and numbers (generator-side renderings; Trace_NumFmt re-derives both texts: "gen" check)
# --------------------------------------------------------------------------------------------------
PATTERNS = ([(k, False, False) for k in range(KMAX + 1)] + [(k, True, False) for k in range(KMAX + 1)] +
            [(k, False, True) for k in range(KMAX + 1)])


def pat_text(k, th, pct):
    return ("#,##0" if th else "0") + ("." + "0" * k if k else "") + ("%" if pct else "")


def canon(neg, ip, fp):
    """canonical (shortest-form) decimal string or None if outside the property's quantifier"""
    ip = ip.lstrip("0") or "0"
    fp = fp.rstrip("0")
    if ip == "0":
        sig = fp.lstrip("0")
        if fp and (len(fp) - len(sig)) > 6:          # magnitude below 1e-7
            return None
        nsig = len(sig)
    else:
        nsig = len((ip + fp).rstrip("0")) if fp == "" else len(ip + fp)
        if len(ip) > 16 or (len(ip) == 16 and (ip != "1" + "0" * 15 or fp)):   # magnitude above 1e15
            return None
    if nsig > 15:
        return None
    if ip == "0" and not fp:
        neg = False                       # negative zero is only driven explicitly (General, built-in ids)
    return ("-" if neg else "") + ip + ("." + fp if fp else "")


def num_item(s, k, th, pct):
    neg = s.startswith("-")
    ip, _, fp = s.lstrip("-").partition(".")
    return {"neg": neg, "int": [int(c) for c in ip], "frac": [int(c) for c in fp], "s": s,
            "k": k, "th": th, "pct": pct, "fmt": pat_text(k, th, pct)}


BOUNDARY = ["0", "1", "-1", "5", "100", "1000", "0.5", "-0.5", "1.5", "2.5", "-2.5", "99.5", "999.5", "0.05",
            "0.005", "0.95", "0.995", "9.995", "1.005", "1.99", "9.99", "99.99", "0.999", "0.0049", "0.015", "0.285",
            "1.45", "0.145", "1234.5", "-1234.5", "1234567.891", "999999.5", "999.9995", "0.12345", "0.0000001",
            "0.00000015", "0.0000005", "0.00001234", "123456789012345", "999999999999999", "1000000000000000",
            "99999999999999.9", "0.07", "1.07", "12345678.9", "0.000001", "0.0000049", "0.9999995", "0.99999949",
            "-0.001", "-0.0004", "-999.999", "0.125", "0.375", "0.625", "2.675", "1.115", "8.345", "0.1", "0.2", "0.3",
            "0.7", "1.1", "0.57", "0.58", "1.15", "4.35", "0.045", "0.0045", "0.00045", "1.0000005", "0.1234565",
            "9.9999995", "99999.999995", "0.09", "0.099", "0.0999", "0.99", "0.9", "0.94", "0.949", "0.0000001234",
            "12.3456789", "-12.3456789"]


def gen_number(rng, kk):
    """a canonical decimal string built around the cut position kk (= decimals of the pattern, +2 for %)"""
    for _ in range(50):
        neg = rng.random() < 0.3
        m = rng.choice(["zero", "zero", "small", "nines", "rand", "big"])
        if m == "zero":
            ip = "0"
        elif m == "small":
            ip = str(rng.randint(1, 9999))
        elif m == "nines":
            ip = "9" * rng.randint(1, 9)
        elif m == "rand":
            ip = str(rng.randint(1, 9)) + "".join(rng.choice("0123456789") for _ in range(rng.randint(0, 8)))
        else:
            ip = str(rng.randint(1, 9)) + "".join(rng.choice("0123456789") for _ in range(rng.randint(9, 14)))
        budget = 15 - (0 if ip == "0" else len(ip))
        fm = rng.choice(["none", "short", "equal", "longer1", "longer1", "longer", "longer"])
        if fm == "none":
            L = 0
        elif fm == "short":
            L = rng.randint(1, kk - 1) if kk > 1 else 0
        elif fm == "equal":
            L = kk
        elif fm == "longer1":
            L = kk + 1
        else:
            L = kk + rng.randint(2, 6)
        if ip != "0":
            L = min(L, budget)
        L = max(L, 0)
        if L == 0:
            fp = ""
        else:
            st = rng.choice(["rand", "rand", "lead0", "nines", "ninetail", "half", "below", "above"])
            d = [rng.choice("0123456789") for _ in range(L)]
            if st == "lead0":
                for i in range(min(L - 1, rng.randint(1, 4))):
                    d[i] = "0"
            elif st == "nines":
                for i in range(min(kk, L)):
                    d[i] = "9"
            elif st == "ninetail":
                for i in range(rng.randint(0, max(0, min(kk, L) - 1)), min(kk, L)):
                    d[i] = "9"
            if L > kk:
                if st == "half":
                    d = d[:kk] + ["5"]
                elif st == "below":
                    d[kk] = "4"
                    for i in range(kk + 1, L):
                        d[i] = "9"
                elif st in ("above", "nines", "ninetail"):
                    d[kk] = rng.choice("56789")
            if d[-1] == "0":
                d[-1] = rng.choice("123456789")
            fp = "".join(d)
        s = canon(neg, ip, fp)
        if s is not None:
            return s
    return "1.5"


def gen_fmt_items(chk):
    rng = chk.rng
    items = []
    for s in BOUNDARY:
        for p in PATTERNS:
            items.append(num_item(s, *p))
    n = 6000 if chk.tier == "quick" else 100000
    for _ in range(n):
        p = rng.choice(PATTERNS)
        s = gen_number(rng, p[0] + (2 if p[2] else 0))
        items.append(num_item(s, *p))
        for q in rng.sample(PATTERNS, 2):
            items.append(num_item(s, *q))
    return items


# --------------------------------------------------------------------------------------------------
# General: numbers and text
# --------------------------------------------------------------------------------------------------
TEXTS = ["007", "1.50", "1e3", "+5", ".5", "5.", "00.10", "-0", "-0.0", "+0", "0", "12", "-3.25", "inf", "NaN", "nan",
         "infinity", "-inf", "1E400", "1e-400", "0.1e1", "12345678901234567890", "0.30000000000000004",
         " 1", "1 ", "0x10", "1,000", "1_0", "abc", "a;b", "TRUE", "#N/A", "", " ", "-", ".", "+", "e5", "1e", "--1",
         "1.2.3", "١٢", "５", "日本", "café", "\U0001F600", "General", "0.00", "@", "50%",
         "$5", "1/2", "2024-05-23", "12:30", "=1+1", "line1\nline2", "tab\there", "\"q\"", "'007", "<b>&amp;</b>"]
TEXT_ALPHABET = list("abzAZ019 _-.,;:+%$#@!'\"()/\\&<>eE") + ["é", "ß", "日", "Ж", "٣"]


def gen_general_items(chk):
    rng = chk.rng
    items = []
    for t in TEXTS:
        items.append({"kind": "text", "text": t, "chars": list(t)})
    nt = 1200 if chk.tier == "quick" else 10000
    for _ in range(nt):
        r = rng.random()
        if r < 0.45:       # arbitrary text
            t = "".join(rng.choice(TEXT_ALPHABET) for _ in range(rng.choice([1, 2, 3, 5, 8, 13, 21])))
        elif r < 0.8:      # decimal-looking text: sign, leading zeros, trailing zeros
            ip = "0" * rng.randint(0, 3) + (str(rng.randint(0, 99999)) if rng.random() < 0.8 else "")
            fp = ("." + "".join(rng.choice("0123456789") for _ in range(rng.randint(0, 5))) + "0" * rng.randint(0, 2)
                  if rng.random() < 0.6 else "")
            t = rng.choice(["", "", "-", "+"]) + ip + fp
        else:              # exponent forms and the like
            t = (rng.choice(["", "-", "+"]) + str(rng.randint(0, 999)) + rng.choice(["", ".", ".5", ".25"]) +
                 rng.choice(["e", "E"]) + rng.choice(["", "-", "+"]) + str(rng.randint(0, 12)))
        items.append({"kind": "text", "text": t, "chars": list(t)})
    nums = list(BOUNDARY) + ["-0", "100000000000000000000", "0.000000000001", "-123456789012345680000"]
    nn = 1200 if chk.tier == "quick" else 10000
    for _ in range(nn):
        nums.append(gen_number(rng, rng.randint(0, 8)))
    for s in nums:
        items.append({"kind": "num", "text": s, "chars": list(s)})
    return items


# --------------------------------------------------------------------------------------------------
# built-in ids x finite numbers
# --------------------------------------------------------------------------------------------------
# the ids the pinned library defines (NumberingFormat::set_number_format_id panics for any other id: "Not Found
# NumberFormatId." - that is the setter, not formatting, and not part of this property)
BUILTIN_IDS = ([0, 1, 2, 3, 4] + list(range(9, 23)) + list(range(27, 41)) + list(range(44, 63)) + [67, 68, 69, 70])
BUILTIN_VALUES = [0.0, -0.0, 1.0, 1.5, -1.5, 0.5, 0.999, 0.9999999, 59.0, 59.5, 60.0, 61.0, 45435.0,
                  44349.211134259262, -1.0, -45435.5, 1e-7, -1e-7, 123456.789, 2958465.0, 2958465.9999999,
                  2958466.0, 1e7, 95051805.0, 95051806.0, 95051806.5, 1e8, 1e9, 1e10, 1e11, 1e12, 1e15, -1e15, 1e16,
                  1e20, 1e100, 1e300, 1.7976931348623157e308, -1.7976931348623157e308, 5e-324, -5e-324,
                  2.2250738585072014e-308, -96465291.5, -96465292.0, -96465292.5, -96465293.0, -1e9, 0.285, 1.005,
                  999999999999999.0, 0.12345, 1234567.891, 4294967296.0, 2147483648.5, 9007199254740993.0]


def f64_bits(x):
    return "%016x" % struct.unpack(">Q", struct.pack(">d", x))[0]


def gen_builtin_items(chk):
    rng = chk.rng
    vals = list(BUILTIN_VALUES)
    n = 30 if chk.tier == "quick" else 150
    for _ in range(n):
        vals.append(float(gen_number(rng, rng.randint(0, 8))))
        # any finite f64: random bit patterns (exponent field 0x7ff excluded)
        while True:
            bits = rng.getrandbits(64)
            if (bits >> 52) & 0x7ff != 0x7ff:
                break
        vals.append(struct.unpack(">d", struct.pack(">Q", bits))[0])
    return [{"fid": fid, "bits": f64_bits(v)} for v in vals for fid in BUILTIN_IDS]


def batches(a, items):
    return [{"a": a, "items": items[i:i + B]} for i in range(0, len(items), B)]


def gen_cases(chk):
    f = gen_fmt_items(chk)
    g = gen_general_items(chk)
    b = gen_builtin_items(chk)
    chk.extra["format_items"] = len(f)
    chk.extra["general_items"] = len(g)
    chk.extra["builtin_items"] = len(b)
    cases = batches("fmt", f) + batches("general", g) + batches("builtin", b)
    for i, c in enumerate(cases):
        c["case"] = i
    return cases


# --------------------------------------------------------------------------------------------------
def describe(case, ev, detail):
    return f"{case['a']} batch of {len(case['items'])}: {detail}"


def validate(chk, events, tag):
    # (Mismatch payloads of Trace_NumFmt are kept short; vlib raises a ToolError for any MISMATCH/KF print of TLC
    # that it could not parse, e.g. a long tuple wrapped over several lines)
    out = vlib.validate("Trace_NumFmt", "Trace_NumFmt.cfg", events, chk.open_ids, tag, chunk_events=24, jobs=4)
    for ci, off, detail in out["mismatch"]:
        if detail.startswith('<<"gen"'):
            raise vlib.ToolError("generator/driver facts and specification disagree: " + detail[:1500])
    return out


def judge(chk, cases, shrink=True):
    events = vlib.run_cases("numfmt", cases, timeout=120, jobs=6)
    out = validate(chk, events, "c19")
    bad = sorted({ci for ci, _off, _d in out["mismatch"]})
    if shrink and bad:
        # TLC names the first bad item of a batch only: re-drive the items of (the first few) rejected batches one
        # per case, let TLC judge them again, and report every rejected item with a one-item replay script
        explode = bad[:8]
        single = []
        for ci in explode:
            for it in cases[ci].get("items", []):
                single.append({"a": cases[ci]["a"], "items": [it], "case": len(single)})
        if single:
            ev2 = vlib.run_cases("numfmt", single, timeout=60, jobs=6)
            out2 = validate(chk, ev2, "c19s")
            if out2["mismatch"]:
                keep = [i for i in range(len(cases)) if i not in explode]      # the other batches, as they are
                pos = {ci: j for j, ci in enumerate(keep)}
                out1 = {"mismatch": [(pos[ci], off, d) for ci, off, d in out["mismatch"] if ci in pos],
                        "kf": out["kf"], "events": out["events"], "states": out["states"]}
                chk.process_validation(out1, [cases[i] for i in keep], [events[i] for i in keep], "numfmt", describe)
                out2["kf"] = []
                chk.process_validation(out2, single, ev2, "numfmt",
                                       lambda c, e, d: f"{c['a']} item {json.dumps(c['items'][0])[:300]}: {d}")
                return events
    chk.process_validation(out, cases, events, "numfmt", describe)
    return events


def run(chk):
    if chk.tier == "quick":
        vlib.tlc_mc("MC_NumFmt", "MC_NumFmt.cfg", workers=4, must_take=["Tick"], check=chk)
    else:
        vlib.tlc_mc("MC_NumFmt", "MC_NumFmt_thorough.cfg", workers=4, must_take=["Tick"], check=chk, timeout=7200)
    cases = gen_cases(chk)
    events = judge(chk, cases)
    keys = set()
    n_items = 0
    for c in cases:
        for it in c["items"]:
            n_items += 1
            if c["a"] == "fmt":
                keys.add(("f", it["s"], it["fmt"]))
            elif c["a"] == "general":
                keys.add(("g", it["kind"], it["text"]))
            else:
                keys.add(("b", it["fid"], it["bits"]))
    chk.evaluations = n_items
    chk.nontrivial = keys
    chk.rule = ("distinct (number, pattern) pairs: numbers are canonical decimal strings with <= 15 significant digits, "
                "0 or 1e-7 <= |x| <= 1e15, built around the pattern's cut position (fraction shorter than / equal to / "
                "one longer than / much longer than the pattern, leading zeros, 9..9 carry chains into the integer "
                "part, exact halves, 4999.. below halves, negatives) under 0, 0.0..0.000000, #,##0, #,##0.0.., 0%, "
                "0.0%..; plus distinct General items (numbers; arbitrary, decimal-looking and exponent-form text) and "
                "distinct (built-in id, finite f64) pairs incl. random bit patterns and calendar boundaries")
    wanted = [("fmt", "s", "1234567.891", "fmt", "#,##0.00"), ("fmt", "s", "-1234.5", "fmt", "0.0"),
              ("fmt", "s", "1.5", "fmt", "0"), ("fmt", "s", "1.005", "fmt", "0.00"), ("fmt", "s", "0.285", "fmt", "0%"),
              ("general", "text", "007", "kind", "text"), ("general", "text", "abc", "kind", "text"),
              ("builtin", "s", "100000000", "fid", 14)]
    keep = ("s", "fmt", "kind", "text", "fid", "code", "out", "outws", "outcell", "outcome")
    for evs in events:                      # a few recorded items verbatim (correct ones and known-deviant ones)
        e = evs[0]
        for it in e.get("items", []):
            for w in list(wanted):
                if e["a"] == w[0] and it.get(w[1]) == w[2] and it.get(w[3]) == w[4]:
                    wanted.remove(w)
                    chk.sample({"event": e["a"], "item": {k: it[k] for k in keep if k in it}}, limit=8)
    chk.assumptions += [
        "Rust's f64 Display prints the shortest decimal string that round-trips (the driver checks s == "
        "parse(s).to_string() for every number; the trace specification requires that flag)",
        "the exact decimal expansion of the IEEE-754 product 100.0*x is computed by the driver with std formatting; "
        "the trace specification checks it against the decimal 100*x to 15 significant digits",
        "for text under General the facts 'parses as f64' / 'Display of the parsed number' come from Rust's std; "
        "for plain decimal text the specification recomputes them itself",
        "a negative number that rounds to zero keeps its sign (\"-0.00\"), as the statement says 'with the sign kept'",
        "the harness is a release build: i32 overflow wraps (C19-KF2's outcome is modelled with wrap-around)",
        "TLC's ToString, string concatenation and the CommunityModules Json reader are correct"]


def replay(chk, path):
    with open(path) as f:
        rp = json.load(f)
    script = rp["script"]
    script.setdefault("case", 0)
    judge(chk, [script], shrink=False)
