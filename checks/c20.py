"""C20 - CSV export is a faithful rectangular rendering of the active sheet.

Spec: spec/Csv.tla (grid, RFC-4180 reader, writer/reader state machine), MC_Csv*.cfg.
Conformance: harness/src/bin/csv.rs drives writer::csv::write_writer, pydec/csvparse.py projects the
bytes (decode with the selected encoding, read as CSV), spec/Trace_Csv.tla judges every event.
"""
import hashlib
import json
import vlib
from pydec import csvparse

ENCODINGS = ["utf_8", "shift_jis", "koi_8_u", "koi_8_r", "iso_8859_8_i", "gbk", "euc_kr", "big_5",
             "utf_16_le", "utf_16_be"]
TRIMS = [False, True]
WRAPS = [0, 34, 39]
PLACEHOLDER = 233      # the model's "non-ASCII character the encoding can represent"

# Non-ASCII characters used per encoding: mainstream letters of the script the encoding was made for, on
# which the WHATWG tables (encoding_rs) and Python's codecs agree; every generated text is additionally
# required to round-trip through the Python codec (else the generator stops with a tool error).
REPERTOIRE = {
    "utf_8": [0xE9, 0xDF, 0x416, 0x65E5, 0x672C, 0xD55C, 0x5D0, 0x1F600, 0x3000, 0xA0, 0x2003],
    "utf_16_le": [0xE9, 0xDF, 0x416, 0x65E5, 0x672C, 0xD55C, 0x5D0, 0x1F600, 0x3000, 0xA0, 0x2003],
    "utf_16_be": [0xE9, 0xDF, 0x416, 0x65E5, 0x672C, 0xD55C, 0x5D0, 0x1F600, 0x3000, 0xA0, 0x2003],
    "shift_jis": [ord(c) for c in "日本語表計算あいうえおカタナ"] + [0xFF76, 0xFF85, 0x3000],
    "koi_8_u": [ord(c) for c in "АБВГДЖЯабвгджяёЁєіїґЄІЇҐ"],
    "koi_8_r": [ord(c) for c in "АБВГДЖЯабвгджяёЁ"],
    "iso_8859_8_i": list(range(0x5D0, 0x5EB)),
    "gbk": [ord(c) for c in "中文汉字表格电子试算"] + [0x3000],
    "euc_kr": [ord(c) for c in "가나다라마바사한국어글표계산"] + [0x3000],
    "big_5": [ord(c) for c in "中文漢字表格試算繁體電子"] + [0x3000],
}
# white space that both Rust's str::trim and the specification's WhiteSpace set remove
PAD_ASCII = [32, 9, 13, 10]
PAD_WIDE = {e: [c for c in REPERTOIRE[e] if c in (0x3000, 0xA0, 0x2003)] for e in ENCODINGS}


def check_text(cps, enc):
    try:
        b = csvparse.encode(cps, enc)
        ok, back = csvparse.decode(b, enc)
    except Exception as ex:
        raise vlib.ToolError(f"generator produced text the {enc} codec cannot represent: {cps} ({ex})")
    if not ok or back != list(cps):
        raise vlib.ToolError(f"generator produced text that does not round-trip through the {enc} codec: {cps}")


def exports_all():
    return [{"a": "Export", "trim": t, "wrap": w} for t in TRIMS for w in WRAPS]


def cell(s, r, c, text=None, num=None, boolean=None):
    if num is not None:
        return {"a": "SetCell", "s": s, "r": r, "c": c, "k": "n", "v": [num]}
    if boolean is not None:
        return {"a": "SetCell", "s": s, "r": r, "c": c, "k": "b", "v": [1 if boolean else 0]}
    return {"a": "SetCell", "s": s, "r": r, "c": c, "k": "s", "v": list(text)}


def T(s):
    return [ord(ch) for ch in s]


# ------------------------------------------------------------------------------------------------
def rm_step(s, r, c):
    return {"a": "RemoveCell", "s": s, "r": r, "c": c}


def replay_cases(chk, replays, removal_only=False):
    """TLC behaviours: group by build history, attach the exports TLC enumerated, instantiate the
    placeholder character for the target encoding.  quick tier: a seeded third of the general histories
    x 2 encodings, every removal history x 1 encoding; thorough: everything x 10 encodings."""
    groups = {}
    for h in replays:
        build = [st for st in h if st["a"] != "Export"]
        if removal_only and not any(st["a"] == "RemoveCell" for st in build):
            continue
        key = json.dumps(build, sort_keys=True)
        groups.setdefault(key, (build, []))[1].append(h[-1])
    cases = []
    quick = chk.tier == "quick"
    per = (1 if removal_only else 2) if quick else len(ENCODINGS)
    items = sorted(groups.items())
    if quick and not removal_only:
        items = [it for it in items if chk.rng.random() < 1 / 3 or any(st["a"] == "RemoveCell" for st in it[1][0])]
    for gi, (key, (build, exps)) in enumerate(items):
        for j in range(per):
            enc = ENCODINGS[(gi + j * 5) % len(ENCODINGS)] if quick else ENCODINGS[j]
            rep = PLACEHOLDER if enc.startswith("utf") else REPERTOIRE[enc][gi % len(REPERTOIRE[enc])]
            steps = []
            for st in build:
                if st["a"] == "SetCell":
                    steps.append(cell(st["s"], st["r"], st["c"], [rep if x == PLACEHOLDER else x for x in st["v"]]))
                elif st["a"] == "RemoveCell":
                    steps.append(rm_step(st["s"], st["r"], st["c"]))
                else:
                    steps.append({"a": "SetActive", "s": st["s"]})
            for e in sorted(exps, key=lambda e: (e["trim"], e["wrap"])):
                steps.append({"a": "Export", "trim": e["trim"], "wrap": e["wrap"]})
            cases.append({"nsheets": 2, "enc": enc, "steps": steps, "src": "tlc-removal" if removal_only else "tlc"})
    return cases


def boundary_cases(chk):
    cases = []

    def add(enc, nsheets, steps, exports=None):
        cases.append({"nsheets": nsheets, "enc": enc, "steps": steps + (exports or exports_all()), "src": "boundary"})

    for enc in ENCODINGS:
        na = REPERTOIRE[enc][0]
        nb = REPERTOIRE[enc][1]
        # the open findings, deterministically: KF1 (no wrap + delimiter / line break), KF2 (wrap character
        # inside a field), KF3 (UTF-16 options) are hit by these sheets in every run
        add(enc, 1, [cell(1, 1, 1, T("a,b")), cell(1, 1, 2, T("x"))])
        add(enc, 1, [cell(1, 1, 1, T("a\r\nb")), cell(1, 2, 1, T("l\nf")), cell(1, 3, 1, T("c\rr"))])
        add(enc, 1, [cell(1, 1, 1, T('say "hi"')), cell(1, 1, 2, T("it's")), cell(1, 2, 2, [na, 34, nb])])
        add(enc, 1, [cell(1, 1, 1, T('"')), cell(1, 2, 1, T("'")), cell(1, 3, 1, T('""')), cell(1, 4, 1, T("''"))])
        # clean content: every option combination must hold (except UTF-16)
        add(enc, 1, [cell(1, 1, 1, T("plain")), cell(1, 1, 2, [na, nb]), cell(1, 2, 1, T("  padded\t")),
                     cell(1, 2, 2, T(" ")), cell(1, 3, 3, T("x y"))])
        # leading empty rows and columns, gaps, single column with empty lines
        add(enc, 1, [cell(1, 3, 3, [na])])
        add(enc, 1, [cell(1, 1, 1, T("a")), cell(1, 3, 1, T("b")), cell(1, 6, 1, T(" "))])
        add(enc, 1, [cell(1, 1, 1, T("a")), cell(1, 1, 4, T("b")), cell(1, 1, 7, [32, na, 32])])
        # numbers and booleans
        add(enc, 1, [cell(1, 1, 1, num=0), cell(1, 1, 2, num=42), cell(1, 2, 1, boolean=True),
                     cell(1, 2, 2, boolean=False), cell(1, 3, 3, num=2147483647)])
        # active sheet is not the first one; another sheet has more rows and columns
        add(enc, 3, [cell(1, 5, 5, T("other")), cell(3, 1, 2, T("third")), cell(2, 2, 1, T("second")),
                     {"a": "SetActive", "s": 3}] + exports_all() +
            [{"a": "SetActive", "s": 2}] + exports_all() + [{"a": "SetActive", "s": 1}])
        # removals: the grid must shrink to what is still used (rightmost / lowest cell removed, a cell whose
        # transposed position holds the only cell of the last column, diagonal cell, removal on another sheet,
        # removal of a missing cell, removal then re-insertion)
        add(enc, 1, [cell(1, 1, 1, T("a")), cell(1, 2, 1, T("b")), cell(1, 1, 3, T("c"))] + exports_all()[:2] +
            [rm_step(1, 1, 3)])
        add(enc, 1, [cell(1, 1, 1, T("a")), cell(1, 2, 3, T("c")), cell(1, 3, 2, T("x")), rm_step(1, 3, 2)])
        add(enc, 1, [cell(1, 1, 1, T("a")), cell(1, 3, 3, [na]), rm_step(1, 3, 3)])
        add(enc, 1, [cell(1, 1, 1, T("a")), cell(1, 4, 1, T("d")), cell(1, 1, 2, T("b")), rm_step(1, 4, 1),
                     rm_step(1, 5, 5)])
        add(enc, 2, [cell(1, 1, 2, T("p")), cell(2, 2, 1, T("q")), cell(2, 1, 2, T("r")), rm_step(2, 1, 2)] +
            exports_all() + [{"a": "SetActive", "s": 2}])
        add(enc, 1, [cell(1, 2, 3, T("x")), rm_step(1, 2, 3)] + exports_all()[:1] + [cell(1, 1, 2, T("y")),
                     cell(1, 2, 3, T("z")), rm_step(1, 1, 2)])
        # an empty active sheet (zero records), overwriting a cell
        add(enc, 2, [cell(1, 1, 1, T("x")), {"a": "SetActive", "s": 2}])
        add(enc, 1, [cell(1, 1, 1, T("a,b")), cell(1, 1, 1, T("ab")), cell(1, 2, 2, T("q")), cell(1, 2, 2, num=7)])
        # commas, line breaks and the *other* quote character under a wrap character: must hold
        add(enc, 1, [cell(1, 1, 1, T("a,b\r\nc'd")), cell(1, 2, 2, T(",")), cell(1, 2, 1, T("\r\n"))],
            [{"a": "Export", "trim": t, "wrap": 34} for t in TRIMS])
        add(enc, 1, [cell(1, 1, 1, T('a,b\r\nc"d')), cell(1, 2, 2, T(",")), cell(1, 2, 1, T("\n"))],
            [{"a": "Export", "trim": t, "wrap": 39} for t in TRIMS])
        # values that merely look quoted, without wrap character (quoting disabled in the reader)
        add(enc, 1, [cell(1, 1, 1, T('"abc"')), cell(1, 1, 2, T("'x")), cell(1, 2, 1, T('a"'))],
            [{"a": "Export", "trim": t, "wrap": 0} for t in TRIMS])
        # wide white space at the edges (where the encoding has it)
        for p in PAD_WIDE[enc]:
            add(enc, 1, [cell(1, 1, 1, [p, 97, p]), cell(1, 1, 2, [p]), cell(1, 2, 1, [97, p, 98])])
        # long value, wide and tall sheets
        add(enc, 1, [cell(1, 1, 1, [na if i % 7 == 3 else 97 + i % 26 for i in range(300)])])
        add(enc, 1, [cell(1, 1, c, T("c%d" % c)) for c in range(1, 41, 3)])
        add(enc, 1, [cell(1, r, 1, T("r%d" % r)) for r in range(1, 41, 3)])
    return cases


def random_value(rng, enc, specials):
    """value classes: plain, with specials (delimiter, quotes, CR, LF as allowed for the case), padded,
    non-ASCII, mixed"""
    rep = REPERTOIRE[enc]
    plain = [97, 98, 122, 65, 48, 57, 45, 95, 46, 59, 32]
    n = rng.choice([1, 1, 2, 3, 3, 4, 6, 9])
    cls = rng.random()
    out = []
    for _ in range(n):
        x = rng.random()
        if specials and x < (0.45 if cls < 0.5 else 0.15):
            s = rng.choice(specials)
            out.extend([13, 10] if s == "crlf" else [s])
        elif x < 0.7:
            out.append(rng.choice(plain))
        else:
            out.append(rng.choice(rep))
    if rng.random() < 0.25:
        pads = PAD_ASCII[:2] + PAD_WIDE[enc] + ([13, 10] if any(s in specials for s in (13, 10, "crlf")) else [])
        out = [rng.choice(pads) for _ in range(rng.randint(0, 2))] + out + \
              [rng.choice(pads) for _ in range(rng.randint(0, 2))]
    return out


def random_cases(chk):
    rng = chk.rng
    quick = chk.tier == "quick"
    ncases = 700 if quick else 2600
    cases = []
    for i in range(ncases):
        enc = ENCODINGS[i % len(ENCODINGS)] if rng.random() < 0.8 else rng.choice(ENCODINGS[:8])
        big = (not quick) and rng.random() < 0.5
        R = rng.randint(1, 20 if big else 6)
        C = rng.randint(1, 20 if big else 6)
        nsheets = rng.choice([1, 1, 2, 3])
        # which special characters this case may contain (so that every wrap option also meets content
        # that it must render correctly)
        specials = [s for s in (44, 34, 39, 13, 10, "crlf") if rng.random() < 0.45]
        dens = rng.choice([0.15, 0.4, 0.8])
        steps = []
        act = rng.randint(1, nsheets)
        for s in range(1, nsheets + 1):
            r_, c_ = (R, C) if s == act else (rng.randint(1, 8), rng.randint(1, 8))
            cells = [(r, c) for r in range(1, r_ + 1) for c in range(1, c_ + 1) if rng.random() < dens]
            rng.shuffle(cells)
            for (r, c) in cells:
                k = rng.random()
                if k < 0.06:
                    steps.append(cell(s, r, c, num=rng.choice([0, 7, 10, 1234, 99999])))
                elif k < 0.1:
                    steps.append(cell(s, r, c, boolean=rng.random() < 0.5))
                else:
                    steps.append(cell(s, r, c, random_value(rng, enc, specials)))
        if act != 1 or rng.random() < 0.2:
            pos = rng.randint(0, len(steps))
            steps.insert(pos, {"a": "SetActive", "s": act})
            if act == 1:
                steps.insert(pos, {"a": "SetActive", "s": nsheets})
        exps = exports_all()
        rng.shuffle(exps)
        if rng.random() < 0.6:
            # second phase: export, remove cells again (whole last column / last row / a few cells / a missing
            # cell / a cell of another sheet), possibly set some again, export with every option
            have = {}
            for st in steps:
                if st["a"] == "SetCell":
                    have.setdefault(st["s"], set()).add((st["r"], st["c"]))
            mine = sorted(have.get(act, set()))
            rem = []
            if mine:
                mode = rng.random()
                if mode < 0.3:
                    mc = max(c for _, c in mine)
                    rem = [p for p in mine if p[1] == mc]
                elif mode < 0.55:
                    mr = max(r for r, _ in mine)
                    rem = [p for p in mine if p[0] == mr]
                else:
                    rem = rng.sample(mine, min(len(mine), rng.randint(1, 4)))
            rsteps = [rm_step(act, r, c) for r, c in rem]
            if rng.random() < 0.3:
                rsteps.append(rm_step(act, rng.randint(1, R + 2), rng.randint(1, C + 2)))
            others = [(s_, p) for s_ in have if s_ != act for p in sorted(have[s_])]
            if others and rng.random() < 0.4:
                s_, (r, c) = rng.choice(others)
                rsteps.append(rm_step(s_, r, c))
            rng.shuffle(rsteps)
            if rem and rng.random() < 0.3:
                r, c = rng.choice(rem)
                rsteps.append(cell(act, r, c, random_value(rng, enc, specials)))
            steps = steps + exps[:2] + rsteps
        cases.append({"nsheets": nsheets, "enc": enc, "steps": steps + exps, "src": "random"})
    return cases


# ------------------------------------------------------------------------------------------------
def project_bytes(ev):
    """Replace the logged bytes of an Export event by their projection (decode + read).  No judgement."""
    data = bytes.fromhex(ev["hex"])
    ok, text = csvparse.decode(data, ev["enc"])
    grid, wf = csvparse.parse(text, ev["wrap"]) if ok else ([], False)
    ev["nbytes"] = len(data)
    ev["dec"], ev["text"], ev["grid"], ev["wf"] = ok, text, grid, wf
    if ev["enc"] in ("utf_16_le", "utf_16_be"):
        ev["dec8"], ev["text8"] = csvparse.decode(data, "utf_8")
    else:
        ev["dec8"], ev["text8"] = False, []
    if len(ev["hex"]) > 600:
        ev["hex"] = ev["hex"][:600] + "..."
    return ev


def describe(case, ev, detail):
    if ev is None:
        return detail
    if ev.get("a") != "Export":
        return f"{ev.get('a')} event not explained by the specification: {detail}"
    txt = "".join(chr(c) for c in ev.get("text", [])[:120]).encode("unicode_escape").decode()
    return (f"Export enc={ev['enc']} trim={ev['trim']} wrap={ev['wrap']!r} outcome={ev['outcome']} "
            f"decoded={ev.get('dec')} text={txt!r}: grid read back differs from Grid(active sheet, options) "
            f"and no known deviation explains it [{detail}]")


def judge(chk, cases):
    for c in cases:
        for st in c["steps"]:
            if st["a"] == "SetCell" and st["k"] == "s":
                check_text(st["v"], c["enc"])
    events = vlib.run_cases("csv", cases, timeout=30, jobs=4)
    for evs in events:
        for ev in evs:
            if ev.get("a") == "Export" and "hex" in ev:
                project_bytes(ev)
    out = vlib.validate("Trace_Csv", "Trace_Csv.cfg", events, chk.open_ids, "c20", chunk_events=6000, jobs=6)
    for ci, off, detail in out["mismatch"]:
        if '"gen"' in detail or '"tool"' in detail:
            raise vlib.ToolError(f"generator/projection inconsistent with the specification (case {ci}, event {off}): "
                                 + detail)
    chk.process_validation(out, cases, events, "csv", describe)
    return events


def run(chk):
    acts = ["SetCell", "Begin", "EmitOpen", "EmitChar", "EmitDoubled", "EmitClose", "EmitComma", "EmitNewline",
            "Finish", "Encode"]
    vlib.tlc_mc("MC_Csv", "MC_Csv.cfg", workers=4, must_take=acts + ["RemoveCell"], check=chk)
    vlib.tlc_mc("MC_Csv", "MC_Csv_sheets.cfg", workers=4, must_take=acts + ["SetActive", "RemoveCell"], check=chk)
    vlib.tlc_mc("MC_Csv", "MC_Csv_deep.cfg", workers=4, must_take=acts, check=chk)
    vlib.tlc_mc("MC_Csv", "MC_Csv_free.cfg", workers=4, must_take=["BeginFree", "Feed", "FinishFree"], check=chk)
    if chk.tier == "thorough":
        vlib.tlc_mc("MC_Csv", "MC_Csv_full.cfg", workers=4, must_take=acts, check=chk)
        vlib.tlc_mc("MC_Csv", "MC_Csv_big.cfg", workers=4, must_take=acts, check=chk)
    # vacuity guard: without doubling of the wrap character TLC must refute ParsedEqualsGrid
    r = vlib.run_tlc("MC_Csv", "MC_Csv_noescape.cfg", workers=2, coverage=False)
    if not (r.violation and "ParsedEqualsGrid" in r.violation):
        raise vlib.ToolError("MC_Csv_noescape: the unescaped design was not refuted - ParsedEqualsGrid is vacuous")
    vlib.log("[tlc] MC_Csv MC_Csv_noescape.cfg: unescaped design refuted as expected (" + r.violation.strip() + ")")
    # behaviours enumerated by TLC, to be run on the real library
    r = vlib.run_tlc("MC_Csv", "MC_Csv_replay.cfg", workers=4, coverage=False)
    if not r.ok or not r.replays:
        raise vlib.ToolError("MC_Csv_replay did not produce behaviours")
    chk.add_mc("MC_Csv", "MC_Csv_replay.cfg", r)
    vlib.log(f"[tlc] MC_Csv MC_Csv_replay.cfg: {len(r.replays)} behaviours")
    r2 = vlib.run_tlc("MC_Csv", "MC_Csv_replay_rm.cfg", workers=4, coverage=False)
    if not r2.ok or not r2.replays:
        raise vlib.ToolError("MC_Csv_replay_rm did not produce behaviours")
    chk.add_mc("MC_Csv", "MC_Csv_replay_rm.cfg", r2)
    vlib.log(f"[tlc] MC_Csv MC_Csv_replay_rm.cfg: {len(r2.replays)} behaviours")
    cases = (replay_cases(chk, r.replays) + replay_cases(chk, r2.replays, removal_only=True) + boundary_cases(chk) +
             random_cases(chk))
    if not any(st["a"] == "RemoveCell" for c in cases for st in c["steps"]):
        raise vlib.ToolError("no removal history was generated")
    for i, c in enumerate(cases):
        c["case"] = i
    events = judge(chk, cases)
    # coverage figures, measured
    n_exp, keys, by_enc, by_src = 0, set(), {}, {}
    for c, evs in zip(cases, events):
        by_src[c["src"]] = by_src.get(c["src"], 0) + 1
        for ev in evs:
            if ev.get("a") != "Export":
                continue
            n_exp += 1
            by_enc[ev["enc"]] = by_enc.get(ev["enc"], 0) + 1
            sheet = ev["obs"]["sheets"][ev["obs"]["active"] - 1] if 1 <= ev["obs"]["active"] <= len(ev["obs"]["sheets"]) else []
            if sheet:
                keys.add(hashlib.sha1(json.dumps([ev["enc"], ev["trim"], ev["wrap"], sheet]).encode()).hexdigest())
    chk.evaluations = n_exp
    chk.nontrivial = keys
    chk.extra["exports_by_encoding"] = by_enc
    chk.extra["cases_by_source"] = by_src
    chk.rule = ("case = workbook built by SetCell/RemoveCell/SetActive + exports; sources: TLC-enumerated histories of <= 2 "
                "build actions (quick: a seeded third x 2 encodings, thorough: all x 10) and every TLC-enumerated "
                "history of <= 3 build actions that removes a cell, each x 6 trim/wrap options; hand-written boundary sheets "
                "per encoding, seeded random sheets (quick <= 6x6, thorough <= 20x20, 1-3 sheets; 60% with a second phase that removes cells and exports again); an export is "
                "non-trivial when the active sheet has at least one cell; distinct = distinct (encoding, trim, wrap, "
                "active sheet content)")
    for c, evs in zip(cases, events):
        if c["src"] == "random" and len(chk.samples) < 3:
            ex = [e for e in evs if e.get("a") == "Export"][0]
            chk.sample({"case": {k: c[k] for k in ("nsheets", "enc")}, "steps": c["steps"][:6],
                        "export_event": {k: ex[k] for k in ("enc", "trim", "wrap", "outcome", "dec", "grid", "hex")}})
    chk.sample({"tlc_replay": r.replays[len(r.replays) // 2]})
    chk.assumptions += [
        "characters are compared as Unicode code points; Python's codecs decode the bytes (shift_jis, koi8_u, koi8_r, "
        "iso8859_8, gbk, euc_kr, big5, utf-16-le/be, utf-8); texts are generated only from characters the selected "
        "encoding represents (ASCII + mainstream letters of its script)",
        "CSV reader: delimiter ',', quote character = the wrap character (quoting disabled when there is none); CRLF, "
        "CR or LF end a record outside quotes; an empty line is one record with one empty field; lenient on malformed "
        "quoting; pydec/csvparse.py is re-checked against the specification's reader by TLC on every event",
        "'trimmed' = Unicode White_Space removed at both ends; 'used' = the cell exists with a non-empty value text "
        "(cells with an empty value are never generated); value kinds: strings, natural numbers, booleans",
        "with no wrap character a value that starts with a double quote is accepted as written (a reader that assumes "
        "the default quote character would mis-read it; not demanded)",
    ]


def replay(chk, path):
    with open(path) as f:
        rp = json.load(f)
    case = rp["script"]
    judge(chk, [case])
    chk.evaluations = sum(1 for st in case["steps"] if st["a"] == "Export")
