"""C09 - formula text survives the tokenizer; translation shifts only relative references.

Spec: spec/Formula.tla (tokens, renderings, Translate), spec/FormulaGen.tla (push-down generator of
well-formed formulas), MC_FormulaGen*.cfg (TLC: every accepted formula is well formed, translation by
(0,0) is the identity, only non-$ parts move).  Every formula TLC accepts within the bound, plus
seeded random formulas of depth <= 6, is given to the real library (harness/src/bin/formula.rs:
Cell::set_formula / set_coordinate / get_formula for five offsets, Worksheet::insert_new_row far
below every reference, and - the formula sitting on one sheet of a three-sheet workbook - workbook-level
insert/remove of rows/columns on ANOTHER sheet at or before the formula's references); spec/Trace_FormulaCell.tla judges every text read back.

This module also holds the Python side of the token vocabulary (constructors, rendering, the random
expression generator) shared with checks/c08.py.  Python never judges: the texts it renders are
re-derived by TLC ("gen" mismatch = tool error).
"""
import json
import vlib

MAXROW, MAXCOL = 1048576, 16384
A = "ABCDEFGHIJKLMNOPQRSTUVWXYZ"
MUST_TAKE = ["Operand", "Prefix", "Open", "Fn", "Close0", "Infix", "Percent", "Sep", "Close", "Isect", "WsA", "WsB"]


# ---------------------------------------------------------------------------------------------
# tokens (mirror of spec/Formula.tla)
# ---------------------------------------------------------------------------------------------
def colname(n):
    s = ""
    while n > 0:
        n, r = divmod(n - 1, 26)
        s = A[r] + s
    return s


def geo(k, c1=0, r1=0, lc1=False, lr1=False, c2=0, r2=0, lc2=False, lr2=False):
    return {"k": k, "c1": c1, "r1": r1, "lc1": lc1, "lr1": lr1, "c2": c2, "r2": r2, "lc2": lc2, "lr2": lr2}


def ref(qc, qq, g):
    return {"k": "ref", "qc": list(qc), "qq": bool(qq), "g": g}


def tok(k, s):
    return {"k": k, "s": s}


def strtok(text):
    return {"k": "str", "cs": list(text)}


def nametok(text):
    return {"k": "name", "cs": list(text)}


def ws(n):
    return {"k": "ws", "n": n}


def isect(n):
    return {"k": "isect", "n": n}


def coord(c, r, lc, lr):
    return ("$" if lc else "") + colname(c) + ("$" if lr else "") + str(r)


def geotext(g):
    k = g["k"]
    if k == "cell":
        return coord(g["c1"], g["r1"], g["lc1"], g["lr1"])
    if k == "rect":
        return coord(g["c1"], g["r1"], g["lc1"], g["lr1"]) + ":" + coord(g["c2"], g["r2"], g["lc2"], g["lr2"])
    if k == "rows":
        return ("$" if g["lr1"] else "") + str(g["r1"]) + ":" + ("$" if g["lr2"] else "") + str(g["r2"])
    return ("$" if g["lc1"] else "") + colname(g["c1"]) + ":" + ("$" if g["lc2"] else "") + colname(g["c2"])


def qualtext(t):
    if not t["qc"]:
        return ""
    name = "".join(t["qc"])
    return ("'" + name.replace("'", "''") + "'!") if t["qq"] else (name + "!")


def toktext(t):
    k = t["k"]
    if k == "ref":
        return qualtext(t) + geotext(t["g"])
    if k == "str":
        return '"' + "".join(t["cs"]).replace('"', '""') + '"'
    if k == "name":
        return "".join(t["cs"])
    if k == "arr":
        return "{" + ";".join(",".join(r) for r in t["rows"]) + "}"
    if k in ("ws", "isect"):
        return " " * t["n"]
    if k == "fn":
        return t["s"] + "("
    return t["s"]


def render(toks):
    return "".join(toktext(t) for t in toks)


def is_apos(t):
    return t["k"] == "ref" and t["qq"]


def is_nonlocal(t):
    return is_apos(t) or t["k"] == "brk"


def plain_tail(t):
    if t["k"] in ("str", "arr", "brk", "err"):
        return False
    if t["k"] == "ref":
        return not t["qc"] and t["g"]["k"] == "cell"
    return True


def in_class(toks):
    """The generation class of FormulaGen.tla / Trace_FormulaImpl!InClass (re-checked by TLC)."""
    nl = [i for i, t in enumerate(toks) if is_nonlocal(t)]
    if len(nl) > 1:
        return False
    for i, t in enumerate(toks):
        if is_apos(t) and not all(plain_tail(u) for u in toks[i + 1:]):
            return False
    if toks and toks[-1]["k"] == "ws" and nl:
        return False
    return True


def row_extent(toks, own):
    """highest row a reference of sheet `own` uses (0 if none)"""
    m = 0
    for t in toks:
        if t["k"] == "ref" and (not t["qc"] or "".join(t["qc"]) == own) and t["g"]["k"] in ("cell", "rect", "rows"):
            m = max(m, t["g"]["r1"], t["g"]["r2"])
    return m


# ---------------------------------------------------------------------------------------------
# seeded random formulas from the expression grammar (depth <= 6)
# ---------------------------------------------------------------------------------------------
BCOLS = [1, 2, 3, 4, 26, 27, 702, 703, 16383, 16384]
BROWS = [1, 2, 3, 5, 9, 10, 99, 100, 65536, 1048575, 1048576]
PLAIN_SHEETS = ["S1", "Data", "Sheet2"]
QUOTED_SHEETS = ["My Sheet", "O'Brien", "S1", "Jan-Mar", "a!b"]
STR_ALPHABET = list("abXY01 ,;:()[]{}#!%&+-*/<>='$.") + ['"', '"', "é", "日"]
NAMES_LOWER = ["rate", "my_name", "_x1", "tax.rate", "x"]
NAMES_CAP = ["Total", "MyName", "TAXRATE", "ABC", "Q_1"]
NUMS = ["0", "1", "42", "3.14", ".5", "1E+5", "1.5E-3", "2e10", "1048577"]
ERRS = ["#NULL!", "#DIV/0!", "#VALUE!", "#REF!", "#NAME?", "#NUM!", "#N/A"]
ARRS = [[["1", "2"], ["3", "4"]], [["1"]], [['"a"', "TRUE"]], [["1.5", "2", "3"]], [["1"], ["2"], ["3"]]]
BRKS = ["Table1[Col]", "[1]Sheet1!$A$1", "Table1[[#This Row],[Col]]", "Table1[#All]"]
FNS = ["SUM", "IF", "MAX", "LOG10", "INDEX", "_xlfn.CONCAT", "ROUND"]
INFIX = ["+", "-", "*", "/", "^", "&", "=", "<", ">", "<=", ">=", "<>"]


class Gen:
    """Left-to-right random generation; keeps the generation class (at most one of: quoted sheet,
    bracketed reference, trailing blank; after a quoted sheet only plain lexemes)."""

    def __init__(self, rng, sheets=None, own=None, small=None, max_ws=4, allow=("apos", "brk", "trail")):
        self.rng, self.toks = rng, []
        self.apos = self.nl = False
        self.ws_left = max_ws
        self.sheets = sheets          # None: free sheet names; else list of workbook sheet names to refer to
        self.own = own
        self.small = small            # None: real grid; else (maxrow, maxcol) window for coordinates
        self.allow = set(allow)
        self.qual_left = 3            # plain-qualified references (each doubles the set of acceptable renderings)

    def emit(self, t):
        self.toks.append(t)
        if is_apos(t):
            self.apos = True
        if is_nonlocal(t):
            self.nl = True

    def blank(self, p=0.15):
        if self.ws_left > 0 and self.rng.random() < p:
            self.ws_left -= 1
            self.emit(ws(self.rng.choice([1, 1, 2])))

    def coords(self):
        r = self.rng
        if self.small:
            return r.randint(1, self.small[1]), r.randint(1, self.small[0])
        c = r.choice(BCOLS) if r.random() < 0.6 else r.randint(1, MAXCOL)
        w = r.choice(BROWS) if r.random() < 0.6 else r.randint(1, MAXROW)
        return c, w

    def geometry(self, cell_only=False):
        r = self.rng
        k = "cell" if cell_only else r.choice(["cell"] * 5 + ["rect"] * 3 + ["rows", "cols"])
        c1, r1 = self.coords()
        c2, r2 = self.coords()
        c1, c2 = min(c1, c2), max(c1, c2)
        r1, r2 = min(r1, r2), max(r1, r2)
        lk = [r.random() < 0.35 for _ in range(4)]
        if k == "cell":
            return geo("cell", c1, r1, lk[0], lk[1])
        if k == "rect":
            return geo("rect", c1, r1, lk[0], lk[1], c2, r2, lk[2], lk[3])
        if k == "rows":
            return geo("rows", 0, r1, False, lk[1], 0, r2, False, lk[3])
        return geo("cols", c1, 0, lk[0], False, c2, 0, lk[2], False)

    def reference(self):
        r = self.rng
        if self.apos:
            return ref([], False, self.geometry(cell_only=True))
        u = r.random()
        if u < 0.55:
            return ref([], False, self.geometry())
        if u < 0.8 and self.qual_left > 0:
            self.qual_left -= 1
            names = [s for s in (self.sheets or PLAIN_SHEETS) if s.isalnum()] or PLAIN_SHEETS
            return ref(r.choice(names), False, self.geometry())
        if not self.nl and "apos" in self.allow:
            names = self.sheets or QUOTED_SHEETS
            return ref(r.choice(names), True, self.geometry())
        return ref([], False, self.geometry())

    def operand(self):
        r = self.rng
        u = r.random()
        if u < 0.5:
            self.emit(self.reference())
        elif u < 0.65:
            self.emit(tok("num", r.choice(NUMS)))
        elif u < 0.72:
            self.emit(nametok(r.choice(NAMES_LOWER + (NAMES_CAP if r.random() < 0.3 else []))))
        elif u < 0.76:
            self.emit(tok("bool", r.choice(["TRUE", "FALSE"])))
        elif self.apos:
            self.emit(tok("num", r.choice(NUMS)))
        elif u < 0.88:
            n = r.choice([0, 1, 2, 3, 5, 8])
            self.emit(strtok("".join(r.choice(STR_ALPHABET) for _ in range(n))))
        elif u < 0.93:
            self.emit(tok("err", r.choice(ERRS)))
        elif u < 0.97:
            self.emit({"k": "arr", "rows": r.choice(ARRS)})
        elif not self.nl and "brk" in self.allow:
            self.emit(tok("brk", r.choice(BRKS)))
        else:
            self.emit(tok("num", "7"))

    def expr(self, depth):
        r = self.rng
        u = r.random()
        if depth <= 0 or u < 0.25:
            self.operand()
        elif u < 0.33:
            self.emit(tok("pre", r.choice(["-", "-", "+"])))
            self.blank(0.05)
            self.term(depth - 1)
        elif u < 0.6:
            self.expr(depth - 1)
            self.blank()
            self.emit(tok("op", r.choice(INFIX)))
            self.blank()
            self.expr(depth - 1)
        elif u < 0.7:
            self.emit(tok("open", "("))
            self.blank(0.1)
            self.expr(depth - 1)
            if r.random() < 0.25:                      # union
                self.emit(tok("sep", ","))
                self.blank(0.1)
                self.expr(depth - 1)
            self.blank(0.1)
            self.emit(tok("close", ")"))
        elif u < 0.9:
            self.emit(tok("fn", r.choice(FNS)))
            nargs = r.choice([0, 1, 1, 2, 2, 3])
            for i in range(nargs):
                if i:
                    self.emit(tok("sep", ","))
                self.blank(0.1)
                self.expr(depth - 1)
                self.blank(0.05)
            self.emit(tok("close", ")"))
        elif u < 0.93:
            self.term(depth - 1)
            self.emit(tok("post", "%"))
        else:
            # intersection: a blank between two operands.  Left operand: reference, function call, parenthesised
            # range or name; right operand: reference, function call or parenthesised range.
            self.isect_operand(depth, r.choice(["ref", "ref", "fn", "paren", "name"]))
            self.emit(isect(r.choice([1, 1, 2])))
            self.isect_operand(depth, r.choice(["ref", "ref", "fn", "paren"]))

    def isect_operand(self, depth, shape):
        r = self.rng
        if shape == "name":
            self.emit(nametok(r.choice(NAMES_LOWER + NAMES_CAP)))
        elif shape == "fn":
            self.emit(tok("fn", r.choice(["INDEX", "OFFSET", "SUM", "IF"])))
            for i in range(r.choice([1, 2, 3])):
                if i:
                    self.emit(tok("sep", ","))
                if i == 0:
                    self.emit(self.reference())
                else:
                    self.expr(min(depth - 1, 1))
            self.emit(tok("close", ")"))
        elif shape == "paren":
            self.emit(tok("open", "("))
            self.emit(self.reference())
            if r.random() < 0.3:
                self.emit(tok("sep", ","))
                self.emit(self.reference())
            self.emit(tok("close", ")"))
        else:
            self.emit(self.reference())

    def term(self, depth):
        """an operand that can take a prefix / postfix operator"""
        if depth > 0 and self.rng.random() < 0.3:
            self.emit(tok("open", "("))
            self.expr(depth - 1)
            self.emit(tok("close", ")"))
        else:
            self.operand()

    def formula(self, depth):
        self.blank(0.05)
        self.expr(depth)
        if not self.nl and "trail" in self.allow and self.rng.random() < 0.04:
            self.emit(ws(self.rng.choice([1, 2])))
        return self.toks


def clean_adjacent_blanks(toks):
    """the generator may emit two blank runs in a row (e.g. after '(' and before a nested expression): merge"""
    out = []
    for t in toks:
        if out and t["k"] == "ws" and out[-1]["k"] in ("ws", "isect"):
            out[-1] = dict(out[-1], n=min(3, out[-1]["n"] + t["n"]))
            continue
        out.append(t)
    # a blank between two operand-like tokens would be an intersection: the grammar never puts a ws there,
    # and a ws directly before '%' or directly after a function name is not generated either
    return out


def random_formula(rng, depth=None, **kw):
    for _ in range(50):
        g = Gen(rng, **kw)
        toks = clean_adjacent_blanks(g.formula(depth if depth is not None else rng.randint(1, 6)))
        if len(toks) <= 60 and in_class(toks) and well_formed_blanks(toks):
            return toks
    return [ref([], False, geo("cell", 1, 1))]


def well_formed_blanks(toks):
    """optional blanks must not sit between two operand ends/starts (that would make them intersections)"""
    ends = {"ref", "num", "str", "name", "bool", "err", "arr", "brk", "close", "post"}
    starts = {"ref", "num", "str", "name", "bool", "err", "arr", "brk", "open", "fn", "pre"}
    for i, t in enumerate(toks):
        if t["k"] == "ws" and 0 < i < len(toks) - 1:
            if toks[i - 1]["k"] in ends and toks[i + 1]["k"] in starts:
                return False
            if toks[i + 1]["k"] == "post":
                return False
    return True


# ---------------------------------------------------------------------------------------------
# cases
# ---------------------------------------------------------------------------------------------
MOVES = [(3, 5, 3, 5), (3, 5, 4, 7), (3, 5, 2, 5), (3, 5, 3, 2), (1, 5, 16384, 5)]
FAR = 1048570


EDITED, THIRD = "Other Sheet", "Third"        # never used as a qualifier by the palettes / the random grammar
_other_rng = None                              # seeded in gen_cases (sample of edits for the TLC-generated formulas)


def ref_lines(toks, ax):
    """every line number (row or column) the formula's references mention"""
    vals = []
    for t in toks:
        if t["k"] == "ref":
            g = t["g"]
            if ax == "row" and g["k"] in ("cell", "rect", "rows"):
                vals += [g["r1"]] + ([g["r2"]] if g["k"] != "cell" else [])
            if ax == "col" and g["k"] in ("cell", "rect", "cols"):
                vals += [g["c1"]] + ([g["c2"]] if g["k"] != "cell" else [])
    return vals


def other_sheet_items(toks, rng, own):
    """Third identity path: workbook-level edits of another sheet, at or before the lines the formula mentions
    (so that a shifter that wrongly applies them would move something).  The host cell C5 is on sheet `own`."""
    items = []
    for edit, ax in ([("Insert", "row")] + [(rng.choice(["Insert", "Remove"]), rng.choice(["row", "col"]))] if rng else
                     [("Insert", "row"), ("Remove", "col")]):
        lim = MAXROW if ax == "row" else MAXCOL
        vals = ref_lines(toks, ax) or [3]
        v = rng.choice(vals) if rng else min(vals)
        p = max(1, min(v, rng.choice([1, v, v - 1, v]) if rng else 1))
        n = rng.choice([1, 2, 3]) if rng else 1
        n = max(1, min(n, lim - p + 1))
        items.append({"op": "other", "c": 3, "r": 5, "edited": EDITED, "third": THIRD, "edit": edit, "ax": ax, "p": p, "n": n})
    return items


def cell_case(toks, text, rng=None, own="S1"):
    items = [{"op": "move", "fc": a, "fr": b, "tc": c, "tr": d} for a, b, c, d in MOVES]
    if rng is not None:                       # two more coordinate changes inside the grid
        for _ in range(2):
            fc, tc = rng.choice(BCOLS), rng.choice(BCOLS)
            fr, tr = rng.choice(BROWS), rng.choice(BROWS)
            items.append({"op": "move", "fc": fc, "fr": fr, "tc": tc, "tr": tr})
    if row_extent(toks, own) < FAR:
        items.append({"op": "far", "c": 3, "r": 5, "p": FAR})
    items += other_sheet_items(toks, rng if rng is not None else _other_rng, own)
    return {"kind": "cell", "toks": toks, "f": text, "own": own, "items": items}


def has_brk(toks):
    return any(t["k"] == "brk" for t in toks)


def fatal_event(case, kind):
    return [{"a": "Fatal", "case": case.get("case", 0), "outcome": kind, "kind": case["kind"], "toks": case["toks"],
             "f": case["f"]}]


def gen_cases(chk):
    global _other_rng
    rng = chk.rng
    _other_rng = rng
    quick = chk.tier == "quick"
    cfgs = ["MC_FormulaGen_replay.cfg", "MC_FormulaGen_replay_deep.cfg"] if quick else \
        ["MC_FormulaGen_replay.cfg", "MC_FormulaGen_replay4.cfg", "MC_FormulaGen_replay_deep6.cfg"]
    formulas, seen = [], set()
    for cfg in cfgs:
        r = vlib.run_tlc("MC_FormulaGen", cfg, workers=4, coverage=False, timeout=3000)
        if not r.ok or not r.replays:
            raise vlib.ToolError(f"formula generation with {cfg} failed: " + (r.violation or r.out[-500:]))
        for rp in r.replays:
            if rp["f"] not in seen:
                seen.add(rp["f"])
                formulas.append((rp["toks"], rp["f"], "S1"))
    n_tlc = len(formulas)
    n_rand = 4000 if quick else 100000
    for _ in range(n_rand):
        toks = random_formula(rng)
        text = render(toks)
        if text not in seen:
            seen.add(text)
            formulas.append((toks, text, rng.choice(["S1", "S1", "My Sheet", "O'Brien"])))
    # a bracketed reference makes the tokenizer loop forever: each such case costs the watchdog time, so only a
    # bounded sample of them is driven (always some: open finding C09-KF1)
    hang, rest = [], []
    for fm in formulas:
        (hang if has_brk(fm[0]) else rest).append(fm)
    rng.shuffle(hang)
    keep = 10 if quick else 40
    hang_fixed = [([tok("brk", "Table1[Col]")], "Table1[Col]", "S1"),
                  ([tok("fn", "SUM"), tok("brk", "[1]Sheet1!$A$1"), tok("close", ")")], "SUM([1]Sheet1!$A$1)", "S1"),
                  # nested brackets outside any function or parenthesis (C09-KF10: the comma met an empty stack)
                  ([tok("brk", "Table1[[#This Row],[Col]]")], "Table1[[#This Row],[Col]]", "S1"),
                  ([tok("brk", "Table1[[#This Row],[Col]]"), tok("op", "*"), tok("num", "2")],
                   "Table1[[#This Row],[Col]]*2", "S1"),
                  ([tok("num", "1"), tok("op", "+"), tok("brk", "Table1[[#This Row],[Col]]"), tok("post", "%")],
                   "1+Table1[[#This Row],[Col]]%", "My Sheet")]
    hang = hang_fixed + hang[:keep]
    cases = [cell_case(t, f, rng if i >= n_tlc else None, own) for i, (t, f, own) in enumerate(rest)]
    hcases = [cell_case(t, f, None, own) for t, f, own in hang]
    for i, c in enumerate(cases + hcases):
        c["case"] = i
    chk.extra["cases"] = {"tlc_accepted_formulas": n_tlc, "random_formulas": len(formulas) - n_tlc,
                          "bracket_formulas_generated": len(hang) - 5 + max(0, len([1 for f in formulas if has_brk(f[0])]) - keep),
                          "bracket_formulas_driven": len(hcases)}
    return cases, hcases


def describe(case, ev, detail):
    return f"formula {case['f']!r}: {detail}"


def judge(chk, cases, hcases=()):
    events = vlib.run_cases("formula", cases, timeout=20, fatal_event=fatal_event) if cases else []
    if hcases:
        hcases = list(hcases)
        events += vlib.run_cases("formula", hcases, timeout=4, jobs=min(12, len(hcases)), fatal_event=fatal_event)
    allcases = list(cases) + list(hcases)
    for i, (c, ev) in enumerate(zip(allcases, events)):
        if len(ev) == 1 and ev[0].get("a") == "Fatal" and ev[0]["outcome"] == "timeout" and not has_brk(c["toks"]):
            # a time-out without a bracketed reference: run it once more alone (loaded machine?) - the repeat counts
            events[i] = vlib.run_cases("formula", [c], timeout=30, jobs=1, fatal_event=fatal_event)[0]
    out = vlib.validate("Trace_FormulaCell", "Trace_FormulaCell.cfg", events, chk.open_ids, "c09", chunk_events=1500)
    for ci, off, detail in out["mismatch"]:
        if detail.startswith('<<"gen"'):
            raise vlib.ToolError(f"generator and specification disagree (case {ci}): {detail[:300]}")
    chk.process_validation(out, allcases, events, "formula", describe)
    return events


def run(chk):
    vlib.tlc_mc("MC_FormulaGen", "MC_FormulaGen.cfg", workers=4, must_take=MUST_TAKE, check=chk)
    vlib.tlc_mc("MC_FormulaGen", "MC_FormulaGen_deep.cfg", workers=4, must_take=MUST_TAKE, check=chk)
    if chk.tier == "thorough":
        vlib.tlc_mc("MC_FormulaGen", "MC_FormulaGen_thorough.cfg", workers=4, timeout=7200, heap="12g", check=chk)
    cases, hcases = gen_cases(chk)
    events = judge(chk, cases, hcases)
    n_items = sum(len(c["items"]) for c in cases + hcases)
    chk.evaluations = n_items
    chk.nontrivial = {c["f"] for c in cases + hcases if len(c["toks"]) >= 2}
    chk.rule = ("a case is one formula (token list + text) with 5-7 coordinate changes (no change, (+1,+2), (-1,0), (0,-3), "
                "(+16383,0), two random ones for random formulas) through Cell::set_coordinate and one "
                "Worksheet::insert_new_row far below all references; and two workbook-level insert/remove edits of ANOTHER sheet at or before the "
                "formula's references (Spreadsheet::insert_new_row / insert_new_column_by_index / remove_row / "
                "remove_column_by_index); cases = every formula the TLC generator accepts within "
                "the bound plus seeded random formulas of depth <= 6; distinct = distinct formula texts, non-trivial = at "
                "least two tokens; evaluations = coordinate changes / inserts judged")
    chk.sample({"formula": cases[0]["f"], "items": events[0][0].get("items", [])[:3]})
    mid = len(cases) - 1
    chk.sample({"formula": cases[mid]["f"], "items": events[mid][0].get("items", [])[:3]})
    chk.assumptions += [
        "generation class: a formula contains at most one of {apostrophe-quoted sheet name, bracketed reference, trailing "
        "blank}; after an apostrophe-quoted reference only plain lexemes follow (no string, array, error literal, qualified or "
        "range reference); names never read as column+row; at most 4 optional blank runs per random formula",
        "bracketed references hang the tokenizer (C09-KF1): only a bounded sample of them is driven, each under a watchdog",
        "a sheet qualifier may be re-written in apostrophes; #REF! may keep or lose its qualifier (the statement fixes neither)",
    ]


def replay(chk, path):
    with open(path) as f:
        rp = json.load(f)
    c = rp["script"]
    if has_brk(c["toks"]):
        judge(chk, [], [c])
    else:
        judge(chk, [c])
