"""What MANIFEST.json claims.  Edit here, then run bin/mkmanifest."""
HOOK_COMMITS = ["aff287a"]

TRUST = "trusted: TLC and its Json module, the Rust driver's projection (public API calls only)"

CLAIMED = {
    "C17": {
        "domains": ["codec"],
        "text": "TLC checks the codec specification (odometer vs closed form, positional value, shortlex order) on all 18278 "
                "column names; every library call on all columns/names, on boundary+random (thorough: all 1048576) rows x "
                "boundary columns x lock combinations, four range shapes and legal sheet names - each string parsed into a fresh "
                "object and into one object reused for the whole batch - is recorded and validated by TLC against the same "
                "operators",
        "note": TRUST + ". Whole-row/column ranges are checked through structs::Range, not through helper::range "
                        "(whose contract excludes them).",
        "technique": "explicit TLA+ spec (Codec.tla) model-checked with TLC + TLC trace validation of recorded library calls",
    },
    "C07": {
        "domains": ["sheet"],
        "text": "TLC checks the reference grid (Sheet.tla) exhaustively on a 5x4 two-sheet model: coordinates stay in the "
                "grid, keys stay unique, other sheets are untouched, remove undoes insert, move/copy are exact. Every "
                "depth-1 behaviour of the model (both the workbook-level and the sheet-level entry point), TLC-simulated "
                "random histories of 25 operations and generated histories at the real grid limits are executed on the "
                "real library; after every operation the full public dump of every sheet must equal the specification's "
                "post-state (TLC trace validation).",
        "note": TRUST + ". Cells of the reference grid always carry a value, formulas used contain no references "
                        "(C08 covers reference shifting), one range per conditional format; only in-range arguments.",
        "technique": "explicit TLA+ spec (Sheet.tla) model-checked with TLC; TLC-generated behaviours replayed on the "
                     "library; recorded traces validated by TLC against the same actions",
    },
    "C12": {
        "domains": ["sst"],
        "text": "TLC checks SST.tla (workbook objects, clones, reloads, saves) for OnlyReachable / Decodes / SaveIsPure over all "
                "histories of 6 operations (thorough 7) and refutes the shared-table design; every TLC behaviour of depth 4 "
                "ending in a save plus seeded random histories (up to 8 workbook objects, both writers) run on the real "
                "library, every written package is searched part by part for every string of the universe by an "
                "independent decoder, and TLC validates each step against the specification.",
        "note": TRUST + ", pydec/sst_view.py (python zipfile + expat). Strings are four marker strings that occur nowhere "
                        "else in a package; text cells only in column A of two sheets.",
        "technique": "explicit TLA+ spec (SST.tla) model-checked with TLC; TLC-generated histories replayed on the library; "
                     "recorded traces validated by TLC",
    },
    "C16": {
        "domains": ["sst"],
        "text": "TLC checks ConcSave.tla (one action per linearisation point of make_buffer) over all interleavings of 2-3 "
                "savers for seven scenarios (string sets equal / disjoint / overlapping / one empty / three savers; a lazily "
                "reopened workbook with one or with no loaded sheet): own strings, part iff relationship, nothing foreign, "
                "termination; and refutes the shared-table design. Every complete interleaving (3 savers: simulated) is "
                "executed as a schedule on real threads calling write_writer / xlsx::write, released yield point by yield "
                "point through the cfg(umya_verif) hooks; in addition free-running threads (no scheduler; shared references, "
                "clones, unrelated and lazily loaded workbooks with thousands of cells over few labels, several rounds) "
                "exercise interleavings below the yield points; TLC judges every decoded output file by the property's "
                "predicates (control-point deviations are notes).",
        "note": TRUST + ", pydec/sst_view.py, the cooperative scheduler of harness/src/bin/sst.rs. Granularity = the hook's "
                        "yield points for the exhaustive part; interleavings inside one step are only sampled by the free-running cases "
                        "(whose replay is not deterministic).",
        "technique": "explicit TLA+ spec (ConcSave.tla) model-checked with TLC (safety + liveness); TLC-enumerated schedules "
                     "replayed on real threads via source hooks; traces validated by TLC",
    },
    "C14": {
        "domains": ["agile"],
        "text": "TLC checks on a symbolic (free-algebra) model that the standard's decryptor program inverts what the library "
                "writes for all boundary sizes (0..8193): a different password fails the verifier, any change to the stream "
                "including its length prefix breaks the HMAC, the segment layout is as specified, random values never repeat. "
                "The same TLC-printed program is then evaluated on real compound files written via write_with_password, "
                "write_with_password_light and set_password (empty/ASCII/non-BMP/255-character passwords, sizes around "
                "multiples of 16 and 4096); TLC validates each save for verifier match, HMAC, declared length, byte-equal "
                "package, rejection of near-miss passwords, and freshness of the five random values across the trace.",
        "note": TRUST + ", hashlib/hmac, OpenSSL AES (self-checked against NIST SP 800-38A and the repository's pinned "
                        "vectors), the pydec CFB and EncryptionInfo parsers. Free-algebra assumption for H/Enc/Hmac; freshness is "
                        "distinctness, not unpredictability. The \\x06DataSpaces storage is not part of the statement.",
        "technique": "symbolic (Dolev-Yao) TLA+ model checked with TLC + TLC trace validation of files decrypted by a "
                     "spec-driven independent decryptor",
    },
    "C13": {
        "domains": ["saveatomic"],
        "text": "TLC checks the save protocol (SaveAtomic.tla) for every chunking of 1..3 (thorough 1..4) chunks around the "
                "buffer, every result (ok / short by any amount / error) of every system call and a kill in every state: the "
                "destination is always the complete old or complete new file, Ok implies complete new, no panic, a failing "
                "writer's error is returned; three deviant designs (errors dropped with the writer, unwrap, in-place write) "
                "must violate it. Every save of the real library (xlsx, light, csv, write_with_password(_light), "
                "set_password) runs in a child process under strace with real faults (RLIMIT_FSIZE at byte k around "
                "4096/8192/file size, injected errors at every write/rename/unlink/close index, unwritable directory, SIGKILL "
                "before every system call, thorough: at random instants; failing io::Write sinks at every call index with and "
                "without partial writes); TLC replays the disk from the system-call log with the specification's own "
                "operators, evaluates NeverTorn after every call and AllOrNothing/ErrorNotPanic at return, and the replayed "
                "disk must equal the real directory.",
        "note": TRUST + ", strace's log and fault injection, the kernel's RLIMIT_FSIZE, pydec/strace_events.py (projection), "
                        "pydec/pwfile_check.py + pydec/cfb.py (classification of password-protected files). Crash model = process "
                        "kill (no fsync demanded). 'Complete new' = every byte a fault-free save writes. Only the property's "
                        "predicates are judged, not which calls the library makes.",
        "technique": "explicit TLA+ spec model-checked with TLC (all fault sequences and crash points); TLC-enumerated fault "
                     "plans realised with RLIMIT_FSIZE / strace injection / SIGKILL on child processes; syscall traces "
                     "validated by TLC",
    },
    "C15": {
        "domains": ["pwdhash"],
        "text": "TLC checks PwdHash.tla exhaustively: the spin loop equals the standard's recursion and the closed verifier "
                "term; a verifier verifies its own password and no other; salts are fresh; the legacy attribute is removed; no "
                "password atom is exposed; everything survives save/load. The same verifier term, emitted by TLC as JSON, is "
                "evaluated with real SHA-512 for every recorded set_password / set_workbook_password / set_revisions_password "
                "call and for every saved file; TLC judges each event (hash reproduces for the password and not for "
                "near-variants, salt never seen before incl. across processes, legacy attribute absent, clear password absent "
                "from every part, verifier after eager and lazy reload equals the one set) for empty/ASCII/XML-special/"
                "non-BMP/255..1000-character/random Unicode passwords, both writers, new workbooks and protected corpus files.",
        "note": TRUST + ", hashlib/base64/UTF-16 codecs, the term evaluator pydec/pwdhash_eval.py (sanity-checked in every run "
                        "against three verifiers Excel wrote for 'password' in the corpus), zipfile + expat. 'Any other password' is "
                        "sampled (2-3 near-variants per call). The empty password is not searched for as clear text.",
        "technique": "symbolic TLA+ model of the hash (free term algebra) checked by TLC + TLC trace validation with "
                     "spec-emitted terms evaluated by hashlib",
    },
    "C20": {
        "domains": ["csv"],
        "text": "TLC checks on every sheet of the bounded scopes that the intended writer, fed character by character into an "
                "RFC-4180 reader, yields exactly Grid(active sheet, options) in every intermediate and final state (up to 3 "
                "cells in 3x3 windows, 10 value classes, every text of length <= 3 over {a , \" ' CR LF SP}, 3 sheets), for all "
                "trim x wrap options and all 10 encodings as symbolic terms; the unescaped writer must be refuted. The real "
                "write_writer is driven on every TLC-enumerated history, on boundary sheets per encoding and on seeded random "
                "sheets; its bytes are decoded with the selected encoding and read as CSV; TLC compares the grid read back "
                "with the grid the specification computes from the workbook and options.",
        "note": TRUST + ", Python's codecs as the definition of each encoding, pydec/csvparse.py (re-checked against the "
                        "specification's reader by TLC on every export). Texts use ASCII plus mainstream letters of the encoding's "
                        "script. Reader conventions: delimiter ',', quote = wrap character (none: quoting disabled), CRLF/CR/LF "
                        "end a record, an empty line is one record with one empty field. 'used' = cell with non-empty value text.",
        "technique": "explicit TLA+ spec (Csv.tla: writer/reader state machine) model-checked with TLC + TLC trace validation "
                     "of recorded write_writer exports",
    },
    "C18": {
        "domains": ["dateserial"],
        "text": "TLC checks a calendar clock (Gregorian successor rule; serial +1 per day, +2 across the phantom 1900-02-29) "
                "against the closed-form day count and its inverse, inductively year by year (quick 501 years incl. a full "
                "400-year cycle and both ends, thorough all 8100). Every one of the 2,958,464 days 1900-01-01..9999-12-31 is "
                "converted by convert_date / convert_date_windows_1900 and back by excel_to_date_time_object (quick: one time of "
                "day per year rotating over 7 boundary/random times; thorough: 00:00:00, 12:00:00, 23:59:59 + a random time), "
                "every second of 3 (thorough 14) representative days, and the displayed text of a yyyy-mm-dd hh:mm:ss cell for "
                "a subset; every observation is judged by TLC: exact day number, day fraction within 2^-13 s, exact round trip "
                "to the second, strictly increasing serials, exact display string.",
        "note": TRUST + ". The returned f64 is re-encoded losslessly by the driver (floor + 52 fraction bits as 4 base-2^13 "
                        "digits) because TLC has 32-bit integers and its Json reader truncates floats. 'Gives the value' is read "
                        "for a double as exact integer part and fraction within 2^-13 s. Display is checked only for "
                        "'yyyy-mm-dd hh:mm:ss'. Serial 60 and serials < 1 are outside the property.",
        "technique": "explicit TLA+ spec (DateSerial.tla) model-checked with TLC + TLC trace validation of recorded library calls",
    },
    "C19": {
        "domains": ["numfmt"],
        "text": "TLC checks NumFmt.tla (digit-level RoundHalfAway with carry into the integer part, x100 point shift, Group3, "
                "Fmt) against integer arithmetic - floor(|x|*10^k+1/2), monotonicity, half-unit error, comma positions, text "
                "shape - on every number with <= 2 integer and <= 3 (thorough 4) fraction digits for 0..4 (thorough 6) "
                "decimals. Every recorded call of to_formatted_string, Cell::get_formatted_value and "
                "Worksheet::get_formatted_value on ~20k (thorough ~300k) boundary-biased (number, pattern) pairs, on General "
                "numbers/text and on every built-in id x finite f64 (incl. random bit patterns) is validated by TLC against "
                "the same operators. Findings are modelled as the exact function the pinned code computed, so any other "
                "change of behaviour, inside or outside the defect regions, is still a VIOLATION.",
        "note": TRUST + ". Numbers are driven in their shortest decimal form (driver checks s == parse(s).to_string(), TLC "
                        "requires the flag). A negative value that rounds to zero keeps its sign; negative zero itself is not "
                        "driven under patterns.",
        "technique": "explicit TLA+ spec (NumFmt.tla: decimal odometer + digit-sequence rounding) model-checked with TLC + TLC "
                     "trace validation of recorded library calls",
    },
    "C01": {
        "domains": ["workbook"],
        "text": "TLC checks a two-step model of saving (Serialize: t= attribute and payload per value kind, content interning "
                "into the string table, rows ascending; Deserialize: t/payload/index/formula back to a typed value) "
                "exhaustively on bounded workbooks: reload = exactly the non-blank cells (RoundTrip, Stable), interning "
                "injective, indexes in range, other sheets untouched. Every history of two edits + save of the model (both "
                "writers), TLC-simulated 14-step histories with intermediate saves, boundary workbooks holding every value "
                "class with/without formula, and seeded random workbooks (arbitrary Unicode of all planes, arbitrary finite f64 "
                "bit patterns, random formulas, positions up to XFD1048576) are built through the public API, saved in memory "
                "with write_writer/write_writer_light and reloaded with read_reader(..,true); TLC validates that each reload "
                "logs exactly NormWb(sheets) (kind, value text, number bits, formula per cell).",
        "note": TRUST + ". Blank cells are compared on neither side; styles, hyperlinks and the runs/fonts of rich text are "
                        "outside the projection; number identity is bit identity; NaN, infinities and Lazy values are not generated.",
        "technique": "explicit TLA+ spec (Workbook.tla) model-checked with TLC; TLC-generated and random behaviours replayed on "
                     "the library; recorded traces validated by TLC against the same operators",
    },
    "C05": {
        "domains": ["styles"],
        "text": "TLC checks Styles.tla (font/fill/border/numFmt tables, cellXfs, Intern = whole-style lookup then per-component "
                "lookup by key then append, Reconstruct honouring apply*, column groups merged on save and expanded on load) for "
                "Faithful, DimsKept, NoMerge, NoGrowth on every workbook of <= 2 carriers over a palette of one-attribute "
                "variants, partial styles and key-adjacent fonts through save, reload, save, reload, and refutes the design "
                "whose font key is written without separators; with two workbook objects and an Import action (a Style read from "
                "one loaded file assigned in another, number formats carrying their file ids) in every interleaving with both "
                "workbooks' saves and reloads, refuting the design that trusts a format's id. Behaviours of the bounded model, "
                "TLC-simulated one- and two-workbook histories and "
                "seeded random workbooks with 1..600 distinct styles are run on the real library; after every assignment, "
                "save and reload the effective formatting and dimensions of every cell, row and column read through the public "
                "getters must equal the specification's post-state, and the table sizes of consecutive saves (independent "
                "decoder) must not grow (TLC trace validation).",
        "note": TRUST + ", pydec/styles_view.py. One worksheet; absent components read as the workbook default; colours compared "
                        "as (argb, theme, tint); font family/charset/vertAlign and gradient fills are not varied.",
        "technique": "explicit TLA+ spec (Styles.tla) model-checked with TLC; TLC-generated behaviours replayed on the library; "
                     "recorded traces validated by TLC with exact deviation models for open findings",
    },
    "C06": {
        "domains": ["annot"],
        "text": "TLC checks on Annot.tla that SaveLoad leaves every annotation kind on its sheet and cell, the sheet list "
                "unchanged and defined names homed by localSheetId or address, for every enumeration order of hyperlinks and "
                "authors on small pools, and refutes the same property for the design with two independently seeded hyperlink "
                "enumerations. TLC-generated histories (every 2-operation path then a save, simulated 40-operation histories) "
                "and generated workbooks (up to 60 items per kind and sheet, XML-special and non-ASCII texts, several sheets) "
                "run on the real library; Trace_Annot.tla judges the getter view after reload and an independent decoder's "
                "view of the written hyperlinks, merges, defined names and sheet list. Link-heavy cases are repeated in fresh "
                "driver processes (hash seeds differ per process). Code names and macro payloads crossed with tab colours, "
                "multi-run comments with white space at run edges, padded tooltips/prompts/authors and sheets with 3-6 "
                "distinct mixed-case authors (every order by TLC on a small pool) are part of every run.",
        "note": TRUST + ", pydec/annot_view.py. Collections compared as sets plus a no-duplicate check. Model contract: one "
                        "comment per cell, distinct names, a sheet is renamed only while it keeps no names. Tooltips are not "
                        "generated.",
        "technique": "explicit TLA+ spec (Annot.tla) model-checked with TLC, deviant design refuted; trace validation of real "
                     "save+reload runs with an independent file decoder",
    },
    "C08": {
        "domains": ["formula"],
        "text": "TLC checks a three-sheet workbook model (MC_Formula.tla: generated formulas, defined names on sheets and at "
                "workbook level, chart series) under insert/remove of rows/columns on any sheet: every reference designates "
                "exactly the moved target cells (stated on sets of grid cells, independently of the index arithmetic), becomes "
                "#REF! iff all targets were deleted, everything else is unchanged. All depth-1 behaviours of the model "
                "(thorough: depth 2), fixed exemplars and 1500 (thorough 40000) random workbooks with formulas of depth <= 4 "
                "(6) and histories of 1-4 edits at references and grid limits are run through Spreadsheet::insert_new_row / "
                "insert_new_column_by_index / remove_row / remove_column_by_index; after every edit Cell::get_formula, "
                "DefinedName::get_address and chart series addresses (every chart kind of a combination chart) of all sheets are "
                "judged by TLC; intersections with function-call / parenthesised / name operands, and workbooks that were saved "
                "and re-read with shared-formula groups (members = the master translated by the specification) are included.",
        "note": TRUST + ". In-range edits only. After a deviation whose result is no longer a token list, or a panic half-way "
                        "through an edit, the rest of that case is not judged. At most one chart per sheet; a chart may vanish "
                        "with its anchor rows.",
        "technique": "explicit TLA+ spec (Formula.tla) model-checked with TLC; TLC-generated behaviours replayed on the library; "
                     "TLC trace validation with exact deviation models",
    },
    "C09": {
        "domains": ["formula"],
        "text": "TLC checks the push-down formula generator (FormulaGen.tla): every accepted formula is well-formed by an "
                "independent characterisation, translation by (0,0) is the identity, only non-$ parts move, #REF! exactly when "
                "a part leaves the grid. Every formula TLC accepts within the bound (<= 3 tokens over a 34-operand palette, <= 5 "
                "over a small one; thorough <= 4 and <= 6) plus 4000 (thorough 100000) seeded random formulas of depth <= 6 is "
                "given to the real Cell::set_formula / set_coordinate / get_formula for 5-7 coordinate changes and to "
                "Worksheet::insert_new_row far below all references; TLC accepts the text read back only if it is an "
                "acceptable rendering of the translated token list, or exactly what the model of an open known finding computes.",
        "note": TRUST + ". At most one of {quoted sheet name, bracketed reference, trailing blank} per formula; hanging bracket "
                        "formulas are driven as a bounded sample under a watchdog; a qualifier may be re-quoted.",
        "technique": "explicit TLA+ spec (Formula.tla / FormulaGen.tla) model-checked with TLC; TLC-generated formulas replayed "
                     "on the library; TLC trace validation with exact deviation models",
    },
    "C10": {
        "domains": ["cellstore"],
        "text": "TLC checks the cell store in its real representation (hash map with a per-cell copy of the coordinate, two "
                "ordered indexes, row table, column table; every public operation written as the code's sub-updates) on all "
                "operation sequences over a 3x3 window (quick: depth 2 full pools, depth 3 lean; thorough: depth 3 full, "
                "depth 4 lean): Coherent, QueriesAgree, AllEmitted through a model of the writer's row loop, InGrid, refinement "
                "of the reference grid. Every depth-1 behaviour (initial sheets partly saved and reloaded first), "
                "TLC-simulated random histories of 1..60 operations and generated histories at the real grid limits are run on "
                "the library; after every operation every query API the property names and the <c r=..> references of an "
                "in-memory save are recorded; TLC accepts a step only if each query equals its brute-force definition over the "
                "specification's own cell set, every cell's row is known, and the saved references contain every cell with "
                "content exactly once and nothing else (content-free cells may be omitted by the writer).",
        "note": TRUST + ", pydec/cellrefs.py. Only in-range arguments; set_style_by_range with cell ranges only (the library's "
                        "own assertion rejects 1:3 / A:B). Cells carry plain text values and one of three styles.",
        "technique": "explicit TLA+ spec (CellStore.tla) model-checked with TLC; TLC-generated and TLC-simulated behaviours "
                     "replayed on the library; recorded traces validated by TLC against the same Post operators",
    },
    "C02": {
        "domains": ["package"],
        "text": "TLC checks the design of the writer (Package.tla: SavePkg = fixed parts, one sheet part per position, per-sheet "
                "objects with first-free numbering and first-writer-wins, shared strings/styles interning, two rId passes) on all "
                "workbooks of a bounded model (<=3 sheets; external/internal hyperlinks, comments, tables, images, charts, "
                "conditional formats, macro payload, removed/renamed sheets) for every hyperlink enumeration order: PackageOK and "
                "DecodedEqualsModel hold, and the two-independent-orders variant is shown to break them. Every behaviour of the "
                "model, TLC-simulated 40-step histories, seeded random workbooks and every corpus file re-saved (both writers, "
                "and once more after API edits) are executed on the library; the written bytes are decoded by an independent "
                "zipfile+expat reader and TLC evaluates the validity clauses (content types, relationships, r:id resolution and "
                "type, unique ids/names, CT_Worksheet child order, row/cell order and range, style/sst/dxf/xf indices, "
                "activeTab; every cfRule has a dxfId iff its rule has a style, inside <dxfs>, and the designated entry carries "
                "the rule's formatting) on the logged package and compares decoded cells, formulas, hyperlinks, merges, "
                "defined names and sheet list with its own state.",
        "note": TRUST + ", pydec/xlsx.py (zip CRC by zipfile, well-formedness/legal characters by expat), and three string "
                        "functions TLC cannot compute (XML line-end normalisation, ST_Xstring unescaping, XML Char legality) passed "
                        "as facts bound to model cells. Styled blank cells are not content; charts only on plainly named sheets; "
                        "lazy-loaded workbooks are left to C11.",
        "technique": "explicit TLA+ spec (Package.tla) model-checked with TLC; TLC-generated behaviours replayed on the library; "
                     "written files decoded independently and validated by TLC against the same operators",
    },
    "C03": {
        "domains": ["decode"],
        "text": "TLC checks the decoding specification (Decode.tla) on every file model the GenFile state machine can build "
                "within the bounds: every valid encoding decodes, the kind depends only on t= and <v>/<is>, a shared-string cell "
                "means what the same inline item means, the master of a shared formula is first in document order, a child's "
                "formula is Formula!Translate of the master's. Every finished file model (about 7600 enumerated, 1500 "
                "TLC-simulated, one per open finding, 300 seeded random ones; thorough about 39000) is written by an "
                "independent writer, and every readable corpus file is taken as it is; each is loaded by "
                "reader::xlsx::read_reader and dumped through public getters; raw encodings are extracted by the independent "
                "pydec reader, and TLC accepts a cell only if value, kind, formula and number format are exactly what the "
                "specification decodes, or exactly what the model of an open finding computes. Sheet names, hyperlink "
                "targets/locations, table columns and defined-name names are compared as attribute values. Cell positions "
                "(optional r= on rows and cells), ST_Xstring escapes (_xHHHH_ over UTF-16 units) and the number-format "
                "resolution (a declared code wins for any id, else the ECMA built-in) are derived by the specification itself; "
                "the per-cell format is read a second time after one in-memory save.",
        "note": TRUST + ", pydec/xlsx.py + pydec/decode_extract.py + pydec/build_xlsx.py. Decimal text to double, ST_Xstring "
                        "unescaping, XML parsing and white-space trimming happen in pydec outside TLC; outer white space of "
                        "<t> runs not protected by xml:space=preserve (everything else of such a run is judged), applyNumberFormat=0 and builtin formats outside ECMA-376 18.8.30 are not "
                        "judged; formula texts may differ in optional blanks.",
        "technique": "explicit TLA+ spec (Decode.tla + Formula.tla) model-checked with TLC; TLC-generated file models written to "
                     "bytes and loaded by the library; TLC trace validation with exact deviation models",
    },
    "C04": {
        "domains": ["resave"],
        "text": "TLC checks on a bounded family of original files (foreign files with their own cell format 0, duplicate formats, "
                "blank cells with/without style, unused shared strings, default and custom rows, unmodelled parts, library-made "
                "files) that generation 2 is a fixed point, generation 1 equals the original up to Norm (spelled out in TLA+), "
                "an edit changes exactly one cell, two saves of one workbook agree; and that Esc/Unesc text channels are "
                "drift-free (refuting 'write Esc, read Id', a writer that drops styled blank cells and a non-escaping writer). "
                "The same operators judge the real library on every readable corpus file, on API-generated workbooks with "
                "XML-special / non-ASCII / three-level entity text in every text channel and on files built from TLC's "
                "behaviours: load -> (save -> load) x 3, a second save, and 3 more generations after each single-cell edit; each "
                "generation logs the full public-getter projection plus the independent decoder's part list and string inventory. "
                "Originals the library did not write (built by the check's own writer: rows and columns without cells, equal "
                "non-adjacent columns, number formats declared under ids below 164, ST_Xstring look-alikes in every string "
                "carrier) are part of every run, since a writer defect cannot show on an original the same writer produced; "
                "deviant designs (forgets-hidden, folding columns over gaps, off-by-one escape) are refuted by TLC.",
        "note": TRUST + ", pydec/xlsx.py. Styles are compared through a digest of the effective style; cell format 0 of a foreign "
                        "file is identified as the one digest of the original that no longer occurs after the first save; parts "
                        "are compared by name and content type, strings as a multiset.",
        "technique": "explicit TLA+ specs (Resave.tla, Channels.tla) model-checked with TLC, deviant designs refuted; trace "
                     "validation of load/save generations on corpus, generated and TLC-built files",
    },
    "C11": {
        "domains": ["lazy"],
        "text": "TLC checks Lazy.tla (a save modelled at the level of part names: writer order, first writer of a name wins) for "
                "lazy = eager, valid file, unedited sheets kept, edits present and a save that always works, over every history "
                "within the bounds of 1 edit (thorough: 2), one new sheet, one removal and one rename on 38 file shapes including "
                "files whose sheet parts are not numbered in workbook order, and refutes three deviant designs (the recorded "
                "findings). TLC-enumerated paths and TLC-simulated histories run on a lazily opened workbook and on its eagerly "
                "opened twin, on generated files, on generated files re-ordered against their part numbers and on multi-sheet "
                "corpus files; after every step every materialised sheet must show the twin's view (18 aspect digests); every "
                "written file is decoded by an independent package validator and reloaded eagerly, and TLC judges each step.",
        "note": TRUST + ", pydec/lazy_view.py, Debug renderings of public getter results as digests. A sheet still raw when saved "
                        "must read back exactly like the original; a materialised sheet and the defined names are compared with "
                        "the file the eager twin writes after the same history (losses of the eager save/load cycle belong to "
                        "C01/C05/C06). Saves where the eager twin itself cannot be saved and reloaded are not judged (counted in "
                        "the evidence). Histories never remove or rename a sheet that a chart of another sheet takes its data from.",
        "technique": "explicit TLA+ spec (Lazy.tla) model-checked with TLC, three deviant designs refuted; TLC-generated and "
                     "TLC-simulated histories replayed on the library (lazy workbook + eager twin); recorded traces validated by TLC",
    },
}

NOT_CLAIMED = {}
