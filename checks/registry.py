"""What MANIFEST.json claims.  Edit here, then run bin/mkmanifest."""
HOOK_COMMITS = []

TRUST = "trusted: TLC and its Json module, the Rust driver's projection (public API calls only)"

CLAIMED = {
    "C17": {
        "domains": ["codec"],
        "text": "TLC checks the codec specification (odometer vs closed form, positional value, shortlex order) on all 18278 "
                "column names; every library call on all columns/names, on boundary+random (thorough: all 1048576) rows x "
                "boundary columns x lock combinations, four range shapes and legal sheet names is recorded and validated by "
                "TLC against the same operators",
        "note": TRUST + ". Whole-row/column ranges are checked through structs::Range, not through helper::range "
                        "(whose contract excludes them).",
        "technique": "explicit TLA+ spec (Codec.tla) model-checked with TLC + TLC trace validation of recorded library calls",
    },
    "C07": {
        "domains": ["sheet"],
        "text": "TLC checks the reference grid (Sheet.tla) exhaustively on a 5x4 two-sheet model: coordinates stay in the "
                "grid, keys stay unique, other sheets are untouched, remove undoes insert, move/copy are exact. Every "
                "depth-1 behaviour of the model (both the workbook-level and the sheet-level entry point), TLC-simulated "
                "random histories of 25 operations and generated histories at the real grid limits are executed on the "
                "real library; after every operation the full public dump of every sheet must equal the specification's "
                "post-state (TLC trace validation).",
        "note": TRUST + ". Cells of the reference grid always carry a value, formulas used contain no references "
                        "(C08 covers reference shifting), one range per conditional format; only in-range arguments.",
        "technique": "explicit TLA+ spec (Sheet.tla) model-checked with TLC; TLC-generated behaviours replayed on the "
                     "library; recorded traces validated by TLC against the same actions",
    },
}

NOT_CLAIMED = {}
