"""What MANIFEST.json claims.  Edit here, then run bin/mkmanifest."""
HOOK_COMMITS = ["aff287a"]

TRUST = "trusted: TLC and its Json module, the Rust driver's projection (public API calls only)"

CLAIMED = {
    "C17": {
        "domains": ["codec"],
        "text": "TLC checks the codec specification (odometer vs closed form, positional value, shortlex order) on all 18278 "
                "column names; every library call on all columns/names, on boundary+random (thorough: all 1048576) rows x "
                "boundary columns x lock combinations, four range shapes and legal sheet names is recorded and validated by "
                "TLC against the same operators",
        "note": TRUST + ". Whole-row/column ranges are checked through structs::Range, not through helper::range "
                        "(whose contract excludes them).",
        "technique": "explicit TLA+ spec (Codec.tla) model-checked with TLC + TLC trace validation of recorded library calls",
    },
    "C07": {
        "domains": ["sheet"],
        "text": "TLC checks the reference grid (Sheet.tla) exhaustively on a 5x4 two-sheet model: coordinates stay in the "
                "grid, keys stay unique, other sheets are untouched, remove undoes insert, move/copy are exact. Every "
                "depth-1 behaviour of the model (both the workbook-level and the sheet-level entry point), TLC-simulated "
                "random histories of 25 operations and generated histories at the real grid limits are executed on the "
                "real library; after every operation the full public dump of every sheet must equal the specification's "
                "post-state (TLC trace validation).",
        "note": TRUST + ". Cells of the reference grid always carry a value, formulas used contain no references "
                        "(C08 covers reference shifting), one range per conditional format; only in-range arguments.",
        "technique": "explicit TLA+ spec (Sheet.tla) model-checked with TLC; TLC-generated behaviours replayed on the "
                     "library; recorded traces validated by TLC against the same actions",
    },
    "C12": {
        "domains": ["sst"],
        "text": "TLC checks SST.tla (workbook objects, clones, reloads, saves) for OnlyReachable / Decodes / SaveIsPure over all "
                "histories of 6 operations (thorough 7) and refutes the shared-table design; every TLC behaviour of depth 4 "
                "ending in a save plus seeded random histories (up to 8 workbook objects, both writers) run on the real "
                "library, every written package is searched part by part for every string of the universe by an "
                "independent decoder, and TLC validates each step against the specification.",
        "note": TRUST + ", pydec/sst_view.py (python zipfile + expat). Strings are four marker strings that occur nowhere "
                        "else in a package; text cells only in column A of two sheets.",
        "technique": "explicit TLA+ spec (SST.tla) model-checked with TLC; TLC-generated histories replayed on the library; "
                     "recorded traces validated by TLC",
    },
    "C16": {
        "domains": ["sst"],
        "text": "TLC checks ConcSave.tla (one action per linearisation point of make_buffer) over all interleavings of 2-3 "
                "savers for five string-set scenarios: own strings, part iff relationship, nothing foreign, termination; "
                "and refutes the shared-table design. Every complete interleaving (3 savers: simulated) is executed as a "
                "schedule on real threads calling write_writer, released yield point by yield point through the "
                "cfg(umya_verif) hooks; TLC validates each step's control point and the decoded output files.",
        "note": TRUST + ", pydec/sst_view.py, the cooperative scheduler of harness/src/bin/sst.rs. Granularity = the hook's "
                        "yield points; code between two yield points is assumed not to touch state shared between savers.",
        "technique": "explicit TLA+ spec (ConcSave.tla) model-checked with TLC (safety + liveness); TLC-enumerated schedules "
                     "replayed on real threads via source hooks; traces validated by TLC",
    },
    "C14": {
        "domains": ["agile"],
        "text": "TLC checks on a symbolic (free-algebra) model that the standard's decryptor program inverts what the library "
                "writes for all boundary sizes (0..8193): a different password fails the verifier, any change to the stream "
                "including its length prefix breaks the HMAC, the segment layout is as specified, random values never repeat. "
                "The same TLC-printed program is then evaluated on real compound files written via write_with_password, "
                "write_with_password_light and set_password (empty/ASCII/non-BMP/255-character passwords, sizes around "
                "multiples of 16 and 4096); TLC validates each save for verifier match, HMAC, declared length, byte-equal "
                "package, rejection of near-miss passwords, and freshness of the five random values across the trace.",
        "note": TRUST + ", hashlib/hmac, OpenSSL AES (self-checked against NIST SP 800-38A and the repository's pinned "
                        "vectors), the pydec CFB and EncryptionInfo parsers. Free-algebra assumption for H/Enc/Hmac; freshness is "
                        "distinctness, not unpredictability. The \\x06DataSpaces storage is not part of the statement.",
        "technique": "symbolic (Dolev-Yao) TLA+ model checked with TLC + TLC trace validation of files decrypted by a "
                     "spec-driven independent decryptor",
    },
}

NOT_CLAIMED = {}
