"""What MANIFEST.json claims.  Edit here, then run bin/mkmanifest."""
HOOK_COMMITS = []

TRUST = "trusted: TLC and its Json module, the Rust driver's projection (public API calls only)"

CLAIMED = {
    "C17": {
        "domains": ["codec"],
        "text": "TLC checks the codec specification (odometer vs closed form, positional value, shortlex order) on all 18278 "
                "column names; every library call on all columns/names, on boundary+random (thorough: all 1048576) rows x "
                "boundary columns x lock combinations, four range shapes and legal sheet names is recorded and validated by "
                "TLC against the same operators",
        "note": TRUST + ". Whole-row/column ranges are checked through structs::Range, not through helper::range "
                        "(whose contract excludes them).",
        "technique": "explicit TLA+ spec (Codec.tla) model-checked with TLC + TLC trace validation of recorded library calls",
    },
}

NOT_CLAIMED = {}
