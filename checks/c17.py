"""C17 - coordinate, column, range and address codecs are exact inverses grid-wide.

Spec: spec/Codec.tla (odometer state machine + closed-form printers), MC_Codec.cfg.
Conformance: spec/Trace_Codec.tla judges every recorded call of the library.
"""
import json
import vlib

MAXCOL, MAXROW, LASTNAME = 16384, 1048576, 18278
A = "ABCDEFGHIJKLMNOPQRSTUVWXYZ"


def colname(n):               # generator-side rendering; Trace_Codec checks it against ColName ("gen")
    s = ""
    while n > 0:
        n, r = divmod(n - 1, 26)
        s = A[r] + s
    return s


def coord(c, r, lc, lr):
    return ("$" if lc else "") + colname(c) + ("$" if lr else "") + str(r)


def rangestr(g):
    k = g["k"]
    if k == "cell":
        return coord(g["c1"], g["r1"], g["lc1"], g["lr1"])
    if k == "rect":
        return coord(g["c1"], g["r1"], g["lc1"], g["lr1"]) + ":" + coord(g["c2"], g["r2"], g["lc2"], g["lr2"])
    if k == "rows":
        return ("$" if g["lr1"] else "") + str(g["r1"]) + ":" + ("$" if g["lr2"] else "") + str(g["r2"])
    return ("$" if g["lc1"] else "") + colname(g["c1"]) + ":" + ("$" if g["lc2"] else "") + colname(g["c2"])


BCOLS = [1, 2, 25, 26, 27, 28, 51, 52, 53, 701, 702, 703, 704, 728, 729, 1378, 1379, 16383, 16384]
BROWS = sorted(set([1, 2, 9, 10, 11, 99, 100, 101, 999, 1000, 1001, 9999, 10000, 10001, 65535, 65536, 65537,
                    99999, 100000, 100001, 999999, 1000000, 1000001, 1048575, 1048576]))
LOCKS = [(False, False), (True, False), (False, True), (True, True)]

# legal sheet-name alphabet (Excel forbids : \ / ? * [ ] and a leading/trailing apostrophe)
NAME_CHARS = list("abzAZ09 _-.!\"'&<>,;()+=#%@~{}$^") + ["é", "ß", "日", "本", "\U0001F600",
                                                         "　", "Ж"]


def gen_cases(chk):
    rng = chk.rng
    cases = []
    # every column index 1..16384 and every 1-3 letter name up to ZZZ (18278)
    B = 512
    for f in range(1, LASTNAME + 1, B):
        k = min(B, LASTNAME - f + 1)
        cases.append({"a": "cols", "from": f, "sn": [colname(f + j) for j in range(k)]})
    # coordinates
    items = []
    if chk.tier == "quick":
        rows = list(BROWS) + [rng.randint(1, MAXROW) for _ in range(3000)]
        for r in rows:
            for c in (BCOLS if r in BROWS else rng.sample(BCOLS, 3) + [rng.randint(1, MAXCOL)]):
                for lc, lr in LOCKS:
                    items.append((c, r, lc, lr))
        for c in range(1, MAXCOL + 1):      # every column with a boundary row
            lc, lr = LOCKS[c % 4]
            items.append((c, BROWS[c % len(BROWS)], lc, lr))
    else:
        cols6 = [1, 26, 27, 702, 703, 16384]
        for r in range(1, MAXROW + 1):
            c = cols6[r % 6]
            for lc, lr in LOCKS:
                items.append((c, r, lc, lr))
            items.append((cols6[(r + 1) % 6], r, bool(r & 1), bool(r & 2)))
        for r in BROWS:
            for c in range(1, MAXCOL + 1):
                items.append((c, r, bool(c & 1), bool(c & 2)))
    for i in range(0, len(items), B):
        cases.append({"a": "coords", "items": [{"c": c, "r": r, "lc": lc, "lr": lr, "s": coord(c, r, lc, lr)}
                                               for c, r, lc, lr in items[i:i + B]]})
    chk.extra["coordinates_checked"] = len(items)
    # ranges: all four shapes
    ritems = []

    def corner_pairs(vals, k):
        out = []
        for _ in range(k):
            a, b = rng.choice(vals), rng.choice(vals)
            out.append((min(a, b), max(a, b)))
        return out
    nr = 1500 if chk.tier == "quick" else 40000
    rowvals = BROWS + [rng.randint(1, MAXROW) for _ in range(50)]
    colvals = BCOLS + [rng.randint(1, MAXCOL) for _ in range(50)]
    for (r1, r2), (c1, c2) in zip(corner_pairs(rowvals, nr), corner_pairs(colvals, nr)):
        l = [rng.random() < 0.4 for _ in range(4)]
        ritems.append({"k": "rect", "c1": c1, "r1": r1, "lc1": l[0], "lr1": l[1], "c2": c2, "r2": r2, "lc2": l[2],
                       "lr2": l[3]})
        ritems.append({"k": "cell", "c1": c1, "r1": r2, "lc1": l[0], "lr1": l[1]})
        ritems.append({"k": "rows", "r1": r1, "lr1": l[1], "r2": r2, "lr2": l[3]})
        ritems.append({"k": "cols", "c1": c1, "lc1": l[0], "c2": c2, "lc2": l[2]})
    for i in range(0, len(ritems), B):
        cases.append({"a": "ranges", "items": [{"g": g, "s": rangestr(g)} for g in ritems[i:i + B]]})
    chk.extra["ranges_checked"] = len(ritems)
    # addresses: all names of length <= 2 over the alphabet, then random names up to 31 characters
    names = []
    for a in NAME_CHARS:
        if a != "'":
            names.append([a])
        for b in NAME_CHARS:
            if a != "'" and b != "'":
                names.append([a, b])
    na = 3000 if chk.tier == "quick" else 60000
    for _ in range(na):
        n = rng.choice([3, 4, 5, 8, 16, 30, 31, rng.randint(3, 31)])
        nm = [rng.choice(NAME_CHARS) for _ in range(n)]
        if nm[0] == "'":
            nm[0] = "x"
        if nm[-1] == "'":
            nm[-1] = "x"
        names.append(nm)
    aitems = []
    for nm in names:
        g = rng.choice(ritems)
        aitems.append({"chars": nm, "name": "".join(nm), "rng": rangestr(g)})
    for i in range(0, len(aitems), B):
        cases.append({"a": "addrs", "items": aitems[i:i + B]})
    chk.extra["addresses_checked"] = len(aitems)
    for i, c in enumerate(cases):
        c["case"] = i
    return cases


def describe(case, ev, detail):
    return f"{case['a']} batch: {detail}"


def judge(chk, cases):
    events = vlib.run_cases("codec", cases, timeout=60)
    out = vlib.validate("Trace_Codec", "Trace_Codec.cfg", events, chk.open_ids, "c17", chunk_events=40)
    for ci, off, detail in out["mismatch"]:
        if '"gen"' in detail:
            raise vlib.ToolError("generator and specification disagree on a rendering: " + detail)
    chk.process_validation(out, cases, events, "codec", describe)
    return events


def run(chk):
    r = vlib.tlc_mc("MC_Codec", "MC_Codec.cfg", workers=2, must_take=["Tick"], check=chk)
    cases = gen_cases(chk)
    events = judge(chk, cases)
    n_items = 0
    for c in cases:
        n_items += len(c.get("items", c.get("sn", [])))
    chk.evaluations = n_items
    chk.nontrivial = set(range(n_items))      # every item is a distinct argument tuple
    chk.rule = ("all 18278 column names and indices; coordinates = boundary/random rows x boundary columns x 4 lock "
                "combinations (thorough: every row of the grid); ranges of four shapes; sheet names: all of length "
                "<= 2 over a 38-character legal alphabet plus random names up to 31 characters; every item is a "
                "distinct argument tuple (duplicates possible only among random rows)")
    chk.sample({"event": {k: (v[:3] if isinstance(v, list) else v) for k, v in events[0][0].items()}})
    chk.sample({"event": {k: (v[:2] if isinstance(v, list) else v) for k, v in events[-1][0].items()}})
    chk.assumptions += ["TLC's ToString, string concatenation and the CommunityModules Json reader are correct",
                        "legal sheet names: any characters except : \\ / ? * [ ], 1..31 long, no leading/trailing apostrophe"]


def replay(chk, path):
    with open(path) as f:
        rp = json.load(f)
    judge(chk, [rp["script"]])
