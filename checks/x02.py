"""X02 (extension domain "CellVal") - the value/type state machine of a cell under the public setter/getter API.

Spec: spec/CellVal.tla - a cell is [here, value, has-formula, formula text], a value is one of blank / num / bool /
str / err / rich / lazy; one action per setter of Cell / CellValue (set_value with type guessing, the typed setters,
set_formula, set_formula_result_default, set_error, set_value_lazy / get_value_lazy), plus get_cell_mut, remove_cell,
copy of a CellValue / of a Cell, save+load.  The header of the module states the properties P1..P6.
MC_CellVal*.cfg: TLC explores the whole reachable state space (one cell x the full adversarial text alphabet, two
cells x a smaller one) and checks TypeOK, Consistent (P2), NumbersExactly / GuessIdempotent / LazyEquiv (P4),
FormulaRule (P5), TypedNeverGuess (P3), Independent, CopyExact, SaveLoadKeeps (P6); two deviant designs must be
refuted (vacuity guards).  Behaviours of the specification (all histories of length 1 and 2, simulated random
histories up to 40 steps) and generated histories (random number-like texts, random finite doubles, Unicode) are run
by harness/src/bin/cellval.rs, which logs after every step every getter at three levels (Cell, CellValue, Worksheet
shortcuts) for both positions; Trace_CellVal.tla judges every step with the specification's own Post operators.
"""
import json, os, re, struct, sys
from decimal import Decimal
import vlib

ACTIONS = ["MCTouch", "MCSetValue", "MCSetString", "MCSetNumber", "MCSetBool", "MCSetRich", "MCSetBlank", "MCSetFormula",
           "MCRemoveFormula", "MCSetResult", "MCSetError", "MCSetLazy", "MCGetLazy", "MCRemove", "MCCopyValue",
           "MCCopyCell", "MCSaveLoad"]

# ---------------------------------------------------------------------------------------------------------------
# numbers: the shortest round-trip decimal of a double, by CPython (independent of the code under test and of std)
# ---------------------------------------------------------------------------------------------------------------
DEC_RE = re.compile(r"^[+-]?([0-9]+\.?[0-9]*|\.[0-9]+)([eE][+-]?[0-9]+)?$")
ZERO_N = {"cls": "none", "neg": False, "digs": [], "e": 0, "bits": ""}


def bits_of(x):
    return struct.pack(">d", x).hex()


def dec_of_float(x):
    """{cls, neg, digs (list of characters, no leading/trailing zeros), e, bits}: x = (-1)^neg * d.igs * 10^e; digs is
    A shortest round-trip decimal (not unique at 17 digits: the bits are what identifies the double)"""
    neg = struct.pack(">d", x)[0] & 0x80 != 0
    if x != x:
        return {"cls": "nan", "neg": neg, "digs": [], "e": 0, "bits": bits_of(x)}
    if x in (float("inf"), float("-inf")):
        return {"cls": "inf", "neg": neg, "digs": [], "e": 0, "bits": bits_of(x)}
    if x == 0:
        return {"cls": "fin", "neg": neg, "digs": [], "e": 0, "bits": bits_of(x)}
    sign, digits, exp = Decimal(repr(abs(x))).as_tuple()
    digits = list(digits)
    while digits and digits[-1] == 0:
        digits.pop()
        exp += 1
    while digits and digits[0] == 0:
        digits.pop(0)
    return {"cls": "fin", "neg": neg, "digs": [str(d) for d in digits], "e": len(digits) - 1 + exp, "bits": bits_of(x)}


def float_of_dec(n):
    if not n["digs"]:
        return -0.0 if n["neg"] else 0.0
    s = ("-" if n["neg"] else "") + n["digs"][0] + "." + "".join(n["digs"][1:]) + "0e" + str(n["e"])
    return float(s)


def exact_dec(t):
    """the exact decimal of a literal (mirror of DecOf in CellVal.tla; used to keep the generators inside the bands
    the specification decides) -> (neg, digs string, e) or None"""
    if not DEC_RE.match(t):
        return None
    neg = t.startswith("-")
    b = t.lstrip("+-")
    m = re.split("[eE]", b)
    mant, x = m[0], int(m[1]) if len(m) > 1 else 0
    ip, _, fp = mant.partition(".")
    alld = ip + fp
    lz = len(alld) - len(alld.lstrip("0"))
    sig = alld.strip("0")
    if not sig:
        return (neg, "", 0)
    return (neg, sig, len(ip) - lz - 1 + x)


def oracle(t):
    """the `n` that travels with a text: the shortest round-trip decimal of its double when the text is a decimal
    literal with a finite double, else the placeholder"""
    if not DEC_RE.match(t):
        return dict(ZERO_N)
    try:
        x = float(t)
    except (ValueError, OverflowError):
        return dict(ZERO_N)
    if x != x or x in (float("inf"), float("-inf")):
        return dict(ZERO_N)
    return dec_of_float(x)


def text_decidable(t):
    """True if the specification decides this text (mirror of GenOkNumber): generators only emit such texts"""
    d = exact_dec(t)
    if d is None:
        return True
    neg, sig, e = d
    if not sig:
        return True
    sure_finite = (-307 <= e < 308) or (e == 308 and (sig + "0" * 17)[:17] <= "17976931348623157" and len(sig) <= 17)
    sure_over = e > 308 or (e == 308 and sig >= "17976931348623159")
    sure_zero = e <= -326
    if not (sure_finite or sure_over or sure_zero):
        return False
    if sure_finite and len(sig) > 15:
        o = oracle(t)
        if o["cls"] != "fin" or o["e"] != e or not o["digs"]:
            return False
        pad = lambda ds: ("".join(ds) + "0" * 14)[:14]
        return pad(o["digs"]) == pad(sig)
    return True


# ---------------------------------------------------------------------------------------------------------------
# the pools shared with MC_CellVal.tla (written to a JSON file named by the environment variable POOLS)
# ---------------------------------------------------------------------------------------------------------------
FULL = ["", "0", "-0", "1e3", "1E+3", ".5", "5.", " 1", "1 ", "+1", "0x10", "TRUE", "true", "True", "FALSE",
        "fal\u017fe", "#N/A", "#n/a", "#DIV/0!", "#d\u0131v/0!", "#REF!", "#NULL!", "#VALUE!", "#NAME?", "#NUM!", "#DATA!",
        "#GETTING_DATA", "=A1", "=1+1", "'1", "1,000", "1_000", "NaN", "nan", "inf", "Infinity", "-inf", "1e999", "-1e999",
        "1e-999", "\u0661\u0662\u0663", "\uff11\uff12\uff13", "12345678901234567890123456789012345678901234567890", "0123",
        "12345678901234567890", "1.0000000000000001", ".", "e5", "1e", "-", "1.5e-7", "123456789012345", "abc", "a b",
        "1.7976931348623157e308", "1.8e308", "00.50", "1.e5", ".e5", "1e0005", "-.5e1"]
MID = ["", "0", "-0", "1e3", ".5", " 1", "TRUE", "true", "FALSE", "#N/A", "#REF!", "#DATA!", "#GETTING_DATA", "=A1", "NaN",
       "inf", "1e999", "0123", "12345678901234567890", "abc"]
SMALL = ["", "1e3", "0123", "TRUE", "true", "#N/A", "abc", "inf"]
FORMS = ["B1+1", "", "SUM(A1:B2)"]
NUMS = [0.0, -0.0, 1.5, -2.0, 1e300, 0.1, 123456789.125]
RICH = [[["ab ", True], ["cd", False]], [["12", False]], [["", False]]]


def pools():
    texts = list(FULL)
    idx = {t: i + 1 for i, t in enumerate(texts)}
    orc = []
    for t in texts:
        d = exact_dec(t)
        if d and len(d[1]) > 15 and oracle(t)["cls"] == "fin":
            orc.append({"ti": idx[t], "n": oracle(t)})
    return {"texts": [list(t) for t in texts],
            "sets": {"full": [idx[t] for t in FULL], "mid": [idx[t] for t in MID], "small": [idx[t] for t in SMALL]},
            "orc": orc, "forms": [list(f) for f in FORMS], "nums": [dec_of_float(x) for x in NUMS], "rich": RICH}


def pools_env():
    vlib.ensure_dirs()
    path = os.path.join(vlib.WORK, f"cellval-pools-{os.getpid()}.json")
    with open(path, "w") as f:
        json.dump(pools(), f, ensure_ascii=True)
    return path, {"POOLS": path}


# ---------------------------------------------------------------------------------------------------------------
# steps and scripts
# ---------------------------------------------------------------------------------------------------------------
VIAS = ["cell", "cv", "obj"]
GUESSERS = ("SetValue", "SetResult", "SetLazy")
ECMA_ERRORS = ["#NULL!", "#DIV/0!", "#VALUE!", "#REF!", "#NAME?", "#NUM!", "#N/A", "#GETTING_DATA"]


def step(a, p=1, q=None, via="cell", t="", b=False, runs=None, x=None, as_="f64", w="std"):
    """one step with every field present (TLC reads fields by name; they must exist and keep their type)"""
    st = {"a": a, "p": p, "q": p if q is None else q, "via": via, "t": t, "b": b, "runs": runs or [], "bits": "",
          "as": as_, "n": dict(ZERO_N), "w": w}
    if a in GUESSERS:
        st["n"] = oracle(t)
    if a == "SetNumber":
        st["bits"] = bits_of(x)
        st["n"] = dec_of_float(x)
    return st


def script(steps):
    return {"steps": [step("Init", p=0)] + steps}


def int_like(x):
    return x == x and abs(x) < 2 ** 31 and float(int(x)) == x and not (x == 0 and bits_of(x)[0] == "8")


def from_replay(hist, rng):
    """a TLC behaviour (records [a, p, q, i, b], i = index into the pool of the action's argument) -> a script"""
    steps = []
    for h in hist:
        a, p, q, i = h["a"], h["p"], h["q"], h["i"]
        via = rng.choice(VIAS)
        if a in ("SetValue", "SetString", "SetResult", "SetError", "SetLazy"):
            steps.append(step(a, p, via=via, t=FULL[i - 1]))
        elif a == "SetFormula":
            steps.append(step(a, p, via=via, t=FORMS[i - 1]))
        elif a == "SetNumber":
            x = NUMS[i - 1]
            steps.append(step(a, p, via=via, x=x, as_="i32" if int_like(x) and rng.random() < 0.5 else "f64"))
        elif a == "SetBool":
            steps.append(step(a, p, via=via, b=h["b"]))
        elif a == "SetRich":
            steps.append(step(a, p, via=via, runs=RICH[i - 1]))
        elif a == "SetBlank":
            steps.append(step(a, p, via=via))
        elif a == "GetLazy":
            steps.append(step(a, p, via=rng.choice(["cell", "cv"])))
        elif a == "SaveLoad":
            steps.append(step(a, p=0, w=rng.choice(["std", "light"])))
        elif a in ("Touch", "RemoveFormula", "Remove", "CopyValue", "CopyCell"):
            steps.append(step(a, p, q))
        else:
            raise vlib.ToolError(f"unknown action {a} in a TLC behaviour")
    return script(steps)


# ---------------------------------------------------------------------------------------------------------------
# generated cases
# ---------------------------------------------------------------------------------------------------------------
def positional(n):
    """the text of a finite number in positional notation (mirror of NumChars)"""
    ds, e = "".join(n["digs"]), n["e"]
    s = "-" if n["neg"] else ""
    if not ds:
        return s + "0"
    if e >= 0:
        if len(ds) <= e + 1:
            return s + ds + "0" * (e + 1 - len(ds))
        return s + ds[:e + 1] + "." + ds[e + 1:]
    return s + "0." + "0" * (-e - 1) + ds


def random_number_text(rng):
    kind = rng.random()
    nd = rng.choice([1, 1, 2, 3, 5, 8, 12, 15, 15, 16, 17, 18, 20, 25, 40])
    digs = "".join(rng.choice("0123456789") for _ in range(nd))
    if kind < 0.25:
        body = digs
    elif kind < 0.6:
        k = rng.randint(0, nd)
        body = digs[:k] + "." + digs[k:]
    else:
        k = rng.randint(0, nd)
        body = digs[:k] + ("." if rng.random() < 0.7 else "") + digs[k:]
        ex = rng.choice([0, 1, 2, 5, 10, 15, 16, 17, 22, 23, 100, 290, 300, 307, 308, 309, 400, 999, 5000, 12345678])
        body += rng.choice("eE") + rng.choice(["", "+", "-", "-"]) + rng.choice(["", "0", "000"]) + str(ex)
    if rng.random() < 0.15:
        body = "0" * rng.randint(1, 4) + body
    return rng.choice(["", "", "", "-", "+"]) + body


JUNK = [" ", "\t", "\n", "\u00a0", "\u2009", "\u200b", "_", ",", "'", "x", "e", "E", ".", "-", "+", "f", "d", "L", "%", "$",
        "\u0661", "\uff11", "\u2212", "\u00b2", "\ufeff"]


def mutated_number_text(rng):
    t = random_number_text(rng)
    k = rng.randint(0, len(t))
    j = rng.choice(JUNK)
    r = rng.random()
    if r < 0.6:
        return t[:k] + j + t[k:]
    if r < 0.8 and t:
        return t[:k] + t[k + 1:]
    return t + j


def case_variant(rng, lit):
    out = []
    for ch in lit:
        r = rng.random()
        if ch in "sS" and r < 0.15:
            out.append("\u017f")
        elif ch in "iI" and r < 0.15:
            out.append("\u0131")
        elif r < 0.55:
            out.append(ch.lower())
        else:
            out.append(ch.upper())
    return "".join(out)


UNI = ["\u00e9t\u00e9", "\u65e5\u672c\u8a9e", "\U0001F600", "a\U0001F600b", "\u05e9\u05dc\u05d5\u05dd", "e\u0301", "\u00a01", "1\u00a0",
       "\u2212" + "1", "\uff11\uff12", "\u0663.\u0661", "\u221e", "\u00bd", "1\u20442", "TRUE\u200b", "\ufb01", "\u212a", "\u00df",
       "line1\nline2", "tab\there", " ", "  ", "\u3000", "<&>\"'", "_x0041_", "0\u0301"]

PRESTATES = [
    [],
    [("SetString", {"t": "old"})],
    [("SetNumber", {"x": 2.5}), ("SetFormula", {"t": "B1+1"})],
    [("SetRich", {"runs": RICH[0]})],
    [("SetLazy", {"t": "7"}), ("SetFormula", {"t": "SUM(A1:B2)"})],
    [("SetError", {"t": "#REF!"}), ("SetFormula", {"t": ""})],
    [("SetBool", {"b": True})],
]


def kf_cases():
    """always generated: at least one case per open finding, so that the KNOWN-FINDING lines are deterministic"""
    return [
        script([step("SetValue", 1, t="true")]),                                                   # KF1
        script([step("SetFormula", 1, t="B1"), step("SetResult", 1, via="cv", t="#n/a")]),          # KF1
        script([step("SetValue", 1, t="fal\u017fe")]),                                              # KF2
        script([step("SetValue", 2, t="#d\u0131v/0!")]),                                            # KF2
        script([step("SetValue", 1, t="inf"), step("SetValue", 2, t="NaN"), step("SetValue", 1, t="1e999"),
                step("SetValue", 2, t="-Infinity")]),                                              # KF3
        script([step("SetValue", 1, t="3"), step("SetFormula", 1, t="B1+1"), step("GetLazy", 1)]),  # KF4
        script([step("SetValue", 1, t="#DATA!"), step("SetValue", 2, t="#GETTING_DATA"),
                step("SetError", 1, t="#GETTING_DATA")]),                                          # KF5
        script([step("SetLazy", 1, t="5"), step("SaveLoad", 0)]),                                  # KF6
        script([step("SetLazy", 2, via="cv", t="abc"), step("SaveLoad", 0, w="light")]),           # KF6
    ]


def prestate_steps(rng, pre, p):
    out = []
    for a, kw in pre:
        out.append(step(a, p, via=rng.choice(VIAS), **kw))
    return out


def text_cases(chk, texts):
    """P4: the guess is a function of the text alone - every text after every kind of pre-state, through every
    guessing entry point (set_value, set_formula_result_default, set_value_lazy + get_value_lazy)"""
    rng = chk.rng
    cases = []
    for t in texts:
        if not text_decidable(t):
            raise vlib.ToolError(f"generator text {t!r} lies in a band the specification does not decide")
        pres = rng.sample(PRESTATES, 5 if chk.tier == "thorough" else 2)
        for pre in pres:
            p = rng.choice([1, 2])
            how = rng.choice(["SetValue", "SetValue", "SetResult", "lazy"])
            steps = prestate_steps(rng, pre, p)
            if how == "lazy":
                steps += [step("SetLazy", p, via=rng.choice(VIAS), t=t), step("GetLazy", p, via=rng.choice(["cell", "cv"]))]
            else:
                steps.append(step(how, p, via=rng.choice(VIAS), t=t))
            if rng.random() < 0.3:
                steps.append(step("SetString", p, via=rng.choice(VIAS), t=t))          # P3 right after: typed, no guess
            cases.append(script(steps))
    return cases


def number_cases(chk, count):
    """set_value_number with random finite doubles (random bit patterns, powers of ten, integers, subnormals, the
    extremes), then what get_value returns is fed to set_value: it must classify to the same number again"""
    rng = chk.rng
    cases = []
    specials = [0.0, -0.0, 1.0, -1.0, 0.1, 0.2 + 0.1, 1e15, 1e16, 1e17, 123456789012345678.0, 1e21, 1e22, 1e23, 5e-324, 2.2250738585072014e-308,
                1.7976931348623157e308, -1.7976931348623157e308, 4.35, 1 / 3, 2 ** 53, 2 ** 53 + 2, 1e-7, 9.999999999999999e22,
                2147483647.0, -2147483648.0, 0.5, 100.0, 1e300, 1e-300]
    xs = list(specials)
    while len(xs) < count:
        r = rng.random()
        if r < 0.5:
            b = rng.getrandbits(64)
            x = struct.unpack(">d", struct.pack(">Q", b))[0]
            if x != x or x in (float("inf"), float("-inf")):
                continue
        elif r < 0.7:
            x = float(rng.randint(-10 ** rng.randint(1, 9), 10 ** rng.randint(1, 9)))
        elif r < 0.85:
            x = round(rng.uniform(-1000, 1000), rng.randint(0, 6))
        else:
            x = rng.choice([1, -1]) * rng.randint(1, 999) * 10.0 ** rng.randint(-30, 30)
        xs.append(x)
    for x in xs:
        p = rng.choice([1, 2])
        steps = []
        if rng.random() < 0.3:
            steps.append(step("SetFormula", p, t="B1+1"))
        steps.append(step("SetNumber", p, via=rng.choice(VIAS), x=x, as_="i32" if int_like(x) and rng.random() < 0.5 else "f64"))
        txt = positional(dec_of_float(x))
        if text_decidable(txt) and oracle(txt) == dec_of_float(x):
            q = 3 - p
            steps.append(step(rng.choice(["SetValue", "SetResult"]), q, via=rng.choice(VIAS), t=txt))
        cases.append(script(steps))
    return cases


def random_histories(chk, count):
    """random histories over both positions with random arguments.  Save+load has a contract (no rich text and no
    lazy value under a formula): a mirror of what each cell MAY be (possible kinds among rich / lazy / other, may have
    a formula) keeps the histories inside it whatever the open findings make of the state"""
    rng = chk.rng
    pool = FULL + UNI
    cases = []
    for _ in range(count):
        st = {1: {"k": {"o"}, "f": False}, 2: {"k": {"o"}, "f": False}}
        steps = []
        for _ in range(rng.randint(3, 25)):
            p, q = rng.choice([1, 2]), rng.choice([1, 2])
            via = rng.choice(VIAS)
            a = rng.choice(["SetValue", "SetValue", "SetString", "SetNumber", "SetBool", "SetRich", "SetBlank", "SetFormula",
                            "SetFormula", "RemoveFormula", "SetResult", "SetError", "SetLazy", "GetLazy", "Remove", "CopyValue",
                            "CopyCell", "SaveLoad", "Touch"])
            c = st[p]
            if a in ("SetValue", "SetResult", "SetLazy", "SetString"):
                r = rng.random()
                t = rng.choice(pool) if r < 0.6 else random_number_text(rng) if r < 0.8 else mutated_number_text(rng)
                if not text_decidable(t):
                    continue
                steps.append(step(a, p, via=via, t=t))
                if a == "SetLazy":
                    c["k"] = {"l"}
                elif a == "SetResult":
                    c["k"] = {"o"}
                else:
                    c.update(k={"o"}, f=False)
            elif a == "SetNumber":
                x = rng.choice([0.0, -0.0, 1.5, 42.0, -7.0, 1e21, 0.1, 2.5e-10, 123456.789])
                steps.append(step(a, p, via=via, x=x, as_="i32" if int_like(x) and rng.random() < 0.5 else "f64"))
                c.update(k={"o"}, f=False)
            elif a == "SetBool":
                steps.append(step(a, p, via=via, b=rng.random() < 0.5))
                c.update(k={"o"}, f=False)
            elif a == "SetRich":
                runs = [[rng.choice(["ab ", "cd", "", "12", "\u00e9", "TRUE"]), rng.random() < 0.5] for _ in range(rng.randint(1, 3))]
                steps.append(step(a, p, via=via, runs=runs))
                c.update(k={"r"}, f=False)
            elif a == "SetBlank":
                steps.append(step(a, p, via=via))
                c.update(k={"o"}, f=False)
            elif a == "SetFormula":
                steps.append(step(a, p, via=via, t=rng.choice(FORMS + ["1/0", "A1&\"x\"", "TRUE", "1"])))
                c["f"] = True
            elif a == "RemoveFormula":
                steps.append(step(a, p))
                c["f"] = False
            elif a == "SetError":
                steps.append(step(a, p, via=via, t=rng.choice(ECMA_ERRORS)))
                c["k"] = {"o"}
            elif a == "GetLazy":
                steps.append(step(a, p, via=rng.choice(["cell", "cv"])))
                if c["k"] == {"l"}:
                    c.update(k={"o"}, f=False)           # resolved for sure: the formula is gone
                else:
                    c["k"] = {"o" if x == "l" else x for x in c["k"]}     # (formula: may still be there)
            elif a == "Touch":
                steps.append(step(a, p))
            elif a == "Remove":
                steps.append(step(a, p))
                st[p] = {"k": {"o"}, "f": False}
            elif a == "CopyValue":
                steps.append(step(a, p, q))
                st[q] = {"k": set(c["k"]), "f": c["f"]}
            elif a == "CopyCell":                    # (does nothing if the source does not exist: either may be true)
                steps.append(step(a, p, q))
                st[q] = {"k": c["k"] | st[q]["k"], "f": c["f"] or st[q]["f"]}
            elif a == "SaveLoad":
                if any(x["f"] and x["k"] & {"r", "l"} for x in st.values()):
                    continue
                steps.append(step(a, 0, w=rng.choice(["std", "light"])))
                for x in st.values():
                    x["k"] = {"o" if y == "l" else y for y in x["k"]}
        if steps:
            cases.append(script(steps))
    return cases


# ---------------------------------------------------------------------------------------------------------------
# the check
# ---------------------------------------------------------------------------------------------------------------
def tlc_behaviours(cfg, env, what, workers=4, simulate=None, extra=None, timeout=3000):
    r = vlib.run_tlc("MC_CellVal", cfg, workers=workers, env=env, coverage=False, simulate=simulate, extra=extra,
                     timeout=timeout, stack="256m")
    bad = (r.rc != 0 or r.violation) if simulate else not r.ok
    if bad or not r.replays:
        sys.stdout.write(r.out[-1500:])
        raise vlib.ToolError(f"{what} ({cfg}) failed: {r.violation or 'no behaviours'}")
    return r.replays


def gen_cases(chk, env):
    rng = chk.rng
    quick = chk.tier == "quick"
    cases = kf_cases()
    n0 = len(cases)
    for rp in tlc_behaviours("MC_CellVal_replay.cfg", env, "replay generation, depth 1"):
        cases.append(from_replay(rp, rng))
    n1 = len(cases)
    for rp in tlc_behaviours("MC_CellVal_replay_d2.cfg", env, "replay generation, depth 2"):
        cases.append(from_replay(rp, rng))
    n2 = len(cases)
    if not quick:
        for rp in tlc_behaviours("MC_CellVal_replay_d3.cfg", env, "replay generation, depth 3", workers=4, timeout=6000):
            cases.append(from_replay(rp, rng))
    n3 = len(cases)
    nsim = 400 if quick else 4000
    seen, lens = set(), []
    for rp in tlc_behaviours("MC_CellVal_sim.cfg", env, "TLC simulation", workers=1, simulate=f"num={nsim}",
                             extra=["-depth", "45", "-seed", str(chk.seed)]):
        key = json.dumps(rp, sort_keys=True)
        if key in seen:
            continue
        seen.add(key)
        lens.append(len(rp))
        cases.append(from_replay(rp, rng))
    n4 = len(cases)
    texts = list(FULL) + UNI
    for lit in ["TRUE", "FALSE"] + ECMA_ERRORS + ["#DATA!"]:
        for _ in range(3 if quick else 12):
            texts.append(case_variant(rng, lit))
        texts += [lit + " ", " " + lit, lit[:-1], lit + lit[-1]]
    nrand = 600 if quick else 8000
    while len(texts) < len(FULL) + len(UNI) + 80 + nrand:
        t = random_number_text(rng) if rng.random() < 0.6 else mutated_number_text(rng)
        if text_decidable(t):
            texts.append(t)
    cases += text_cases(chk, texts)
    n5 = len(cases)
    cases += number_cases(chk, 300 if quick else 4000)
    n6 = len(cases)
    cases += random_histories(chk, 300 if quick else 4000)
    chk.extra["cases"] = {"one_per_open_finding": n0, "tlc_paths_depth1": n1 - n0, "tlc_paths_depth2": n2 - n1,
                          "tlc_paths_depth3": n3 - n2, "tlc_simulated_histories": len(seen),
                          "simulated_history_lengths": {"min": min(lens), "max": max(lens), "mean": round(sum(lens) / len(lens), 1)},
                          "texts_through_the_guess": len(texts), "text_cases": n5 - n4, "number_cases": n6 - n5,
                          "random_histories": len(cases) - n6}
    for i, c in enumerate(cases):
        c["case"] = i
    return cases


def describe(case, ev, detail):
    if ev is None:
        return detail
    brief = {k: ev.get(k) for k in ("a", "p", "q", "via", "t", "b", "runs", "bits", "as", "w") if ev.get(k) not in ("", [], None)}
    return f"step {json.dumps(brief, ensure_ascii=True)}: {detail}"


def judge(chk, cases, batch=4000):
    first_events, total = None, 0
    for b0 in range(0, len(cases), batch):
        part = cases[b0:b0 + batch]
        events = vlib.run_cases("cellval", part, timeout=60, jobs=min(6, max(1, vlib.NCPU - 2)))
        out = vlib.validate("Trace_CellVal", "Trace_CellVal.cfg", events, chk.open_ids, f"x02-{b0}", chunk_events=1500,
                            jobs=min(6, max(1, vlib.NCPU - 2)))
        first = {}
        for ci, off, detail in out["mismatch"]:
            if ci not in first or off < first[ci][0]:
                first[ci] = (off, detail)
        for ci, (off, detail) in first.items():
            if detail.startswith('<<"gen"'):
                raise vlib.ToolError(f"generator produced an out-of-contract step (case {b0 + ci}, step {off}): {detail} "
                                     f"{json.dumps(part[ci]['steps'][off], ensure_ascii=True)[:300]}")
        chk.process_validation(out, part, events, "cellval", describe)
        total += sum(len(e) for e in events)
        if first_events is None:
            first_events = events
    return first_events, total


def refute(cfg, env, expect):
    """a deviant design: TLC must report the violation of `expect` (vacuity guard of that property)"""
    r = vlib.run_tlc("MC_CellVal", cfg, workers=2, env=env, coverage=False, stack="256m")
    if r.ok or not r.violation or expect not in r.violation:
        sys.stdout.write(r.out[-1500:])
        raise vlib.ToolError(f"the deviant design {cfg} was not refuted by {expect}: {r.violation}")
    vlib.log(f"[tlc] MC_CellVal {cfg}: refuted as required ({r.violation.strip()[:90]})")


def run(chk):
    path, env = pools_env()
    try:
        vlib.tlc_mc("MC_CellVal", "MC_CellVal.cfg", workers=4, env=env, must_take=ACTIONS, check=chk, stack="256m")
        vlib.tlc_mc("MC_CellVal", "MC_CellVal_two.cfg" if chk.tier == "quick" else "MC_CellVal_two_mid.cfg", workers=4, env=env,
                    must_take=ACTIONS, check=chk, stack="256m", timeout=7200)
        if not os.environ.get("VERIF_DEBUG_SKIP_MC"):
            refute("MC_CellVal_strnum.cfg", env, "Consistent")
            refute("MC_CellVal_sticky.cfg", env, "FormulaRule")
        cases = gen_cases(chk, env)
    finally:
        try:
            os.remove(path)
        except OSError:
            pass
    events, chk.evaluations = judge(chk, cases)
    chk.nontrivial = {json.dumps(c["steps"], sort_keys=True) for c in cases if len(c["steps"]) > 1}
    chk.rule = ("a case is a history of setter/getter calls on two cells of a fresh sheet (set_value, set_value_string/"
                "number/bool, set_rich_text, set_blank, set_formula, remove_formula, set_formula_result_default, set_error, "
                "set_value_lazy, get_value_lazy, get_cell_mut, remove_cell, copy of a CellValue / a Cell, save+load), each "
                "setter entered through Cell, through CellValue or through a detached CellValue; after every step every "
                "getter of both cells at three levels is recorded and judged; evaluations = judged events; distinct = "
                "different step lists")
    k = next((i for i, c in enumerate(cases[:len(events)]) if len(c["steps"]) > 4), 0)
    e0 = events[0][-1]
    chk.sample({"script": [{k2: v for k2, v in s.items() if v not in ("", [], None, False)} for s in cases[0]["steps"][1:]],
                "cell_value_getters_after_last_step": {k2: e0["obs"][0]["v"][k2] for k2 in ("dt", "val", "hasnum", "isf", "rk")}})
    chk.sample({"script": [{k2: v for k2, v in s.items() if k2 in ("a", "p", "q", "t", "via")} for s in cases[k]["steps"][1:8]]})
    chk.assumptions += [
        "std's f64 parsing and formatting are correct (numbers are observed through {:e}, the shortest round-trip digits)",
        "CPython's float()/repr() give the correctly rounded double and its shortest round-trip decimal (oracle for digit "
        "strings of more than 15 significant digits and for set_value_number)",
        "texts whose double lies in the last ulp below f64::MAX or in the subnormal range are not generated for the "
        "guessing setters (the specification does not decide them); set_value_number covers those doubles",
        "set_value_number is driven with finite doubles; set_error with the eight error values of ECMA-376 18.17.3",
        "save+load (P6, a probe - C01 is the check): not driven with a rich text or a lazy value under a formula",
        "an unresolved lazy value: only its raw text, the formula and the mutual consistency of the getters are judged",
    ]


def replay(chk, path):
    with open(path) as f:
        rp = json.load(f)
    judge(chk, [rp["script"]])
