"""C18 - date serial numbers and calendar dates convert exactly in both directions (1900 system).

Spec: spec/DateSerial.tla (calendar clock advanced by the Gregorian rules, serial advanced by 1 per
day and by 2 across the phantom 1900-02-29; invariants tie the clock to the closed forms), checked
by TLC with MC_DateSerial.cfg (thorough: MC_DateSerial_thorough.cfg, all 8100 years).
Conformance: spec/Trace_DateSerial.tla judges every recorded call of helper::date::convert_date,
convert_date_windows_1900, excel_to_date_time_object and Worksheet::get_formatted_value.
"""
import datetime
import json
import os
import time
import vlib
from concurrent.futures import ThreadPoolExecutor

FIRST, LAST = 1900, 9999
TOTAL_DAYS = 2958465 - 1          # serial 60 is not a day
SECS_PER_EVENT = 600
CHUNK = 640          # events per TLC trace file
ROUND = 4 * CHUNK    # cases per round
BOUNDARY_SODS = [0, 43200, 86399, 1, 3600]
# formats without a seconds field (spec: DateSerial!DisplayFormats / DisplayAs)
DISPLAY_FORMATS = ["yyyy-mm-dd", "dd/mm/yyyy", "m/d/yyyy", "d-mmm-yy", "yyyy/mm/dd;@", "yyyy-mm-dd hh:mm"]
ONE_DAY = datetime.timedelta(days=1)


def days_of_year(y):
    d, out = datetime.date(y, 1, 1), []
    while d.year == y:
        out.append([d.year, d.month, d.day])
        if y == LAST and d.month == 12 and d.day == 31:
            return out
        d += ONE_DAY
    out.append([y + 1, 1, 1])      # hand-over to the next year (monotonicity across the boundary)
    return out


def is_leap(y):
    return (y % 4 == 0 and y % 100 != 0) or y % 400 == 0


class Distinct:
    """Number of distinct (date, second of day) inputs, counted without materialising 10^7 tuples."""

    def __init__(self):
        self.full = {}          # year -> set of sods for which every day of the year was an input
        self.extra = set()      # (ordinal day) * 86400 + sod of all other inputs

    def add_full(self, y, sod):
        self.full.setdefault(y, set()).add(sod)

    def add(self, y, m, d, sod):
        self.extra.add(datetime.date(y, m, d).toordinal() * 86400 + sod)

    def __len__(self):
        n = sum((366 if is_leap(y) else 365) * len(s) for y, s in self.full.items())
        for k in self.extra:
            o, sod = divmod(k, 86400)
            if sod not in self.full.get(datetime.date.fromordinal(o).year, ()):
                n += 1
        return n


def gen_cases(chk, distinct, stats):
    """Generator of cases (lazily: a thorough run has 10^7 inputs)."""
    rng = chk.rng
    thorough = chk.tier == "thorough"
    stats.update({"full_year_sweeps": 0, "day_items": 0, "second_items": 0, "display_items": 0})

    def days_case(y, sod, fmt, days=None):
        full = days is None
        ds = days_of_year(y) if full else days
        stats["day_items"] += len(ds)
        if fmt:
            stats["display_items"] += len(ds)
        if full:
            stats["full_year_sweeps"] += 1
            distinct.add_full(y, sod)
            if y < LAST:
                distinct.add(y + 1, 1, 1, sod)
        else:
            for (yy, m, d) in ds:
                distinct.add(yy, m, d, sod)
        return {"a": "days", "y": y, "sod": sod, "fmt": fmt, "full": full, "days": ds}

    # 1. every day of the date system (the displayed text costs ~0.8 ms per item: quick displays every day
    #    of 160 selected years, thorough every day of those and of every third year)
    # 2. the edges of every year, displayed: Jan 1, Feb 28, (Feb 29), Mar 1, Dec 31
    rot = BOUNDARY_SODS + [rng.randrange(86400), rng.randrange(86400)]     # 7 entries: coprime with 4/100/400
    sel = set(range(1900, 1905)) | {1999, 2000, 2001, 2023, 2024, 2038, 2099, 2100, 2101, 2399, 2400, 9998, 9999}
    sel |= set(range(2000, 10000, 100))
    while len(sel) < 160:
        sel.add(rng.randint(FIRST, LAST))
    # whole-number serials (time 00:00:00) take their own path through a formatter easily: every day of
    # 1900, of the last year, of a leap year, of both kinds of century year and of one seeded year is
    # always displayed at midnight, and so are the edge days of every year
    midnight = {FIRST, LAST, 2024, 2000, 2100, rng.randint(FIRST + 1, LAST - 1)}
    edges = []
    for y in range(FIRST, LAST + 1):
        if y in midnight:
            yield days_case(y, 0, True)
        if thorough:
            r = rng.randrange(86400)
            for sod in (0, 43200, 86399):
                yield days_case(y, sod, False)
            yield days_case(y, r if r not in (0, 43200, 86399) else 12345, y % 3 == 0 or y in sel)
        else:
            yield days_case(y, rot[y % 7], False)
            if y in sel:
                yield days_case(y, rng.choice([s for s in BOUNDARY_SODS if s != rot[y % 7]] +
                                              [rng.randrange(86400)] * 3), True)
        edges += [[y, 1, 1], [y, 2, 28]] + ([[y, 2, 29]] if is_leap(y) else []) + [[y, 3, 1], [y, 12, 31]]
        if len(edges) >= 360 or y == LAST:
            yield days_case(edges[0][0], 0, True, days=edges)
            yield days_case(edges[0][0], rng.choice([86399, 43200, rng.randrange(1, 86400)]), True, days=edges)
            edges = []
    # 3b. date formats without a seconds field (and one date + hh:mm format): the date shown is the date of
    #     the serial however late in the day it is - the unshown units are dropped, never rounded up
    days = [(1999, 12, 31), (9999, 12, 31), (1900, 12, 31), (2023, 1, 31), (2023, 4, 30), (2023, 2, 28), (1900, 2, 28),
            (2100, 2, 28), (2024, 2, 28), (2024, 2, 29), (2000, 2, 29), (1900, 1, 1), (1900, 3, 1), (2024, 5, 23)]
    for _ in range(3):
        o = rng.randint(datetime.date(FIRST, 1, 1).toordinal(), datetime.date(LAST, 12, 31).toordinal())
        days.append(datetime.date.fromordinal(o).timetuple()[:3])
    if thorough:
        for y in range(FIRST, LAST + 1, 10):                      # a year end and a month end per decade
            m = rng.randint(1, 11)
            days += [(y, 12, 31), (datetime.date(y, m + 1, 1) - ONE_DAY).timetuple()[:3]]
    times = [(0, 0, 0), (12, 0, 0), (23, 59, 29), (23, 59, 30), (23, 59, 45), (23, 59, 59)]
    if thorough:
        times += [(11, 59, 59), (0, 0, 59), (9, 59, 30)]
    for f in DISPLAY_FORMATS:
        items = [list(d) + list(t) for d in days for t in times]
        for i in range(0, len(items), 600):
            stats["display_items"] += len(items[i:i + 600])
            stats["date_only_display_items"] = stats.get("date_only_display_items", 0) + len(items[i:i + 600])
            yield {"a": "disp", "format": f, "items": items[i:i + 600]}
    for (y, m, d) in days:
        for (h, mi, sec) in times:
            distinct.add(y, m, d, h * 3600 + mi * 60 + sec)
    # 4. every second of representative days
    rep = [(1900, 2, 28), (9999, 12, 31)]
    if thorough:
        rep += [(1900, 1, 1), (1900, 3, 1), (1999, 12, 31), (2000, 2, 29), (2024, 2, 29), (2038, 1, 19),
                (2100, 3, 1), (4000, 2, 29)]
    for _ in range(4 if thorough else 1):
        d = datetime.date.fromordinal(rng.randint(datetime.date(1950, 1, 1).toordinal(),
                                                  datetime.date(2060, 12, 31).toordinal()))
        rep.append((d.year, d.month, d.day))
    for (y, m, d) in rep:
        for k, frm in enumerate(range(0, 86400, SECS_PER_EVENT)):
            count = min(SECS_PER_EVENT + 1, 86400 - frm)           # one second of overlap with the next batch
            fmt = (k % 3 == 0) if thorough else (k % 12 == 0)
            stats["second_items"] += count
            if fmt:
                stats["display_items"] += count
            yield {"a": "secs", "y": y, "m": m, "d": d, "from": frm, "count": count, "fmt": fmt}
        o = datetime.date(y, m, d).toordinal() * 86400
        distinct.extra.update(range(o, o + 86400))
    stats["days_of_seconds"] = ["%04d-%02d-%02d" % t for t in rep]


def describe(case, ev, detail):
    if case["a"] == "disp":
        head = f"display under format '{case['format']}' ({len(case['items'])} date-times)"
    elif case["a"] == "days":
        head = f"days batch year {case['y']} at second-of-day {case['sod']} ({len(case['days'])} days)"
    else:
        head = f"seconds {case['from']}..{case['from'] + case['count'] - 1} of {case['y']}-{case['m']}-{case['d']}"
    return f"{head}: {detail}"


def excerpt(raw, sl):
    """an event with a few of its items (as compact JSON text), for the evidence file"""
    ev = json.loads(raw)
    ev["items"] = [json.dumps(it, sort_keys=True, separators=(",", ":")) for it in ev["items"][sl]]
    return ev


class RawWorker(vlib.Worker):
    """vlib.Worker without decoding the answer: the driver's line (`[` one event `]`, ASCII JSON) goes to
    TLC as it is.  Decoding and re-encoding 10^6..10^7 items in Python would dominate the run."""

    def run(self, case):
        if self.p is None:
            self.start()
        try:
            self.p.stdin.write((json.dumps(case, ensure_ascii=True) + "\n").encode())
            self.p.stdin.flush()
        except (BrokenPipeError, OSError):
            self.stop()
            return self.fatal(case, "crash")
        line = self._readline(time.time() + self.timeout)
        if not line:
            self.stop()
            return self.fatal(case, "timeout" if line is None else "crash")
        line = line.strip()
        if not (line.startswith(b'[{') and line.endswith(b'}]')):
            raise vlib.ToolError("driver produced a malformed line: " + line[:300].decode("latin1"))
        return line[1:-1]

    @staticmethod
    def fatal(case, kind):       # a hang or a crash of the library is data: judged by the trace specification
        return json.dumps({"a": "Fatal", "case": case["case"], "outcome": kind}).encode()


def drive(cases, jobs=12):
    """One event (raw bytes) per case, same order."""
    vlib.build_harness("dateserial")
    jobs = max(1, min(jobs, vlib.NCPU - 2, (len(cases) + 19) // 20))
    raws = [None] * len(cases)

    def work(k):
        w = RawWorker("dateserial", 120.0)
        try:
            for i in range(k, len(cases), jobs):
                raws[i] = w.run(cases[i])
        finally:
            w.stop()

    with ThreadPoolExecutor(max_workers=jobs) as ex:
        list(ex.map(work, range(jobs)))
    return raws


class LazyEvents:
    """events[ci] -> [header of the event of case ci], decoded on demand for the replay file of a violating
    case (the offending item itself is part of the mismatch detail printed by TLC)"""

    def __init__(self, raws):
        self.raws = raws

    def __getitem__(self, ci):
        ev = json.loads(self.raws[ci])
        if isinstance(ev.get("items"), list):
            ev["items"] = f"({len(ev['items'])} items)"
        return [ev]


_seq = [0]


def validate(chk, cases, raws):
    """TLC judges the events: CHUNK events per trace file, 4 TLC instances at a time."""
    vlib.ensure_dirs()
    _seq[0] += 1
    spans = [(i, min(i + CHUNK, len(raws))) for i in range(0, len(raws), CHUNK)]

    def work(span):
        lo, hi = span
        path = os.path.join(vlib.WORK, f"trace-c18-{os.getpid()}-{_seq[0]}-{lo}.ndjson")
        with open(path, "wb") as f:
            for r in raws[lo:hi]:
                f.write(r)
                f.write(b"\n")
        try:
            v = vlib.validate_file("Trace_DateSerial", "Trace_DateSerial.cfg", path, chk.open_ids)
        finally:
            os.remove(path) if os.path.exists(path) else None
        return lo, v

    out = {"mismatch": [], "kf": [], "events": len(raws), "states": 0, "chunks": len(spans)}
    with ThreadPoolExecutor(max_workers=4) as ex:
        for lo, v in ex.map(work, spans):
            out["states"] += v.states
            # the long detail of a mismatch is printed as a one-line string "DETAIL <l> <text>"
            details = {}
            for line in v.out.splitlines():
                if line.startswith('"DETAIL '):
                    _, l, text = json.loads(line).split(" ", 2)
                    details.setdefault(int(l), []).append(text)
            out["mismatch"] += [(lo + l - 1, 0, d + " " + " ".join(details.get(l, [])))
                                for l, d in v.mismatches]                            # one event per case
            out["kf"] += [(fid, lo + l - 1, 0) for fid, l in v.kf]
    for ci, off, detail in out["mismatch"]:
        if detail.startswith('<<"gen"'):
            raise vlib.ToolError("generator and specification disagree on an enumeration: " + detail)
    chk.process_validation(out, cases, LazyEvents(raws), "dateserial", describe)


def run(chk):
    thorough = chk.tier == "thorough"
    vlib.tlc_mc("MC_DateSerial", "MC_DateSerial_thorough.cfg" if thorough else "MC_DateSerial.cfg", workers=4,
                must_take=["TickTime", "TickDay"], check=chk)
    distinct, stats = Distinct(), {}
    n_items, n_cases, first, last, rnd = 0, 0, None, None, []
    # Rounds keep the memory footprint flat (a thorough run has 10^7 inputs); the library is driven
    # for round k+1 while TLC (4 instances) validates round k.
    pending = None
    with ThreadPoolExecutor(max_workers=1) as validator:
        def flush():
            nonlocal n_items, first, last, rnd, pending
            if not rnd:
                return
            cases, rnd = rnd, []
            raws = drive(cases)
            n_items += sum(r.count(b'"c":') for r in raws)
            first = first or excerpt(raws[0], slice(58, 61))
            last = excerpt(raws[-1], slice(-2, None))
            if pending is not None:
                pending.result()
            pending = validator.submit(validate, chk, cases, raws)

        for c in gen_cases(chk, distinct, stats):
            c["case"] = n_cases
            n_cases += 1
            rnd.append(c)
            if len(rnd) >= ROUND:
                flush()
        flush()
        if pending is not None:
            pending.result()
    if stats["full_year_sweeps"] < (LAST - FIRST + 1):
        raise vlib.ToolError("generator did not sweep every year")
    chk.evaluations = n_items
    chk.nontrivial = distinct
    if len(distinct) < TOTAL_DAYS:
        raise vlib.ToolError("fewer distinct inputs than days in the date system")
    chk.extra.update(stats)
    chk.extra["days_of_date_system"] = TOTAL_DAYS
    chk.rule = ("an input is (calendar date, second of day); every one of the 2,958,464 days 1900-01-01..9999-12-31 "
                "is converted at least once (quick: one time of day per year rotating over 00:00:00, 12:00:00, 23:59:59, "
                "00:00:01, 01:00:00 and two random ones; thorough: 00:00:00, 12:00:00, 23:59:59 and a random one), each "
                "year batch ends with the next January 1st; every second of the listed representative days; distinct = "
                "number of distinct (date, second) pairs, all non-trivial (each has its own expected serial)")
    chk.sample({"event": first})
    chk.sample({"event": last})
    chk.assumptions += [
        "TLC's integer arithmetic, ToString, string concatenation and the CommunityModules Json reader are correct",
        "the driver re-encodes a returned f64 x losslessly as floor(x) and the 52 fraction bits (4 digits base 2^13); "
        "the returned chrono value is read through its Display text",
        "'gives the value defined by the date system' is read for a binary double as: integer part = day number "
        "exactly, fraction within 2^-13 s (0.12 ms; 3 ulp of the largest serial) of seconds/86400",
        "the displayed text is checked for the number format 'yyyy-mm-dd hh:mm:ss' and, on year ends / month ends / "
        "leap days / ordinary days at 00:00:00, 12:00:00, 23:59:29, 23:59:30, 23:59:45, 23:59:59, for yyyy-mm-dd, "
        "dd/mm/yyyy, m/d/yyyy, d-mmm-yy, yyyy/mm/dd;@ and yyyy-mm-dd hh:mm (unshown units are dropped, not rounded); "
        "the hh:mm:ss format is swept over (quick: every day of 160 "
        "selected years at one time of day, every day of 1900, 9999, 2024, 2000, 2100 and a seeded year at 00:00:00, "
        "the edge days of every year at 00:00:00 and at another time, 1/12 of the seconds; thorough: every day of every third "
        "year as well, 1/3 of the seconds)",
    ]


def replay(chk, path):
    with open(path) as f:
        rp = json.load(f)
    cases = [rp["script"]]
    validate(chk, cases, drive(cases))
