"""C08 - references keep their target cells across row/column insert and remove.

Spec: spec/Formula.tla (InsTok / RemTok / PostInsert / PostRemove over token lists, defined names and chart
series), spec/MC_Formula.tla (+ FormulaGen.tla): TLC places generated formulas in a three-sheet workbook, edits
any sheet and checks TargetsKept (every reference designates the moved target cells, everything else is
unchanged; stated on sets of grid cells).  Behaviours of that model and seeded random workbooks (formulas of
depth <= 6 from the expression grammar of checks/c09.py, histories of up to 4 edits next to the references and at
the grid limits) are executed by harness/src/bin/formula.rs through Spreadsheet::insert_new_row /
insert_new_column_by_index / remove_row / remove_column_by_index; spec/Trace_FormulaWb.tla judges every step.
"""
import json
import vlib
from checks import c09
from checks.c09 import geo, ref, tok, strtok, nametok, ws, render, toktext, MAXROW, MAXCOL

SHEETS = ["S1", "My Sheet", "O'Brien"]


def fatal_event(case, kind):
    e = dict(case)
    e.update({"a": "Fatal", "outcome": kind})
    return [e]


def qref(sheet, g):
    """a qualified reference to `sheet`, written plainly when the name allows it"""
    return ref(sheet, not sheet.isalnum(), g)


def cellg(c, r, lc=False, lr=False):
    return geo("cell", c, r, lc, lr)


def rectg(c1, r1, c2, r2, l=False):
    return geo("rect", c1, r1, l, l, c2, r2, l, l)


KIND_ORDER = ["line", "pie", "bar", "area"]      # the library lists the kinds of a plot area in this order


def chart_entry(ch):
    """(on, series refs[, kind per series]): the series are listed kind by kind in the library's order; more than one
    kind makes a combination chart (several chart kinds in one plot area)"""
    on, ts = ch[0], ch[1]
    kinds = list(ch[2]) if len(ch) > 2 else ["line"] * len(ts)
    order = sorted(range(len(ts)), key=lambda i: (KIND_ORDER.index(kinds[i]), i))
    ts, kinds = [ts[i] for i in order], [kinds[i] for i in order]
    return {"on": on, "toks": ts, "addrs": [toktext(t) for t in ts], "kinds": kinds}


def cell_entry(k, cell):
    """(s, r, c, tokens[, members]): with members [(r, c), ..] the cell is the master of shared-formula group k"""
    s, r, c, t = cell[:4]
    members = cell[4] if len(cell) > 4 else []
    return {"s": s, "r": r, "c": c, "toks": t, "f": render(t), "si": k, "members": [{"r": mr, "c": mc} for mr, mc in members]}


def wb_case(cells, steps, names=(), charts=(), sheets=SHEETS):
    entries = [cell_entry(k, cell) for k, cell in enumerate(cells)]
    return {"kind": "wb", "sheets": list(sheets),
            "load": any(e["members"] for e in entries),      # shared groups only exist in a workbook read from a file
            "cells": entries,
            "names": [{"on": on, "name": nm, "tok": t, "addr": toktext(t)} for on, nm, t in names],
            "charts": [chart_entry(ch) for ch in sorted(charts, key=lambda x: x[0])],
            "steps": [{"a": a, "s": s, "ax": ax, "p": p, "n": n} for a, s, ax, p, n in steps]}


def from_replay(rp):
    init = rp[0]
    charts = sorted(init["charts"], key=lambda x: x["on"])
    cells = [dict(x, si=x.get("si", k), members=x.get("members", [])) for k, x in enumerate(init["cells"])]
    return {"kind": "wb", "sheets": init["sheets"], "load": False, "cells": cells, "names": init["names"], "charts": charts,
            "steps": rp[1:]}


def exemplars():
    """One deterministic case per open finding (so that every KNOWN-FINDING line is printed on every run) and a
    few cases the implementation handles as intended."""
    A1, A7 = ref([], False, cellg(1, 1)), ref([], False, cellg(1, 7))
    plus = tok("op", "+")
    out = []
    # as intended: relative references on the edited sheet and into it
    out.append(wb_case([(1, 9, 3, [A7, plus, ref("S1", False, rectg(1, 3, 2, 9))]), (2, 2, 2, [ref("S1", False, cellg(1, 7)), plus, A7])],
                       [("Insert", 1, "row", 3, 2), ("Remove", 1, "row", 1, 2), ("Insert", 1, "col", 1, 3)]))
    # KF9 lock: $A$7 must follow its target
    out.append(wb_case([(1, 9, 3, [ref([], False, cellg(1, 7, True, True)), plus, ref([], False, cellg(2, 7, False, True))])],
                       [("Insert", 1, "row", 3, 2), ("Remove", 1, "row", 1, 1)]))
    # KF10 band: target deleted / range clipped
    out.append(wb_case([(1, 20, 3, [ref([], False, cellg(1, 7)), plus, ref([], False, rectg(1, 6, 1, 12))])], [("Remove", 1, "row", 5, 3)]))
    out.append(wb_case([(1, 20, 9, [ref([], False, cellg(1, 1)), plus, ref([], False, cellg(3, 3))])], [("Remove", 1, "row", 1, 2)]))
    out.append(wb_case([(1, 20, 9, [ref([], False, cellg(1, 1)), plus, ref([], False, cellg(4, 3))])], [("Remove", 1, "col", 1, 2)]))
    out.append(wb_case([(1, 20, 9, [ref([], False, cellg(2, 1))])], [("Remove", 1, "col", 1, 2)]))          # column 0: panic
    # KF8 whole rows / columns never shift; KF7 whole column / capitalised name panics on remove
    out.append(wb_case([(1, 20, 9, [ref([], False, geo("rows", 0, 4, False, False, 0, 6, False, False))])], [("Insert", 1, "row", 2, 3)]))
    out.append(wb_case([(1, 20, 9, [ref([], False, geo("cols", 2, 0, False, False, 3, 0, False, False))])], [("Insert", 1, "col", 2, 1)]))
    out.append(wb_case([(1, 20, 9, [ref([], False, geo("cols", 2, 0, False, False, 3, 0, False, False))])], [("Remove", 2, "row", 2, 1)]))
    out.append(wb_case([(2, 20, 9, [nametok("Total"), plus, A1])], [("Insert", 1, "row", 2, 1), ("Remove", 3, "col", 2, 1)]))
    # KF3 quoted sheet names, KF4 doubled quotes, KF5 arrays, KF6 unary plus, KF2 trailing blank
    out.append(wb_case([(1, 9, 9, [ref("My Sheet", True, cellg(1, 5)), plus, tok("num", "1")]), (2, 9, 9, [A1, plus, ref("My Sheet", True, cellg(1, 5))]),
                        (3, 9, 9, [A1, plus, ref("O'Brien", True, cellg(1, 5))])], [("Insert", 2, "row", 2, 3)]))
    out.append(wb_case([(3, 9, 9, [A1, plus, ref("O'Brien", True, cellg(1, 5))])], [("Insert", 3, "row", 2, 3)]))
    out.append(wb_case([(2, 9, 9, [strtok('a"b'), tok("op", "&"), A7])], [("Insert", 2, "row", 2, 3)]))
    out.append(wb_case([(2, 9, 9, [tok("fn", "SUM"), {"k": "arr", "rows": [["1", "2"], ["3", "4"]]}, tok("close", ")")])], [("Insert", 1, "row", 2, 3)]))
    out.append(wb_case([(2, 9, 9, [tok("pre", "+"), A7])], [("Insert", 2, "row", 2, 3), ("Insert", 2, "row", 1, 1)]))
    out.append(wb_case([(2, 9, 9, [A7, ws(1)])], [("Insert", 1, "row", 2, 3)]))
    # KF11 defined names kept elsewhere than on the edited sheet; KF12 chart series under removal
    names = [(1, "N1", qref("S1", cellg(1, 7, True, True))), (2, "N2", qref("S1", rectg(1, 7, 2, 9, True))),
             (0, "", qref("S1", cellg(1, 7, True, True))), (2, "N3", qref("My Sheet", cellg(1, 1, True, True))),
             (3, "N4", qref("O'Brien", rectg(1, 4, 1, 5, True)))]
    charts = [(2, [qref("S1", rectg(1, 1, 1, 10, True)), qref("My Sheet", rectg(2, 1, 2, 10, True))]), (1, [qref("S1", rectg(1, 4, 1, 5, True))])]
    out.append(wb_case([(1, 30, 3, [A7])], [("Insert", 1, "row", 3, 2)], names, charts))
    out.append(wb_case([(1, 30, 3, [A7])], [("Remove", 1, "row", 5, 1)], names, charts))
    out.append(wb_case([(1, 30, 3, [A7])], [("Remove", 3, "row", 4, 2), ("Insert", 3, "col", 1, 1)], names, charts))
    # intersections whose operands are function calls, parenthesised ranges and names (the blank between two
    # operands is an operator and must survive every re-rendering), on the edited sheet and on another one
    rng_ = lambda c1, r1, c2, r2: ref([], False, rectg(c1, r1, c2, r2))
    sep, close, isect1 = tok("sep", ","), tok("close", ")"), c09.isect(1)
    index_call = [tok("fn", "INDEX"), rng_(1, 1, 3, 6), sep, tok("num", "0"), sep, tok("num", "2"), close]
    isects = [
        [tok("fn", "SUM")] + index_call + [isect1, rng_(1, 3, 3, 4), close],                  # SUM(INDEX(A1:C6,0,2) A3:C4)
        [tok("open", "("), rng_(1, 1, 2, 6), close, c09.isect(2), rng_(2, 3, 3, 8)],            # (A1:B6)  B3:C8
        [nametok("rate"), isect1, rng_(1, 3, 3, 4)],                                          # rate A3:C4
        [nametok("Total"), isect1, tok("open", "("), rng_(1, 3, 3, 4), close],                # Total (A3:C4)
        [rng_(1, 1, 3, 9), isect1, tok("fn", "OFFSET"), rng_(2, 2, 2, 5), sep, tok("num", "1"), sep, tok("num", "0"), close],
        [tok("fn", "SUM")] + index_call[:-1] + [close, isect1, tok("fn", "INDEX"), ref("S1", False, rectg(1, 2, 3, 7)), sep, tok("num", "1"), close, close],
        [tok("open", "("), rng_(1, 1, 2, 6), close, isect1, tok("open", "("), ref("S1", False, rectg(2, 3, 3, 8)), close],
    ]
    for k, f in enumerate(isects):
        s_own = 1 + k % 2
        out.append(wb_case([(s_own, 30, 6, f), (3 - s_own, 31, 6, f)],
                           [("Insert", 1, "row", 2, 2), ("Remove", 2, "col", 1, 1), ("Remove", 1, "row", 3, 1)]))
    # combination charts: two and three chart kinds in one plot area, every kind with a series into the edited sheet
    # and one into another sheet, next to a single-kind chart
    ser = lambda sh, c, r1, r2: qref(sh, rectg(c, r1, c, r2, True))
    combo2 = (2, [ser("S1", 2, 2, 6), ser("My Sheet", 3, 2, 6), ser("S1", 4, 2, 6), ser("My Sheet", 2, 4, 9)], ["bar", "bar", "line", "line"])
    combo3 = (1, [ser("S1", 1, 3, 8), ser("My Sheet", 1, 3, 8), ser("S1", 2, 3, 8), ser("My Sheet", 2, 1, 5), ser("S1", 3, 5, 7), ser("My Sheet", 3, 2, 4)],
              ["area", "area", "line", "line", "bar", "bar"])
    single = (3, [ser("S1", 5, 2, 6), ser("My Sheet", 5, 2, 6)], ["pie", "pie"])
    for steps in ([("Insert", 1, "row", 1, 2), ("Remove", 1, "col", 1, 1), ("Insert", 2, "row", 1, 3)],
                  [("Insert", 2, "col", 2, 1), ("Remove", 2, "row", 5, 2)],
                  [("Remove", 1, "row", 4, 1), ("Insert", 3, "row", 1, 1), ("Insert", 1, "col", 3, 2)]):
        out.append(wb_case([(3, 40, 9, [A7])], steps, [], [combo2, combo3, single]))
    # shared-formula groups (workbook read from a file): the members carry the master's formula translated to their
    # position; groups on the edited sheet and on another one, with references into the edited sheet, into their own
    # sheet (qualified and unqualified) and into a third sheet; insert and remove, rows and columns
    def group_formula(own):
        return [ref("S1", False, cellg(1, 5)), tok("op", "*"), tok("num", "2"), plus, ref([], False, cellg(3, 1, True, True)), plus,
                qref(own, cellg(4, 1)), plus, ref([], False, rectg(1, 6, 2, 8)), plus, qref("O'Brien", cellg(2, 7, False, True))]
    for own_i in (2, 1):
        own = SHEETS[own_i - 1]
        down = (own_i, 1, 6, group_formula(own), [(2, 6), (3, 6)])           # master F1, members F2, F3
        right = (own_i, 12, 6, group_formula(own), [(12, 7), (12, 8)])       # master F12, members G12, H12
        lone = (3, 2, 2, [ref("S1", False, cellg(1, 5)), plus, A7])
        for steps in ([("Insert", 1, "row", 2, 3)], [("Insert", 1, "col", 1, 2)], [("Remove", 1, "row", 2, 2)],
                      [("Remove", 1, "col", 3, 1)], [("Insert", 2, "row", 1, 1), ("Insert", 1, "row", 6, 1), ("Insert", 3, "col", 2, 1)]):
            out.append(wb_case([down, right, lone], steps))
    return out


def hang_cases():
    A7 = ref([], False, cellg(1, 7))
    return [wb_case([(2, 9, 9, [tok("fn", "SUM"), tok("brk", "Table1[Col]"), tok("close", ")")]), (1, 2, 2, [A7])], [("Insert", 1, "row", 2, 3)]),
            wb_case([(1, 9, 9, [tok("brk", "[1]Sheet1!$A$1"), tok("op", "+"), A7])], [("Remove", 3, "col", 2, 1)])]


def coords_of(toks, own, sheet, ax):
    vals = []
    for t in toks:
        if t["k"] == "ref" and (("".join(t["qc"]) == sheet) if t["qc"] else own == sheet):
            g = t["g"]
            if ax == "row" and g["k"] in ("cell", "rect", "rows"):
                vals += [g["r1"]] + ([g["r2"]] if g["k"] != "cell" else [])
            if ax == "col" and g["k"] in ("cell", "rect", "cols"):
                vals += [g["c1"]] + ([g["c2"]] if g["k"] != "cell" else [])
    return vals


def random_cases(rng, count, depth_max):
    cases = []
    pool = ["S1", "My Sheet", "O'Brien", "Data", "Jan-Mar"]
    for _ in range(count):
        sheets = rng.sample(pool, rng.choice([2, 3, 3]))
        far = rng.random() < 0.3
        small = None if far else (rng.choice([12, 40]), rng.choice([8, 30]))
        cells, used = [], set()
        for _k in range(rng.choice([1, 2, 2, 3])):
            s = rng.randint(1, len(sheets))
            if far:
                r, c = rng.choice([1, 5, MAXROW - 5, MAXROW - 40]), rng.choice([1, 3, MAXCOL - 3, MAXCOL - 30])
            else:
                r, c = rng.randint(1, small[0]), rng.randint(1, small[1])
            if (s, r, c) in used:
                continue
            used.add((s, r, c))
            toks = c09.random_formula(rng, depth=rng.randint(1, depth_max), sheets=sheets, own=sheets[s - 1], small=small,
                                      max_ws=3, allow=("apos", "trail"))
            members = []
            if not far and rng.random() < 0.3:          # master of a shared-formula group: members below or to the right
                down = rng.random() < 0.6
                for d in range(1, rng.choice([1, 2, 3]) + 1):
                    m = (r + d, c) if down else (r, c + d)
                    if (s,) + m in used:
                        break
                    used.add((s,) + m)
                    members.append(m)
            cells.append((s, r, c, toks, members))
        has_groups = any(cl[4] for cl in cells)
        names, charts = [], []
        for k in range(0 if has_groups else rng.choice([0, 0, 1, 2, 3])):      # (loaded workbooks: formula cells only)
            target = rng.choice(sheets)
            g = c09.Gen(rng, small=small).geometry()
            if g["k"] not in ("cell", "rect"):
                g = cellg(g["c1"] or 1, g["r1"] or 1, g["lc1"], g["lr1"])
            on = rng.choice([0] + list(range(1, len(sheets) + 1))) if k else rng.randint(1, len(sheets))
            if on == 0 and any(n[0] == 0 for n in names):
                continue
            names.append((on, "" if on == 0 else f"N{k + 1}", qref(target, g)))
        chartable = [s for s in sheets if "'" not in s and "-" not in s]
        if chartable and not has_groups and rng.random() < 0.35:
            ts = []
            for _k in range(rng.choice([1, 2])):
                target = rng.choice(chartable)
                g = c09.Gen(rng, small=small).geometry()
                if g["k"] != "rect":
                    g = rectg(g["c1"] or 1, g["r1"] or 1, (g["c1"] or 1), (g["r1"] or 1) + 3, True)
                    if g["r2"] > MAXROW:
                        g = rectg(g["c1"], MAXROW - 3, g["c1"], MAXROW, True)
                g = dict(g, lc1=True, lr1=True, lc2=True, lr2=True)
                ts.append(qref(target, g))
            nk = rng.choice([1, 1, 2, 3])
            if nk > 1:                      # combination chart: every kind gets a series into each chartable sheet
                kinds_used = rng.sample(KIND_ORDER, nk)
                ts2, kinds = [], []
                for kd in kinds_used:
                    for target in chartable[:2]:
                        g = c09.Gen(rng, small=small).geometry()
                        c1, r1 = (g["c1"] or 1), (g["r1"] or 1)
                        r1 = min(r1, MAXROW - 3)
                        ts2.append(qref(target, rectg(c1, r1, c1, r1 + rng.randint(0, 3), True)))
                        kinds.append(kd)
                charts.append((rng.randint(1, len(sheets)), ts2, kinds))
            else:
                charts.append((rng.randint(1, len(sheets)), ts, [rng.choice(KIND_ORDER)] * len(ts)))
        # histories: positions next to the coordinates the formulas mention; `top` bounds every occupied or
        # referenced line from above (raised by every edit: chart series grow even under removal, C08-KF12)
        top = {}
        alltoks = [(cl[3], sheets[cl[0] - 1]) for cl in cells] + [([n[2]], "") for n in names] + [(ch[1], "") for ch in charts]
        for si, sh in enumerate(sheets, 1):
            for ax in ("row", "col"):
                vals = [v for t, own in alltoks for v in coords_of(t, own, sh, ax)]
                vals += [(cl[1] if ax == "row" else cl[2]) for cl in cells if cl[0] == si]
                # members of a group sit up to 3 lines further and their references are translated by as much
                top[(si, ax)] = ((max(vals) if vals else 1) + (3 if has_groups else 0), sorted(set(vals)))
        steps = []
        for _k in range(rng.choice([1, 1, 2, 3, 4])):
            si = rng.randint(1, len(sheets))
            ax = rng.choice(["row", "col"])
            lim = MAXROW if ax == "row" else MAXCOL
            hi, vals = top[(si, ax)]
            near = [v + d for v in vals for d in (-2, -1, 0, 1)] + [1, 2, hi, hi + 1, lim]
            p = max(1, min(lim, rng.choice(near)))
            if rng.random() < 0.5:
                room = lim - hi
                if room <= 0:
                    continue
                n = max(1, min(room, rng.choice([1, 1, 2, 3, 7, room])))
                steps.append(("Insert", si, ax, p, n))
            else:
                n = rng.choice([1, 1, 2, 3, 5, 11] + ([lim - p + 1, 1000] if ax == "row" else [20]))
                n = max(1, min(n, lim - p + 1, 20 if ax == "col" else lim))
                if lim - hi < n:            # chart series are shifted up by n (C08-KF12): stay in the grid
                    continue
                steps.append(("Remove", si, ax, p, n))
            top[(si, ax)] = (hi + n, vals)
        if steps and cells:
            cases.append(wb_case(cells, steps, names, charts, sheets))
    return cases


def gen_cases(chk):
    rng = chk.rng
    quick = chk.tier == "quick"
    cases = exemplars()
    n0 = len(cases)
    cfgs = ["MC_Formula_replay.cfg", "MC_Formula_replay2.cfg"] + ([] if quick else ["MC_Formula_replay_d2.cfg"])
    for cfg in cfgs:
        r = vlib.run_tlc("MC_Formula", cfg, workers=4, coverage=False, timeout=3000)
        if not r.ok or not r.replays:
            raise vlib.ToolError(f"replay generation with {cfg} failed: " + (r.violation or r.out[-500:]))
        cases += [from_replay(rp) for rp in r.replays]
    # intersections with function calls / parenthesised ranges / names as operands (5-token formulas of the model):
    # all behaviours whose formula contains an intersection (quick: a seeded sample of them)
    r = vlib.run_tlc("MC_Formula", "MC_Formula_replay_isect.cfg", workers=4, coverage=False, timeout=3000)
    if not r.ok or not r.replays:
        raise vlib.ToolError("replay generation with MC_Formula_replay_isect.cfg failed: " + (r.violation or r.out[-500:]))
    with_isect = [rp for rp in r.replays if any(t["k"] == "isect" for x in rp[0]["cells"] for t in x["toks"])]
    if quick:
        with_isect = rng.sample(with_isect, min(1200, len(with_isect)))
    cases += [from_replay(rp) for rp in with_isect]
    n1 = len(cases)
    cases += random_cases(rng, 1500 if quick else 40000, 4 if quick else 6)
    hangs = hang_cases()
    # TLC's palette contains a bracketed reference: those behaviours hang the library (C08-KF1); drive a bounded sample
    hang_more = [c for c in cases if any(c09.has_brk(x["toks"]) for x in c["cells"])]
    cases = [c for c in cases if not any(c09.has_brk(x["toks"]) for x in c["cells"])]
    rng.shuffle(hang_more)
    hangs += hang_more[:6 if quick else 30]
    for i, c in enumerate(cases + hangs):
        c["case"] = i
    chk.extra["cases"] = {"exemplars": n0, "tlc_behaviours": n1 - n0, "random_workbooks": len(cases) - (n1 - len(hang_more)),
                          "bracket_cases_driven": len(hangs), "bracket_cases_generated": len(hang_more) + 2}
    return cases, hangs


def describe(case, ev, detail):
    if ev is None:
        return detail
    head = {k: v for k, v in ev.items() if k in ("a", "s", "ax", "p", "n", "outcome")}
    return f"step {json.dumps(head)} of workbook with formulas {[x['f'] for x in case['cells']]}: {detail}"


def localise_fatal(case, evs):
    """A case that hung (or killed the driver) is re-run on growing prefixes of its history to find the step at
    which it happens: the events of the steps before it are judged as usual, the fatal step is logged as that
    step with outcome "timeout" / "crash" (no observation)."""
    if not (len(evs) == 1 and evs[0].get("a") == "Fatal"):
        return evs
    kind = evs[0]["outcome"]
    prev = None
    for k in range(0, len(case["steps"]) + 1):
        prefix = dict(case, steps=case["steps"][:k])
        r = vlib.run_cases("formula", [prefix], timeout=4, jobs=1, fatal_event=fatal_event)[0]
        if len(r) == 1 and r[0].get("a") == "Fatal":
            if prev is None:
                return evs                      # even building the workbook fails: leave the Fatal event
            st = dict(case["steps"][k - 1], case=case.get("case", 0), outcome=r[0]["outcome"],
                      obs={"cells": [], "names": [], "charts": []})
            return prev + [st]
        prev = r
    return prev if kind == "timeout" else evs   # the whole history completes now: the time-out was the machine's


def judge(chk, cases, hangs=()):
    events = vlib.run_cases("formula", cases, timeout=20, fatal_event=fatal_event) if cases else []
    hangs = list(hangs)
    if hangs:
        events += vlib.run_cases("formula", hangs, timeout=4, jobs=min(12, len(hangs)), fatal_event=fatal_event)
    allcases = list(cases) + hangs
    events = [localise_fatal(c, ev) for c, ev in zip(allcases, events)]
    out = vlib.validate("Trace_FormulaWb", "Trace_FormulaWb.cfg", events, chk.open_ids, "c08", chunk_events=1200)
    first = {}
    for ci, off, detail in out["mismatch"]:
        if ci not in first or off < first[ci][0]:
            first[ci] = (off, detail)
    for ci, (off, detail) in first.items():
        if detail.startswith('<<"gen"'):
            raise vlib.ToolError(f"generator produced an out-of-contract case (case {ci}, step {off}): {detail[:300]} "
                                 f"{json.dumps(allcases[ci])[:600]}")
    chk.process_validation(out, allcases, events, "formula", describe)
    return events


def run(chk):
    vlib.tlc_mc("MC_Formula", "MC_Formula.cfg", workers=4, must_take=["Place", "Insert", "Remove"], check=chk)
    vlib.tlc_mc("MC_Formula", "MC_Formula_f3.cfg", workers=4, must_take=["Place", "Insert", "Remove"], check=chk)
    if chk.tier == "thorough":
        vlib.tlc_mc("MC_Formula", "MC_Formula_thorough.cfg", workers=4, timeout=7200, heap="12g", check=chk)
        vlib.tlc_mc("MC_Formula", "MC_Formula_thorough_d3.cfg", workers=4, timeout=7200, heap="12g", check=chk)
    cases, hangs = gen_cases(chk)
    events = judge(chk, cases, hangs)
    allc = cases + hangs
    chk.evaluations = sum(len(c["steps"]) * max(1, len(c["cells"]) + len(c["names"]) + len(c["charts"])) for c in allc)
    chk.nontrivial = {json.dumps([[x["s"], x["r"], x["c"], x["f"]] for x in c["cells"]] + c["steps"], sort_keys=True) for c in allc}
    chk.rule = ("a case is a workbook (2-3 sheets incl. 'My Sheet' and O'Brien, 1-3 formula cells, defined names on sheets and at "
                "workbook level, single-kind and combination charts whose series of every kind are read back) plus a history of 1-4 workbook-level insert/remove row/column edits; cases = fixed "
                "exemplars (incl. shared-formula groups of a workbook saved to memory and read back, intersections with function-call / parenthesised / name operands and 2- and 3-kind "
                "combination charts), every depth-1 behaviour of the bounded TLC model (thorough: + depth 2) and seeded random workbooks with "
                "formulas of depth <= 4 (thorough: 6) edited next to the mentioned coordinates and at the grid limits; distinct = "
                "different (formulas, history); evaluations = (formula cells + names + charts) x steps judged")
    chk.sample({"cells": [x["f"] for x in allc[0]["cells"]], "steps": allc[0]["steps"],
                "observed_after_last_step": events[0][-1].get("obs", {})})
    chk.sample({"cells": [x["f"] for x in allc[len(cases) - 1]["cells"]], "steps": allc[len(cases) - 1]["steps"]})
    chk.assumptions += [
        "generation class of formulas as in C09 (at most one of quoted sheet / bracket / trailing blank per formula; plain "
        "lexemes after a quoted sheet); in-range edits only (no cell or referenced line pushed beyond XFD1048576)",
        "after a step explained by an open finding whose result is no longer a token list of the grammar (or after a panic "
        "half-way through an edit) the remaining steps of that case are not judged",
        "defined names and chart series are cell/range references with a sheet qualifier; chart series do not use sheet names "
        "with apostrophes; a qualifier may be re-written in apostrophes, a one-cell range may be read back as a cell, a deleted "
        "defined name may be dropped, empty or #REF!",
        "column removals in random cases are at most 20 wide (tabulated u32 wrap-around of C08-KF10)",
    ]


def replay(chk, path):
    with open(path) as f:
        rp = json.load(f)
    c = rp["script"]
    if any(c09.has_brk(x["toks"]) for x in c["cells"]):
        judge(chk, [], [c])
    else:
        judge(chk, [c])
