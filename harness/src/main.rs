//! `drive <domain>`: action interpreter for the conformance checks of /verif.
//!
//! Reads one JSON case per line on stdin, executes it against the real library (path dependency on
//! /repo, built from its current working tree) and prints one line per case: the JSON array of the
//! events the case produced (arguments, outcome, projection of the real state through public API).
//! The driver never judges: events are validated by TLC against /verif/spec/Trace_*.tla.
//! Output is ASCII-only JSON (non-ASCII as \uXXXX), floats and u64 are logged as strings.
use serde_json::{json, Value};
use std::io::{BufRead, Write};

mod util;
mod codec;

fn main() {
    let args: Vec<String> = std::env::args().collect();
    if args.len() < 2 {
        eprintln!("usage: drive <domain>   (cases on stdin, events on stdout)");
        std::process::exit(2);
    }
    std::panic::set_hook(Box::new(|_| {}));
    let domain = args[1].as_str();
    let run: fn(&Value) -> Vec<Value> = match domain {
        "codec" => codec::run,
        _ => {
            eprintln!("unknown domain {}", domain);
            std::process::exit(2);
        }
    };
    let stdin = std::io::stdin();
    let stdout = std::io::stdout();
    let mut out = stdout.lock();
    for line in stdin.lock().lines() {
        let line = match line {
            Ok(l) => l,
            Err(_) => break,
        };
        if line.trim().is_empty() {
            continue;
        }
        let case: Value = match serde_json::from_str(&line) {
            Ok(v) => v,
            Err(e) => {
                eprintln!("bad case: {}", e);
                std::process::exit(2);
            }
        };
        let id = case.get("case").cloned().unwrap_or(Value::Null);
        let events = match std::panic::catch_unwind(|| run(&case)) {
            Ok(ev) => ev,
            Err(p) => vec![json!({"a": "Fatal", "case": id, "outcome": "panic", "msg": util::panic_msg(&p)})],
        };
        let s = util::ascii_json(&Value::Array(events));
        if out.write_all(s.as_bytes()).is_err() || out.write_all(b"\n").is_err() || out.flush().is_err() {
            break;
        }
    }
}
