use serde_json::Value;
use std::any::Any;

/// Serialise with every non-ASCII character written as \uXXXX (TLC's Json module mangles raw UTF-8).
pub fn ascii_json(v: &Value) -> String {
    let s = serde_json::to_string(v).unwrap();
    if s.is_ascii() {
        return s;
    }
    let mut o = String::with_capacity(s.len() + 16);
    for ch in s.chars() {
        if (ch as u32) < 0x7f {
            o.push(ch);
        } else {
            let mut buf = [0u16; 2];
            for u in ch.encode_utf16(&mut buf) {
                o.push_str(&format!("\\u{:04x}", u));
            }
        }
    }
    o
}

pub fn panic_msg(p: &Box<dyn Any + Send>) -> String {
    if let Some(s) = p.downcast_ref::<&str>() {
        s.to_string()
    } else if let Some(s) = p.downcast_ref::<String>() {
        s.clone()
    } else {
        "?".to_string()
    }
}

/// Run `f`; a panic becomes the JSON string "panic" (a panic of the code under test is data).
pub fn guard<F: FnOnce() -> Value + std::panic::UnwindSafe>(f: F) -> Value {
    match std::panic::catch_unwind(f) {
        Ok(v) => v,
        Err(_) => Value::String("panic".to_string()),
    }
}

pub fn u(v: &Value, k: &str) -> u32 {
    v[k].as_u64().unwrap_or_else(|| panic!("case field {} missing", k)) as u32
}
pub fn b(v: &Value, k: &str) -> bool {
    v[k].as_bool().unwrap_or_else(|| panic!("case field {} missing", k))
}
pub fn s<'a>(v: &'a Value, k: &str) -> &'a str {
    v[k].as_str().unwrap_or_else(|| panic!("case field {} missing", k))
}
