//! Domain `sheet` (C07): structural edits against the reference grid of spec/Sheet.tla.
//!
//! case = {"case": id, "steps": [ {"a":"Init","sheets":[..]}, {"a":"Insert","s":1,"ax":"row","p":2,"n":1,"lvl":"wb"}, .. ]}
//! Every step yields one event: the step's fields + "outcome" ("ok" | "panic") + "obs" = projection
//! of every sheet through public getters.  Sheet indices are 1-based (TLA+ sequences).
use serde_json::{json, Value};
use std::panic::{catch_unwind, AssertUnwindSafe};
use umya_spreadsheet::helper::coordinate::coordinate_from_index;
use umya_spreadsheet::structs::{Cell, Comment, ConditionalFormatting, ConditionalFormattingRule, Range, Spreadsheet, Worksheet};
use uverif::*;

fn main() {
    serve(run);
}

const OOB: u32 = 2_000_000_000; // anything above is logged as this value (TLC integers are 32 bit)
fn clamp(x: u32) -> u32 {
    x.min(OOB)
}

fn rect_str(g: &Value) -> String {
    format!(
        "{}:{}",
        coordinate_from_index(&u(g, "c1"), &u(g, "r1")),
        coordinate_from_index(&u(g, "c2"), &u(g, "r2"))
    )
}

fn rect_of(r: &Range) -> Value {
    let c1 = r.get_coordinate_start_col().map(|x| *x.get_num()).unwrap_or(0);
    let r1 = r.get_coordinate_start_row().map(|x| *x.get_num()).unwrap_or(0);
    let c2 = r.get_coordinate_end_col().map(|x| *x.get_num()).unwrap_or(c1);
    let r2 = r.get_coordinate_end_row().map(|x| *x.get_num()).unwrap_or(r1);
    json!({"r1": clamp(r1), "c1": clamp(c1), "r2": clamp(r2), "c2": clamp(c2)})
}

fn make_cell(c: &Value) -> Cell {
    let mut cell = Cell::default();
    cell.get_coordinate_mut().set_col_num(u(c, "c")).set_row_num(u(c, "r"));
    cell.set_value_string(s(c, "v"));
    if !s(c, "f").is_empty() {
        cell.set_formula(s(c, "f"));
        cell.set_formula_result_default(s(c, "v"));
    }
    if !s(c, "s").is_empty() {
        cell.get_style_mut().get_number_format_mut().set_format_code(s(c, "s"));
    }
    if !s(c, "u").is_empty() {
        cell.get_hyperlink_mut().set_url(s(c, "u"));
    }
    cell
}

fn build(step: &Value) -> Spreadsheet {
    let mut book = umya_spreadsheet::new_file_empty_worksheet();
    for sh in step["sheets"].as_array().unwrap() {
        let ws = book.new_sheet(s(sh, "name")).unwrap();
        for c in sh["cells"].as_array().unwrap() {
            ws.set_cell(make_cell(c));
        }
        for r in sh["rows"].as_array().unwrap() {
            ws.get_row_dimension_mut(&u(r, "r")).set_height(u(r, "h") as f64);
        }
        for c in sh["cols"].as_array().unwrap() {
            ws.get_column_dimension_by_number_mut(&u(c, "c")).set_width(u(c, "w") as f64);
        }
        for g in sh["merges"].as_array().unwrap() {
            ws.add_merge_cells(rect_str(g));
        }
        for c in sh["comments"].as_array().unwrap() {
            let mut cm = Comment::default();
            cm.new_comment((u(c, "c"), u(c, "r")));
            cm.set_text_string(s(c, "t"));
            ws.add_comments(cm);
        }
        for x in sh["cf"].as_array().unwrap() {
            let mut cf = ConditionalFormatting::default();
            cf.get_sequence_of_references_mut().set_sqref(rect_str(&x["g"]));
            let mut rule = ConditionalFormattingRule::default();
            rule.set_priority(i(x, "id") as i32);
            cf.add_conditional_collection(rule);
            ws.add_conditional_formatting_collection(cf);
        }
        for g in sh["af"].as_array().unwrap() {
            ws.set_auto_filter(rect_str(g));
        }
    }
    book
}

fn project_sheet(ws: &Worksheet) -> Value {
    let mut cells = vec![];
    for c in ws.get_cell_collection_sorted() {
        let co = c.get_coordinate();
        let sty = c
            .get_style()
            .get_number_format()
            .map(|n| n.get_format_code().to_string())
            .unwrap_or_default();
        let sty = if sty == "General" { String::new() } else { sty };
        cells.push(json!({
            "r": clamp(*co.get_row_num()), "c": clamp(*co.get_col_num()),
            "v": c.get_value().to_string(), "f": c.get_formula(), "s": sty,
            "u": c.get_hyperlink().map(|h| h.get_url().to_string()).unwrap_or_default(),
        }));
    }
    let mut rows: Vec<(u32, Value)> = ws
        .get_row_dimensions()
        .iter()
        .filter(|r| *r.get_height() != 0.0)
        .map(|r| (*r.get_row_num(), json!({"r": clamp(*r.get_row_num()), "h": *r.get_height() as i64})))
        .collect();
    rows.sort_by_key(|x| x.0);
    let mut cols: Vec<(u32, Value)> = ws
        .get_column_dimensions()
        .iter()
        .filter(|c| *c.get_width() != 8.38)
        .map(|c| (*c.get_col_num(), json!({"c": clamp(*c.get_col_num()), "w": *c.get_width() as i64})))
        .collect();
    cols.sort_by_key(|x| x.0);
    let merges: Vec<Value> = ws.get_merge_cells().iter().map(rect_of).collect();
    let comments: Vec<Value> = ws
        .get_comments()
        .iter()
        .map(|c| {
            json!({"r": clamp(*c.get_coordinate().get_row_num()), "c": clamp(*c.get_coordinate().get_col_num()),
                   "t": c.get_text().get_text().to_string()})
        })
        .collect();
    let cf: Vec<Value> = ws
        .get_conditional_formatting_collection()
        .iter()
        .map(|x| {
            let rs = x.get_sequence_of_references().get_range_collection();
            let g = if rs.len() == 1 { rect_of(&rs[0]) } else { json!({"r1":0,"c1":0,"r2":0,"c2":rs.len()}) };
            let id = x.get_conditional_collection().first().map(|r| *r.get_priority()).unwrap_or(-1);
            json!({"id": id, "g": g})
        })
        .collect();
    let af: Vec<Value> = ws.get_auto_filter().iter().map(|a| rect_of(a.get_range())).collect();
    json!({"name": ws.get_name(), "cells": cells,
           "rows": rows.into_iter().map(|x| x.1).collect::<Vec<_>>(),
           "cols": cols.into_iter().map(|x| x.1).collect::<Vec<_>>(),
           "merges": merges, "comments": comments, "cf": cf, "af": af})
}

fn project(book: &Spreadsheet) -> Value {
    Value::Array(book.get_sheet_collection().iter().map(project_sheet).collect())
}

fn apply(book: &mut Spreadsheet, st: &Value) {
    let a = s(st, "a");
    let si = u(st, "s") as usize - 1;
    match a {
        "Insert" | "Remove" => {
            let (p, n) = (u(st, "p"), u(st, "n"));
            let row = s(st, "ax") == "row";
            let wb = s(st, "lvl") == "wb";
            if wb {
                let name = book.get_sheet(&si).unwrap().get_name().to_string();
                match (a, row) {
                    ("Insert", true) => book.insert_new_row(&name, &p, &n),
                    ("Insert", false) => book.insert_new_column_by_index(&name, &p, &n),
                    ("Remove", true) => book.remove_row(&name, &p, &n),
                    _ => book.remove_column_by_index(&name, &p, &n),
                }
            } else {
                let ws = book.get_sheet_mut(&si).unwrap();
                match (a, row) {
                    ("Insert", true) => ws.insert_new_row(&p, &n),
                    ("Insert", false) => ws.insert_new_column_by_index(&p, &n),
                    ("Remove", true) => ws.remove_row(&p, &n),
                    _ => ws.remove_column_by_index(&p, &n),
                }
            }
        }
        "Move" | "Copy" => {
            let rg = rect_str(&st["g"]);
            let (dr, dc) = (i(st, "dr") as i32, i(st, "dc") as i32);
            let ws = book.get_sheet_mut(&si).unwrap();
            if a == "Move" {
                ws.move_range(&rg, &dr, &dc);
            } else {
                ws.copy_range(&rg, &dr, &dc);
            }
        }
        "SetCell" => {
            let cell = make_cell(&st["cell"]);
            book.get_sheet_mut(&si).unwrap().set_cell(cell);
        }
        "RemoveCell" => {
            book.get_sheet_mut(&si).unwrap().remove_cell((u(st, "c"), u(st, "r")));
        }
        _ => panic!("unknown step {}", a),
    }
}

fn run(case: &Value) -> Vec<Value> {
    let id = case["case"].clone();
    let steps = case["steps"].as_array().expect("steps");
    let mut events = vec![];
    let mut book = build(&steps[0]);
    let mut e0 = steps[0].clone();
    e0["case"] = id.clone();
    e0["outcome"] = json!("ok");
    e0["obs"] = project(&book);
    events.push(e0);
    for st in &steps[1..] {
        let outcome = match catch_unwind(AssertUnwindSafe(|| apply(&mut book, st))) {
            Ok(()) => "ok",
            Err(_) => "panic",
        };
        let mut e = st.clone();
        e["case"] = id.clone();
        e["outcome"] = json!(outcome);
        e["obs"] = match catch_unwind(AssertUnwindSafe(|| project(&book))) {
            Ok(v) => v,
            Err(_) => {
                e["outcome"] = json!("panic");
                json!([])
            }
        };
        events.push(e);
    }
    events
}
