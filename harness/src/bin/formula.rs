//! Domain `formula` (C09 and C08): formula text through the tokenizer, relative translation, and
//! reference shifting under workbook-level insert/remove of rows and columns.
//!
//! kind "cell" (C09)
//!   case  = {"case": id, "kind":"cell", "toks":[..], "f": text, "own": sheet name,
//!            "items":[{"op":"move","fc":..,"fr":..,"tc":..,"tr":..} | {"op":"far","c":..,"r":..,"p":..}]}
//!   event = the case + every item extended by "outcome" ("ok" | "panic") and "out" (formula text read back)
//!   move: Cell at (fc,fr), set_formula(f), set_coordinate((tc,tr)), get_formula
//!   far : worksheet `own`, cell (c,r) with formula f, Worksheet::insert_new_row(p, 1), get_formula
//!   other: {"op":"other","c","r","edited","third","edit":"Insert"|"Remove","ax","p","n"}: workbook with sheets
//!         own, edited, third; formula f in own!(c,r); Spreadsheet::insert_new_row / insert_new_column_by_index /
//!         remove_row / remove_column_by_index on sheet `edited`; get_formula of own!(c,r)
//!
//! kind "wb" (C08)
//!   case  = {"case": id, "kind":"wb", "sheets":[names], "cells":[{"s","r","c","toks","f"
//!             [, "si": n, "members":[{"r","c"}..]: the cell is the master of a shared-formula group]}],
//!            ["load": true: the workbook is saved to memory and read back before the history (needed for groups),]
//!            "names":[{"on": 0 (workbook) | sheet index, "name", "tok", "addr"}],
//!            "charts":[{"on": sheet index, "toks":[ref tokens], "addrs":[text], "kinds":[chart kind per series:
//!                       line|pie|bar|area, listed in this order; optional, default all line]}],
//!            "steps":[{"a":"Insert"|"Remove","s","ax","p","n"}]}
//!   events: {"a":"Init", <case fields>, "outcome", "obs"} then one per step {"a",..,"outcome","obs"}
//!   obs   = {"cells":[{"s","r","c","f"}], "names":[{"on","i","name","addr"}], "charts":[{"on","i","addrs":[..]}]}
//!           read through Cell::get_formula, DefinedName::get_address, and the series references of EVERY chart
//!           kind of every plot area (immutable getters, kind by kind)
//! Sheet indices are 1-based.  The driver never judges; "toks"/"tok" are only echoed for the trace specification.
use serde_json::{json, Value};
use std::panic::{catch_unwind, AssertUnwindSafe};
use umya_spreadsheet::structs::drawing::spreadsheet::MarkerType;
use umya_spreadsheet::structs::{Cell, CellFormula, CellFormulaValues, Chart, ChartType, DefinedName, Spreadsheet};
use uverif::*;

fn main() {
    serve(run);
}

const OOB: u32 = 2_000_000_000;
fn clamp(x: u32) -> u32 {
    x.min(OOB)
}

fn run_cell(case: &Value) -> Vec<Value> {
    let f = s(case, "f").to_string();
    let own = s(case, "own").to_string();
    let mut items = vec![];
    for it in case["items"].as_array().expect("items") {
        let mut o = it.clone();
        let res = catch_unwind(AssertUnwindSafe(|| match s(it, "op") {
            "move" => {
                let mut cell = Cell::default();
                cell.get_coordinate_mut().set_col_num(u(it, "fc")).set_row_num(u(it, "fr"));
                cell.set_formula(f.clone());
                cell.set_coordinate((u(it, "tc"), u(it, "tr")));
                cell.get_formula().to_string()
            }
            "far" => {
                let mut book = umya_spreadsheet::new_file_empty_worksheet();
                let ws = book.new_sheet(own.clone()).unwrap();
                ws.get_cell_mut((u(it, "c"), u(it, "r"))).set_formula(f.clone());
                ws.insert_new_row(&u(it, "p"), &1);
                ws.get_cell((u(it, "c"), u(it, "r"))).map(|c| c.get_formula().to_string()).unwrap_or_else(|| "<cell missing>".into())
            }
            "other" => {
                // third identity path: the formula sits on sheet `own`; a workbook-level edit hits another sheet
                let mut book = umya_spreadsheet::new_file_empty_worksheet();
                book.new_sheet(own.clone()).unwrap();
                book.new_sheet(s(it, "edited").to_string()).unwrap();
                book.new_sheet(s(it, "third").to_string()).unwrap();
                book.get_sheet_mut(&0).unwrap().get_cell_mut((u(it, "c"), u(it, "r"))).set_formula(f.clone());
                let (p, n) = (u(it, "p"), u(it, "n"));
                match (s(it, "edit"), s(it, "ax")) {
                    ("Insert", "row") => book.insert_new_row(s(it, "edited"), &p, &n),
                    ("Insert", _) => book.insert_new_column_by_index(s(it, "edited"), &p, &n),
                    ("Remove", "row") => book.remove_row(s(it, "edited"), &p, &n),
                    _ => book.remove_column_by_index(s(it, "edited"), &p, &n),
                }
                book.get_sheet(&0).unwrap().get_cell((u(it, "c"), u(it, "r")))
                    .map(|c| c.get_formula().to_string()).unwrap_or_else(|| "<cell missing>".into())
            }
            other => panic!("unknown item op {}", other),
        }));
        match res {
            Ok(t) => {
                o["outcome"] = json!("ok");
                o["out"] = json!(t);
            }
            Err(_) => {
                o["outcome"] = json!("panic");
                o["out"] = json!("");
            }
        }
        items.push(o);
    }
    let mut e = case.clone();
    e["a"] = json!("Cell");
    e["items"] = Value::Array(items);
    vec![e]
}

fn build(case: &Value) -> Spreadsheet {
    let mut book = umya_spreadsheet::new_file_empty_worksheet();
    let names: Vec<String> = case["sheets"].as_array().unwrap().iter().map(|x| x.as_str().unwrap().to_string()).collect();
    for n in &names {
        book.new_sheet(n.clone()).unwrap();
    }
    for c in case["cells"].as_array().unwrap() {
        let ws = book.get_sheet_mut(&(u(c, "s") as usize - 1)).unwrap();
        match c.get("members").and_then(|m| m.as_array()) {
            Some(members) if !members.is_empty() => {
                // master of a shared-formula group (index "si") and its members (no text of their own)
                let si = u(c, "si");
                let mut f = CellFormula::default();
                f.set_formula_type(CellFormulaValues::Shared);
                f.set_shared_index(si);
                f.set_text(s(c, "f"));
                ws.get_cell_mut((u(c, "c"), u(c, "r"))).get_cell_value_mut().set_formula_obj(f);
                for m in members {
                    let mut f = CellFormula::default();
                    f.set_formula_type(CellFormulaValues::Shared);
                    f.set_shared_index(si);
                    ws.get_cell_mut((u(m, "c"), u(m, "r"))).get_cell_value_mut().set_formula_obj(f);
                }
            }
            _ => {
                ws.get_cell_mut((u(c, "c"), u(c, "r"))).set_formula(s(c, "f"));
            }
        }
    }
    for d in case["names"].as_array().unwrap() {
        let on = u(d, "on") as usize;
        if on == 0 {
            let mut dn = DefinedName::default();
            dn.set_address(s(d, "addr"));
            book.add_defined_names(dn);
        } else {
            let ws = book.get_sheet_mut(&(on - 1)).unwrap();
            ws.add_defined_name(s(d, "name").to_string(), s(d, "addr").to_string()).unwrap();
        }
    }
    for ch in case["charts"].as_array().unwrap() {
        let ws = book.get_sheet_mut(&(u(ch, "on") as usize - 1)).unwrap();
        let addrs: Vec<&str> = ch["addrs"].as_array().unwrap().iter().map(|x| x.as_str().unwrap()).collect();
        // "kinds": chart kind of every series (default: all "line"); consecutive series of one kind form one
        // chart kind of the plot area, several kinds make a combination chart
        let kinds: Vec<String> = match ch.get("kinds").and_then(|k| k.as_array()) {
            Some(k) => k.iter().map(|x| x.as_str().unwrap().to_string()).collect(),
            None => addrs.iter().map(|_| "line".to_string()).collect(),
        };
        assert_eq!(kinds.len(), addrs.len(), "kinds / addrs");
        let mut groups: Vec<(String, Vec<&str>)> = vec![];
        for (k, a) in kinds.iter().zip(addrs.iter()) {
            match groups.last_mut() {
                Some((gk, ga)) if gk == k => ga.push(*a),
                _ => groups.push((k.clone(), vec![*a])),
            }
        }
        let mut chart: Option<Chart> = None;
        for (k, series) in groups {
            let mut from_marker = MarkerType::default();
            let mut to_marker = MarkerType::default();
            from_marker.set_coordinate("C1");
            to_marker.set_coordinate("D11");
            let ty = match k.as_str() {
                "line" => ChartType::LineChart,
                "pie" => ChartType::PieChart,
                "bar" => ChartType::BarChart,
                "area" => ChartType::AreaChart,
                other => panic!("unknown chart kind {}", other),
            };
            let mut one = Chart::default();
            one.new_chart(ty, from_marker, to_marker, series);
            match chart.as_mut() {
                None => chart = Some(one),
                Some(c) => {
                    // a further kind in the same plot area (combination chart), built through the public API
                    let donor = one.get_chart_space().get_chart().get_plot_area();
                    let pa = c.get_chart_space_mut().get_chart_mut().get_plot_area_mut();
                    match k.as_str() {
                        "line" => { pa.set_line_chart(donor.get_line_chart().unwrap().clone()); }
                        "pie" => { pa.set_pie_chart(donor.get_pie_chart().unwrap().clone()); }
                        "bar" => { pa.set_bar_chart(donor.get_bar_chart().unwrap().clone()); }
                        _ => { pa.set_area_chart(donor.get_area_chart().unwrap().clone()); }
                    }
                }
            }
        }
        if let Some(c) = chart {
            ws.add_chart(c);
        }
    }
    if case.get("load").and_then(|x| x.as_bool()).unwrap_or(false) {
        // start from a file: the workbook is saved to memory and read back (shared-formula groups only exist in
        // loaded workbooks: a member then carries the formula the reader derives for it from the master)
        let mut buf: Vec<u8> = vec![];
        umya_spreadsheet::writer::xlsx::write_writer(&book, &mut buf).expect("write_writer");
        book = umya_spreadsheet::reader::xlsx::read_reader(std::io::Cursor::new(buf), true).expect("read_reader");
    }
    book
}

/// The reference of every series of every chart kind of the plot area, read kind by kind through the immutable
/// getters (not through PlotArea::get_formula_mut, which is what the library itself uses to shift them), in the
/// library's fixed kind order; per series: category, values, x, y, bubble size.
fn series_addresses(ch: &Chart) -> Vec<String> {
    let pa = ch.get_chart_space().get_chart().get_plot_area();
    let mut lists = vec![];
    macro_rules! kind {
        ($getter:ident) => {
            if let Some(v) = pa.$getter() {
                lists.push(v.get_area_chart_series_list());
            }
        };
    }
    kind!(get_line_chart);
    kind!(get_line_3d_chart);
    kind!(get_pie_chart);
    kind!(get_pie_3d_chart);
    kind!(get_doughnut_chart);
    kind!(get_scatter_chart);
    kind!(get_bar_chart);
    kind!(get_bar_3d_chart);
    kind!(get_radar_chart);
    kind!(get_bubble_chart);
    kind!(get_area_chart);
    kind!(get_area_3d_chart);
    kind!(get_of_pie_chart);
    let mut out = vec![];
    for l in lists {
        for ser in l.get_area_chart_series() {
            if let Some(f) = ser.get_category_axis_data().and_then(|c| c.get_string_reference()) {
                out.push(f.get_formula().get_address_str());
            }
            if let Some(v) = ser.get_values() {
                out.push(v.get_number_reference().get_formula().get_address_str());
            }
            if let Some(v) = ser.get_x_values() {
                out.push(v.get_number_reference().get_formula().get_address_str());
            }
            if let Some(v) = ser.get_y_values() {
                out.push(v.get_number_reference().get_formula().get_address_str());
            }
            if let Some(v) = ser.get_bubble_size() {
                out.push(v.get_number_reference().get_formula().get_address_str());
            }
        }
    }
    out
}

fn project(book: &mut Spreadsheet) -> Value {
    let mut cells = vec![];
    let mut names = vec![];
    let mut charts = vec![];
    for (i, dn) in book.get_defined_names().iter().enumerate() {
        names.push(json!({"on": 0, "i": i + 1, "name": dn.get_name(), "addr": dn.get_address()}));
    }
    let n = book.get_sheet_count();
    for si in 0..n {
        let ws = book.get_sheet_mut(&si).unwrap();
        for c in ws.get_cell_collection_sorted() {
            if c.is_formula() {
                let co = c.get_coordinate();
                cells.push(json!({"s": si + 1, "r": clamp(*co.get_row_num()), "c": clamp(*co.get_col_num()),
                                  "f": c.get_formula()}));
            }
        }
        for (i, dn) in ws.get_defined_names().iter().enumerate() {
            names.push(json!({"on": si + 1, "i": i + 1, "name": dn.get_name(), "addr": dn.get_address()}));
        }
        for (i, ch) in ws.get_chart_collection().iter().enumerate() {
            charts.push(json!({"on": si + 1, "i": i + 1, "addrs": series_addresses(ch)}));
        }
    }
    json!({"cells": cells, "names": names, "charts": charts})
}

fn apply(book: &mut Spreadsheet, st: &Value) {
    let si = u(st, "s") as usize - 1;
    let (p, n) = (u(st, "p"), u(st, "n"));
    let row = s(st, "ax") == "row";
    let name = book.get_sheet(&si).unwrap().get_name().to_string();
    match (s(st, "a"), row) {
        ("Insert", true) => book.insert_new_row(&name, &p, &n),
        ("Insert", false) => book.insert_new_column_by_index(&name, &p, &n),
        ("Remove", true) => book.remove_row(&name, &p, &n),
        ("Remove", false) => book.remove_column_by_index(&name, &p, &n),
        (a, _) => panic!("unknown step {}", a),
    }
}

fn run_wb(case: &Value) -> Vec<Value> {
    let id = case["case"].clone();
    let mut events = vec![];
    let mut book = build(case);
    let mut e0 = case.clone();
    e0.as_object_mut().unwrap().remove("steps");
    e0["a"] = json!("Init");
    e0["outcome"] = json!("ok");
    e0["obs"] = project(&mut book);
    events.push(e0);
    for st in case["steps"].as_array().expect("steps") {
        let outcome = match catch_unwind(AssertUnwindSafe(|| apply(&mut book, st))) {
            Ok(()) => "ok",
            Err(_) => "panic",
        };
        let mut e = st.clone();
        e["case"] = id.clone();
        e["outcome"] = json!(outcome);
        e["obs"] = match catch_unwind(AssertUnwindSafe(|| project(&mut book))) {
            Ok(v) => v,
            Err(_) => {
                e["outcome"] = json!("panic");
                json!({"cells": [], "names": [], "charts": []})
            }
        };
        events.push(e);
    }
    events
}

fn run(case: &Value) -> Vec<Value> {
    match s(case, "kind") {
        "cell" => run_cell(case),
        "wb" => run_wb(case),
        k => panic!("unknown case kind {}", k),
    }
}
