//! Domain `numfmt` (C19): helper::number_format::to_formatted_string, Cell::get_formatted_value and
//! Worksheet::get_formatted_value on fixed-decimal / thousands / percentage patterns, on the General
//! format and on every built-in format id.
//!
//! The driver never judges.  Besides the library's answers it logs *facts about the input* that are
//! computed with Rust's std only (never with the library):
//!   rt     the decimal string `s` is exactly what `f64::to_string` prints for the parsed number
//!          (shortest round-trip form, plain positional notation)
//!   p100   the exact decimal expansion of the IEEE-754 product `100.0 * x` (percent items only);
//!          Trace_NumFmt checks it against the decimal 100*x to 15 significant digits
//!   isnum / canon   whether a text parses as f64 with std's parser and how std prints that number
use serde_json::{json, Value};
use umya_spreadsheet::helper::number_format::to_formatted_string;
use uverif::*;

fn main() {
    serve(run);
}

/// "-12.05" -> {"neg":true,"int":[1,2],"frac":[0,5]} (plain positional decimal strings only)
fn dec_record(t: &str) -> Value {
    let (neg, body) = match t.strip_prefix('-') {
        Some(r) => (true, r),
        None => (false, t),
    };
    let mut parts = body.splitn(2, '.');
    let ip = parts.next().unwrap_or("0");
    let fp = parts.next().unwrap_or("");
    let ip = ip.trim_start_matches('0');
    let fp = fp.trim_end_matches('0');
    let mut int: Vec<u32> = ip.chars().map(|c| c.to_digit(10).expect("digit")).collect();
    if int.is_empty() {
        int.push(0);
    }
    let frac: Vec<u32> = fp.chars().map(|c| c.to_digit(10).expect("digit")).collect();
    json!({"neg": neg, "int": int, "frac": frac})
}

/// exact decimal expansion of a finite f64 (Rust's `{:.N}` is exact; 1100 digits cover every f64)
fn exact_dec(y: f64) -> Value {
    let t = format!("{:.1100}", y.abs());
    let mut r = dec_record(&t);
    r["neg"] = json!(y.is_sign_negative());
    r
}

fn as_text(v: Value) -> Value {
    // "panic" stays the string "panic" (finish() turns it into the item outcome); results are strings anyway
    v
}

struct Sheet {
    book: umya_spreadsheet::Spreadsheet,
}

impl Sheet {
    fn new() -> Self {
        Sheet { book: umya_spreadsheet::new_file() }
    }
}

fn run(case: &Value) -> Vec<Value> {
    let a = s(case, "a");
    let id = case["case"].clone();
    let items_in = case["items"].as_array().expect("items");
    match a {
        // fixed-decimal / thousands / percent patterns on numbers
        "fmt" => {
            let mut out_items = vec![];
            for it in items_in {
                let st = s(it, "s").to_string();
                let fmt = s(it, "fmt").to_string();
                let pct = b(it, "pct");
                let x: f64 = st.parse().expect("numeric s");
                let rt = x.is_finite() && x.to_string() == st;
                let p100 = if pct { exact_dec(100f64 * x) } else { json!({"neg": false, "int": [0], "frac": []}) };
                let (s1, f1) = (st.clone(), fmt.clone());
                let out = guard(move || json!(to_formatted_string(&s1, &f1)));
                let f2 = fmt.clone();
                let cellres = guard(move || {
                    let mut sh = Sheet::new();
                    let ws = sh.book.get_sheet_mut(&0).unwrap();
                    ws.get_cell_mut("B2").set_value_number(x);
                    ws.get_style_mut("B2").get_number_format_mut().set_format_code(f2);
                    let w = ws.get_formatted_value("B2");
                    let w2 = ws.get_formatted_value((2, 2));
                    let c = ws.get_cell("B2").unwrap().get_formatted_value();
                    let raw = ws.get_cell("B2").unwrap().get_value().to_string();
                    json!([w, w2, c, raw])
                });
                let (outws, outws2, outcell, raw) = match &cellres {
                    Value::Array(v) => (v[0].clone(), v[1].clone(), v[2].clone(), v[3].clone()),
                    _ => (json!("panic"), json!("panic"), json!("panic"), json!("panic")),
                };
                out_items.push(finish(json!({
                    "x": {"neg": it["neg"], "int": it["int"], "frac": it["frac"]},
                    "s": st, "rt": rt, "k": it["k"], "th": it["th"], "pct": pct, "fmt": fmt, "p100": p100,
                    "out": as_text(out), "outws": outws, "outws2": outws2, "outcell": outcell, "raw": raw
                })));
            }
            vec![json!({"a": "fmt", "case": id, "items": out_items})]
        }
        // General format: numbers and text
        "general" => {
            let mut out_items = vec![];
            for it in items_in {
                let kind = s(it, "kind").to_string(); // "num" | "text"
                let text = s(it, "text").to_string();
                let parsed = text.parse::<f64>();
                let isnum = parsed.is_ok();
                let canon = match &parsed {
                    Ok(v) => v.to_string(),
                    Err(_) => String::new(),
                };
                let rt = isnum && canon == text;
                let t1 = text.clone();
                let out = guard(move || json!(to_formatted_string(&t1, "General")));
                let (t2, k2) = (text.clone(), kind.clone());
                let cellres = guard(move || {
                    let mut sh = Sheet::new();
                    let ws = sh.book.get_sheet_mut(&0).unwrap();
                    // B2: no number format at all; C3: explicit General
                    for co in ["B2", "C3"] {
                        if k2 == "num" {
                            ws.get_cell_mut(co).set_value_number(t2.parse::<f64>().unwrap());
                        } else {
                            ws.get_cell_mut(co).set_value_string(t2.clone());
                        }
                    }
                    ws.get_style_mut("C3").get_number_format_mut().set_format_code("General");
                    let w = ws.get_formatted_value("B2");
                    let w2 = ws.get_formatted_value("C3");
                    let c = ws.get_cell("B2").unwrap().get_formatted_value();
                    let raw = ws.get_cell("B2").unwrap().get_value().to_string();
                    json!([w, w2, c, raw])
                });
                let (outws, outws2, outcell, raw) = match &cellres {
                    Value::Array(v) => (v[0].clone(), v[1].clone(), v[2].clone(), v[3].clone()),
                    _ => (json!("panic"), json!("panic"), json!("panic"), json!("panic")),
                };
                out_items.push(finish(json!({
                    "kind": kind, "text": text, "chars": it["chars"], "isnum": isnum, "canon": canon, "rt": rt,
                    "out": out, "outws": outws, "outws2": outws2, "outcell": outcell, "raw": raw
                })));
            }
            vec![json!({"a": "general", "case": id, "items": out_items})]
        }
        // every built-in format id x finite numbers: no panic (bits = 16 hex digits of the f64)
        "builtin" => {
            let mut out_items = vec![];
            for it in items_in {
                let fid = u(it, "fid");
                let x = f64_from_bits(s(it, "bits"));
                let st = x.to_string();
                // the format code the library associates with the id
                let code = guard(move || {
                    let mut nf = umya_spreadsheet::NumberingFormat::default();
                    nf.set_number_format_id(fid);
                    json!(nf.get_format_code())
                });
                let known = code != json!("panic");
                let (out, outws) = if known {
                    let c1 = code.as_str().unwrap().to_string();
                    let s1 = st.clone();
                    let o = guard(move || json!(to_formatted_string(&s1, &c1)));
                    let w = guard(move || {
                        let mut sh = Sheet::new();
                        let ws = sh.book.get_sheet_mut(&0).unwrap();
                        ws.get_cell_mut("B2").set_value_number(x);
                        ws.get_style_mut("B2").get_number_format_mut().set_number_format_id(fid);
                        json!(ws.get_formatted_value("B2"))
                    });
                    (o, w)
                } else {
                    (json!(""), json!(""))
                };
                let okh = out != json!("panic");
                let okw = outws != json!("panic");
                out_items.push(json!({
                    "fid": fid, "bits": it["bits"], "s": st, "finite": x.is_finite(),
                    "x": if x.is_finite() { dec_record(&st) } else { json!({"neg": false, "int": [0], "frac": []}) },
                    "known": known, "code": if known { code } else { json!("") },
                    "okh": okh, "okw": okw,
                    "out": if okh { out } else { json!("") }, "outws": if okw { outws } else { json!("") },
                    "outcome": if okh && okw { "ok" } else { "panic" }
                }));
            }
            vec![json!({"a": "builtin", "case": id, "items": out_items})]
        }
        _ => panic!("unknown numfmt action {}", a),
    }
}
