//! Domain `csv` (C20): build a workbook through the public API, export the active sheet with
//! writer::csv::write_writer into memory, log the bytes (hex) and the projection of the workbook.
//! Characters travel as Unicode code points (JSON integers).  Never judges.
use serde_json::{json, Value};
use std::io::Cursor;
use std::panic::AssertUnwindSafe;
use std::str::FromStr;
use umya_spreadsheet::structs::{CsvEncodeValues, CsvWriterOption, EnumTrait, Spreadsheet};
use uverif::*;

fn cps(t: &str) -> Value {
    Value::Array(t.chars().map(|ch| json!(ch as u32)).collect())
}

fn text_of(v: &Value) -> String {
    v.as_array()
        .unwrap()
        .iter()
        .map(|x| char::from_u32(x.as_u64().unwrap() as u32).expect("code point"))
        .collect()
}

/// every sheet's cells (row, column, value text), in row/column order, and the active tab (1-based)
fn project(book: &Spreadsheet) -> Value {
    let mut sheets: Vec<Value> = vec![];
    for k in 0..book.get_sheet_count() {
        let ws = book.get_sheet(&k).unwrap();
        let cells: Vec<Value> = ws
            .get_cell_collection_sorted()
            .iter()
            .map(|cell| {
                let co = cell.get_coordinate();
                json!({"r": co.get_row_num(), "c": co.get_col_num(), "t": cps(&cell.get_value())})
            })
            .collect();
        sheets.push(Value::Array(cells));
    }
    json!({"active": *book.get_workbook_view().get_active_tab() + 1, "sheets": sheets})
}

fn hex(b: &[u8]) -> String {
    let mut s = String::with_capacity(b.len() * 2);
    for x in b {
        s.push_str(&format!("{:02x}", x));
    }
    s
}

fn main() {
    serve(run);
}

fn run(case: &Value) -> Vec<Value> {
    let id = case["case"].clone();
    let n = u(case, "nsheets") as usize;
    let enc = s(case, "enc").to_string();
    let mut evs: Vec<Value> = vec![];
    let mut book = umya_spreadsheet::new_file();
    for k in 1..n {
        book.new_sheet(format!("Sheet{}", k + 1)).unwrap();
    }
    evs.push(json!({"a":"New","case":id,"n":n,"enc":enc,"outcome":"ok","obs":project(&book)}));
    for st in case["steps"].as_array().unwrap() {
        match s(st, "a") {
            "SetCell" => {
                let (si, r, c) = (u(st, "s") as usize, u(st, "r"), u(st, "c"));
                let kind = s(st, "k").to_string();
                let v = st["v"].clone();
                let res = std::panic::catch_unwind(AssertUnwindSafe(|| {
                    let ws = book.get_sheet_mut(&(si - 1)).unwrap();
                    let cell = ws.get_cell_mut((c, r));
                    match kind.as_str() {
                        "s" => {
                            cell.set_value_string(text_of(&v));
                        }
                        "n" => {
                            cell.set_value_number(v[0].as_u64().unwrap() as u32);
                        }
                        "b" => {
                            cell.set_value_bool(v[0].as_u64().unwrap() != 0);
                        }
                        _ => panic!("kind"),
                    }
                    let ws = book.get_sheet(&(si - 1)).unwrap();
                    match ws.get_cell((c, r)) {
                        Some(cell) => (true, cps(&cell.get_value())),
                        None => (false, json!([])),
                    }
                }));
                let (outcome, present, text) = match res {
                    Ok((p, t)) => ("ok", p, t),
                    Err(_) => ("panic", false, json!([])),
                };
                evs.push(json!({"a":"SetCell","case":id,"s":si,"r":r,"c":c,"k":st["k"],"v":st["v"],
                    "outcome":outcome,"present":present,"text":text}));
            }
            "RemoveCell" => {
                let (si, r, c) = (u(st, "s") as usize, u(st, "r"), u(st, "c"));
                let res = std::panic::catch_unwind(AssertUnwindSafe(|| {
                    let removed = book.get_sheet_mut(&(si - 1)).unwrap().remove_cell((c, r));
                    let present = book.get_sheet(&(si - 1)).unwrap().get_cell((c, r)).is_some();
                    (removed, present)
                }));
                let (outcome, removed, present) = match res {
                    Ok((a, b)) => ("ok", a, b),
                    Err(_) => ("panic", false, false),
                };
                evs.push(json!({"a":"RemoveCell","case":id,"s":si,"r":r,"c":c,"outcome":outcome,
                    "removed":removed,"present":present}));
            }
            "SetActive" => {
                let si = u(st, "s");
                let res = std::panic::catch_unwind(AssertUnwindSafe(|| {
                    book.set_active_sheet(si - 1);
                    *book.get_workbook_view().get_active_tab() + 1
                }));
                let (outcome, act) = match res {
                    Ok(a) => ("ok", a),
                    Err(_) => ("panic", 0),
                };
                evs.push(json!({"a":"SetActive","case":id,"s":si,"outcome":outcome,"active":act}));
            }
            "Export" => {
                let trim = b(st, "trim");
                let wrap = u(st, "wrap");
                let wrap_s: String = if wrap == 0 { String::new() } else { char::from_u32(wrap).unwrap().to_string() };
                let mut option = CsvWriterOption::default();
                option.set_csv_encode_value(CsvEncodeValues::from_str(&enc).expect("encoding name"));
                option.set_do_trim(trim);
                option.set_wrap_with_char(wrap_s);
                let oenc = option.get_csv_encode_value().get_value_string().to_string();
                let otrim = *option.get_do_trim();
                let owrap = cps(option.get_wrap_with_char());
                let res = std::panic::catch_unwind(AssertUnwindSafe(|| {
                    let mut cur = Cursor::new(Vec::<u8>::new());
                    let r = umya_spreadsheet::writer::csv::write_writer(&book, &mut cur, &option);
                    (r.is_ok(), cur.into_inner())
                }));
                let (outcome, bytes) = match res {
                    Ok((true, by)) => ("ok", by),
                    Ok((false, by)) => ("err", by),
                    Err(_) => ("panic", vec![]),
                };
                evs.push(json!({"a":"Export","case":id,"enc":enc,"trim":trim,"wrap":wrap,"outcome":outcome,
                    "oenc":oenc,"otrim":otrim,"owrap":owrap,"hex":hex(&bytes),"obs":project(&book)}));
            }
            other => panic!("unknown step {}", other),
        }
    }
    evs
}
