//! Domain `cellstore` (C10): the cell store of a worksheet under histories of public operations.
//!
//! case = {"case": id, "steps": [ {"a":"Init","cells":[{r,c,v,s}],"rows":[{r,s}],"cols":[{c,s}],"reload":bool},
//!                                {"a":"SetCell","r":2,"c":3,"v":"x","s":"F"}, .. ]}
//! Every step yields one event: the step's fields + "outcome" ("ok" | "panic") + "obs" = the result of every
//! query API the property names (lookups for a window around the touched region and globally, unsorted and
//! sorted listings, the hash map, by row, by column, values by range, highest column/row, computed dimension,
//! the row table) + "xlsx" = hex of an in-memory save (checks/c10.py extracts the <c r=".."> references of the
//! sheet part with pydec/cellrefs.py and replaces the field by "saved").  The driver never judges.
//! Style tokens: "" = Style::default(), "N" = number format only (not visible), "F" = solid fill (visible).
use serde_json::{json, Value};
use std::collections::BTreeSet;
use std::panic::{catch_unwind, AssertUnwindSafe};
use umya_spreadsheet::helper::coordinate::coordinate_from_index;
use umya_spreadsheet::structs::{Cell, PatternValues, Spreadsheet, Style, Worksheet};
use uverif::*;

fn main() {
    serve(run);
}

const MAXR: u32 = 1_048_576;
const MAXC: u32 = 16_384;
const OOB: u32 = 2_000_000_000; // anything above is logged as this value (TLC integers are 32 bit)
fn clamp(x: u32) -> u32 {
    x.min(OOB)
}

fn style_of(tok: &str) -> Style {
    let mut st = Style::default();
    match tok {
        "" => {}
        "N" => {
            st.get_number_format_mut().set_format_code("0.00");
        }
        "F" => {
            st.set_background_color_solid("FFFF0000");
        }
        _ => panic!("unknown style token {}", tok),
    }
    st
}

fn token_of(st: &Style) -> &'static str {
    let visible = st
        .get_fill()
        .and_then(|f| f.get_pattern_fill())
        .map(|p| p.get_pattern_type() != &PatternValues::None)
        .unwrap_or(false);
    if visible {
        "F"
    } else if st.get_font().is_some()
        || st.get_fill().is_some()
        || st.get_borders().is_some()
        || st.get_alignment().is_some()
        || st.get_numbering_format().is_some()
        || st.get_protection().is_some()
    {
        "N"
    } else {
        ""
    }
}

fn make_cell(r: u32, c: u32, v: &str, s: &str) -> Cell {
    let mut cell = Cell::default();
    cell.get_coordinate_mut().set_col_num(c).set_row_num(r);
    if !v.is_empty() {
        cell.set_value_string(v);
    }
    cell.set_style(style_of(s));
    cell
}

fn rc(cell: &Cell) -> (u32, u32) {
    let co = cell.get_coordinate();
    (*co.get_row_num(), *co.get_col_num())
}
fn pair(p: (u32, u32)) -> Value {
    json!([clamp(p.0), clamp(p.1)])
}

fn rect_str(r1: u32, c1: u32, r2: u32, c2: u32) -> String {
    format!("{}:{}", coordinate_from_index(&c1, &r1), coordinate_from_index(&c2, &r2))
}

fn build(step: &Value) -> Spreadsheet {
    let mut book = umya_spreadsheet::new_file_empty_worksheet();
    {
        let ws = book.new_sheet("S").unwrap();
        for c in step["cells"].as_array().unwrap() {
            if s(c, "v").is_empty() && s(c, "s").is_empty() {
                ws.get_cell_mut((u(c, "c"), u(c, "r")));
            } else {
                ws.set_cell(make_cell(u(c, "r"), u(c, "c"), s(c, "v"), s(c, "s")));
            }
        }
        for r in step["rows"].as_array().unwrap() {
            ws.get_row_dimension_mut(&u(r, "r")).set_style(style_of(s(r, "s")));
        }
        for c in step["cols"].as_array().unwrap() {
            ws.get_column_dimension_by_number_mut(&u(c, "c")).set_style(style_of(s(c, "s")));
        }
    }
    if step.get("reload").and_then(|x| x.as_bool()).unwrap_or(false) {
        // the reader fills the store through Cells::add (set_fast), not through get_mut
        let mut buf: Vec<u8> = Vec::new();
        umya_spreadsheet::writer::xlsx::write_writer(&book, &mut buf).expect("save of the initial sheet");
        book = umya_spreadsheet::reader::xlsx::read_reader(std::io::Cursor::new(buf), true).expect("reload");
    }
    book
}

/// coordinates (row, col) the step touches, as rectangles (r1, c1, r2, c2)
fn touched(st: &Value, hi: (u32, u32)) -> Vec<(i64, i64, i64, i64)> {
    let g4 = |g: &Value| (i(g, "r1"), i(g, "c1"), i(g, "r2"), i(g, "c2"));
    let (hc, hr) = (hi.0.min(MAXC) as i64, hi.1.min(MAXR) as i64);
    match s(st, "a") {
        "GetCellMut" | "SetCell" | "RemoveCell" | "SetStyle" => vec![(i(st, "r"), i(st, "c"), i(st, "r"), i(st, "c"))],
        "SetStyleByRange" => vec![g4(&st["g"])],
        "Insert" | "Remove" => {
            let (p, n) = (i(st, "p"), i(st, "n"));
            if s(st, "ax") == "row" {
                vec![(p - 1, 1, p, hc.max(1)), (p + n - 1, 1, p + n, hc.max(1))]
            } else {
                vec![(1, p - 1, hr.max(1), p), (1, p + n - 1, hr.max(1), p + n)]
            }
        }
        "Move" | "Copy" => {
            let (r1, c1, r2, c2) = g4(&st["g"]);
            let (dr, dc) = (i(st, "dr"), i(st, "dc"));
            vec![(r1, c1, r2, c2), (r1 + dr, c1 + dc, r2 + dr, c2 + dc)]
        }
        "CopyRowStyling" => {
            let lo = if b(st, "hs") { i(st, "c1") } else { 1 };
            let hi = if b(st, "he") { i(st, "c2") } else { hc };
            vec![(i(st, "src"), lo, i(st, "src"), hi), (i(st, "dst"), lo, i(st, "dst"), hi)]
        }
        "CopyColStyling" => {
            let lo = if b(st, "hs") { i(st, "r1") } else { 1 };
            let hi = if b(st, "he") { i(st, "r2") } else { hr };
            vec![(lo, i(st, "src"), hi, i(st, "src")), (lo, i(st, "dst"), hi, i(st, "dst"))]
        }
        _ => vec![],
    }
}

fn clip(g: (i64, i64, i64, i64), grow: i64, cap: i64) -> Option<(u32, u32, u32, u32)> {
    let r1 = (g.0 - grow).max(1);
    let c1 = (g.1 - grow).max(1);
    let mut r2 = (g.2 + grow).min(MAXR as i64);
    let mut c2 = (g.3 + grow).min(MAXC as i64);
    if r2 < r1 || c2 < c1 {
        return None;
    }
    r2 = r2.min(r1 + cap - 1);
    c2 = c2.min(c1 + cap - 1);
    Some((r1 as u32, c1 as u32, r2 as u32, c2 as u32))
}

/// Run one query under catch_unwind; a panic yields `dflt` and the query's name is noted in `qp`.
fn q<F: FnOnce() -> Value>(name: &str, qp: &mut Vec<String>, dflt: Value, f: F) -> Value {
    match catch_unwind(AssertUnwindSafe(f)) {
        Ok(v) => v,
        Err(_) => {
            qp.push(name.to_string());
            dflt
        }
    }
}

fn hm_keys(ws: &Worksheet) -> Vec<(u32, u32)> {
    catch_unwind(AssertUnwindSafe(|| ws.get_collection_to_hashmap().keys().copied().collect::<Vec<_>>())).unwrap_or_default()
}

fn observe(book: &Spreadsheet, st: &Value, before: &[(u32, u32)], want_save: bool) -> (Value, Vec<String>) {
    let ws = book.get_sheet(&0).unwrap();
    let mut qp: Vec<String> = vec![];

    // the hash map: key and the coordinate the cell itself reports, value, style token
    let hm = q("hashmap", &mut qp, json!([]), || {
        let mut v: Vec<((u32, u32), Value)> = ws
            .get_collection_to_hashmap()
            .iter()
            .map(|(k, c)| {
                let (r, cc) = rc(c);
                (*k, json!({"kr": clamp(k.0), "kc": clamp(k.1), "r": clamp(r), "c": clamp(cc),
                            "v": c.get_value().to_string(), "s": token_of(c.get_style())}))
            })
            .collect();
        v.sort_by_key(|x| x.0);
        Value::Array(v.into_iter().map(|x| x.1).collect())
    });
    // unsorted listing (sorted here, duplicates kept)
    let mut all: Vec<(u32, u32)> = vec![];
    let coll = q("collection", &mut qp, json!([]), || {
        let mut v: Vec<(u32, u32)> = ws.get_cell_collection().iter().map(|c| rc(c)).collect();
        v.sort();
        all.extend(v.iter().copied());
        Value::Array(v.into_iter().map(pair).collect())
    });
    // sorted listing, in the order returned
    let sorted = q("sorted", &mut qp, json!([]), || {
        let v: Vec<(u32, u32)> = ws.get_cell_collection_sorted().iter().map(|c| rc(c)).collect();
        all.extend(v.iter().copied());
        Value::Array(v.into_iter().map(pair).collect())
    });
    let hi = catch_unwind(AssertUnwindSafe(|| ws.get_highest_column_and_row())).unwrap_or((0, 0));
    let high = q("highest", &mut qp, json!([0, 0]), || {
        let (c, r) = ws.get_highest_column_and_row();
        json!([clamp(c), clamp(r)])
    });
    let dim = q("dimension", &mut qp, json!(""), || json!(ws.calculate_worksheet_dimension()));

    // probes: every key seen before and after, the touched region (grown by one), the corners of the grid
    let mut probes: BTreeSet<(u32, u32)> = BTreeSet::new();
    for k in before.iter().chain(hm_keys(ws).iter()).chain(all.iter()) {
        if k.0 >= 1 && k.0 <= MAXR && k.1 >= 1 && k.1 <= MAXC {
            probes.insert(*k);
        }
    }
    let mut windows: Vec<(u32, u32, u32, u32)> = vec![];
    for g in touched(st, hi) {
        if let Some(w) = clip(g, 1, 7) {
            for r in w.0..=w.2 {
                for c in w.1..=w.3 {
                    if probes.len() < 600 {
                        probes.insert((r, c));
                    }
                }
            }
            windows.push(w);
        }
    }
    for k in [(1, 1), (1, MAXC), (MAXR, 1), (MAXR, MAXC)] {
        probes.insert(k);
    }
    let look = q("lookup", &mut qp, json!([]), || {
        Value::Array(
            probes
                .iter()
                .map(|&(r, c)| match ws.get_cell((c, r)) {
                    Some(cell) => {
                        let (cr, cc) = rc(cell);
                        json!({"r": r, "c": c, "f": true, "cr": clamp(cr), "cc": clamp(cc)})
                    }
                    None => json!({"r": r, "c": c, "f": false, "cr": 0, "cc": 0}),
                })
                .collect(),
        )
    });
    let prows: BTreeSet<u32> = probes.iter().map(|k| k.0).collect();
    let pcols: BTreeSet<u32> = probes.iter().map(|k| k.1).collect();
    let byrow = q("by_row", &mut qp, json!([]), || {
        Value::Array(
            prows
                .iter()
                .map(|r| json!({"r": r, "cs": ws.get_collection_by_row(r).iter().map(|c| pair(rc(c))).collect::<Vec<_>>()}))
                .collect(),
        )
    });
    let bycol = q("by_column", &mut qp, json!([]), || {
        Value::Array(
            pcols
                .iter()
                .map(|c| json!({"c": c, "cs": ws.get_collection_by_column(c).iter().map(|x| pair(rc(x))).collect::<Vec<_>>()}))
                .collect(),
        )
    });
    // values by range: the touched windows and, when small, the bounding box of everything
    let (hc, hr) = (hi.0, hi.1);
    if hr >= 1 && hc >= 1 && hr <= MAXR && hc <= MAXC && (hr as u64) * (hc as u64) <= 160 {
        windows.push((1, 1, hr, hc));
    }
    windows.sort();
    windows.dedup();
    let ranges = q("by_range", &mut qp, json!([]), || {
        Value::Array(
            windows
                .iter()
                .map(|w| {
                    let vals: Vec<String> = ws
                        .get_cell_value_by_range(&rect_str(w.0, w.1, w.2, w.3))
                        .iter()
                        .map(|v| v.get_value().to_string())
                        .collect();
                    json!({"g": {"r1": w.0, "c1": w.1, "r2": w.2, "c2": w.3}, "vals": vals})
                })
                .collect(),
        )
    });
    // the row table: hash map key, the number the row itself reports, style token; and the plain listing
    let rowtab = q("row_table", &mut qp, json!([]), || {
        let mut v: Vec<(u32, Value)> = ws
            .get_row_dimensions_to_hashmap()
            .iter()
            .map(|(k, r)| (*k, json!({"k": clamp(*k), "r": clamp(*r.get_row_num()), "s": token_of(r.get_style())})))
            .collect();
        v.sort_by_key(|x| x.0);
        Value::Array(v.into_iter().map(|x| x.1).collect())
    });
    let rowlist = q("row_list", &mut qp, json!([]), || {
        let mut v: Vec<u32> = ws.get_row_dimensions().iter().map(|r| *r.get_row_num()).collect();
        v.sort();
        Value::Array(v.into_iter().map(|x| json!(clamp(x))).collect())
    });
    let cols = q("col_table", &mut qp, json!([]), || {
        let mut v: Vec<(u32, Value)> = ws
            .get_column_dimensions()
            .iter()
            .map(|c| (*c.get_col_num(), json!({"c": clamp(*c.get_col_num()), "s": token_of(c.get_style())})))
            .collect();
        v.sort_by_key(|x| x.0);
        Value::Array(v.into_iter().map(|x| x.1).collect())
    });
    // in-memory save
    let mut saveout = "skipped";
    let mut hex = String::new();
    if want_save {
        match catch_unwind(AssertUnwindSafe(|| {
            let mut buf: Vec<u8> = Vec::new();
            umya_spreadsheet::writer::xlsx::write_writer(book, &mut buf).map(|_| buf)
        })) {
            Ok(Ok(buf)) => {
                saveout = "ok";
                hex.reserve(buf.len() * 2);
                for byte in buf {
                    hex.push_str(&format!("{:02x}", byte));
                }
            }
            Ok(Err(_)) => saveout = "err",
            Err(_) => saveout = "panic",
        }
    }
    let obs = json!({"hm": hm, "coll": coll, "sorted": sorted, "look": look, "byrow": byrow, "bycol": bycol,
                     "ranges": ranges, "high": high, "dim": dim, "rowtab": rowtab, "rowlist": rowlist, "cols": cols,
                     "saveout": saveout, "xlsx": hex, "qp": qp.join(",")});
    (obs, qp)
}

fn apply(book: &mut Spreadsheet, st: &Value) {
    let a = s(st, "a");
    match a {
        "Insert" | "Remove" => {
            let (p, n) = (u(st, "p"), u(st, "n"));
            let row = s(st, "ax") == "row";
            let wb = st.get("lvl").and_then(|x| x.as_str()).unwrap_or("ws") == "wb";
            if wb {
                let name = book.get_sheet(&0).unwrap().get_name().to_string();
                match (a, row) {
                    ("Insert", true) => book.insert_new_row(&name, &p, &n),
                    ("Insert", false) => book.insert_new_column_by_index(&name, &p, &n),
                    ("Remove", true) => book.remove_row(&name, &p, &n),
                    _ => book.remove_column_by_index(&name, &p, &n),
                }
            } else {
                let ws = book.get_sheet_mut(&0).unwrap();
                match (a, row) {
                    ("Insert", true) => ws.insert_new_row(&p, &n),
                    ("Insert", false) => ws.insert_new_column_by_index(&p, &n),
                    ("Remove", true) => ws.remove_row(&p, &n),
                    _ => ws.remove_column_by_index(&p, &n),
                }
            }
            return;
        }
        _ => {}
    }
    let ws = book.get_sheet_mut(&0).unwrap();
    match a {
        "GetCellMut" => {
            ws.get_cell_mut((u(st, "c"), u(st, "r")));
        }
        "SetCell" => {
            ws.set_cell(make_cell(u(st, "r"), u(st, "c"), s(st, "v"), s(st, "s")));
        }
        "RemoveCell" => {
            ws.remove_cell((u(st, "c"), u(st, "r")));
        }
        "SetStyle" => {
            ws.set_style((u(st, "c"), u(st, "r")), style_of(s(st, "s")));
        }
        "SetStyleByRange" => {
            let g = &st["g"];
            let rng = rect_str(u(g, "r1"), u(g, "c1"), u(g, "r2"), u(g, "c2"));
            ws.set_style_by_range(&rng, style_of(s(st, "s")));
        }
        "Move" | "Copy" => {
            let g = &st["g"];
            let rng = rect_str(u(g, "r1"), u(g, "c1"), u(g, "r2"), u(g, "c2"));
            let (dr, dc) = (i(st, "dr") as i32, i(st, "dc") as i32);
            if a == "Move" {
                ws.move_range(&rng, &dr, &dc);
            } else {
                ws.copy_range(&rng, &dr, &dc);
            }
        }
        "Cleanup" => ws.cleanup(),
        "CopyRowStyling" => {
            let (c1, c2) = (u(st, "c1"), u(st, "c2"));
            ws.copy_row_styling(
                &u(st, "src"),
                &u(st, "dst"),
                if b(st, "hs") { Some(&c1) } else { None },
                if b(st, "he") { Some(&c2) } else { None },
            );
        }
        "CopyColStyling" => {
            let (r1, r2) = (u(st, "r1"), u(st, "r2"));
            ws.copy_col_styling(
                &u(st, "src"),
                &u(st, "dst"),
                if b(st, "hs") { Some(&r1) } else { None },
                if b(st, "he") { Some(&r2) } else { None },
            );
        }
        _ => panic!("unknown step {}", a),
    }
}

fn run(case: &Value) -> Vec<Value> {
    let id = case["case"].clone();
    let steps = case["steps"].as_array().expect("steps");
    let save_all = case.get("save").and_then(|x| x.as_bool()).unwrap_or(true);
    let mut events = vec![];
    let mut book = build(&steps[0]);
    let mut e0 = steps[0].clone();
    e0["case"] = id.clone();
    let (obs, qp) = observe(&book, &steps[0], &[], true);
    e0["outcome"] = json!(if qp.is_empty() { "ok" } else { "panic" });
    e0["obs"] = obs;
    events.push(e0);
    let last = steps.len() - 1;
    for (k, st) in steps.iter().enumerate().skip(1) {
        let before = hm_keys(book.get_sheet(&0).unwrap());
        let outcome = match catch_unwind(AssertUnwindSafe(|| apply(&mut book, st))) {
            Ok(()) => "ok",
            Err(_) => "panic",
        };
        let mut e = st.clone();
        e["case"] = id.clone();
        let (obs, qp) = observe(&book, st, &before, save_all || k == last);
        e["outcome"] = json!(if outcome == "ok" && qp.is_empty() { "ok" } else { "panic" });
        e["obs"] = obs;
        events.push(e);
    }
    events
}
