//! Domain `cellval` (X02): the value/type state machine of a cell under the public setter/getter API of
//! `Cell` / `CellValue` / `Worksheet` (spec/CellVal.tla).
//!
//! case = {"case": id, "steps": [ {"a":"Init"}, step, ... ]}.  A position p is 1 or 2 (cell (col p, row 1) of the one
//! sheet).  "via" chooses the entry point of a setter: "cell" = Worksheet::get_cell_mut(p).set_x(..),
//! "cv" = Worksheet::get_cell_value_mut(p).set_x(..), "obj" = CellValue built apart and stored with
//! Cell::set_cell_value (clone of the current CellValue, setter applied to the clone).
//!   {"a":"Touch","p":1}                               Worksheet::get_cell_mut only
//!   {"a":"SetValue","p":1,"via":..,"t":"1e3"}         set_value (type guessing)
//!   {"a":"SetString","p":1,"via":..,"t":".."}         set_value_string
//!   {"a":"SetNumber","p":1,"via":..,"bits":"..","as":"f64"|"i32"}   set_value_number
//!   {"a":"SetBool","p":1,"via":..,"b":true}           set_value_bool
//!   {"a":"SetRich","p":1,"via":..,"runs":[["ab",true],..]}          set_rich_text
//!   {"a":"SetBlank","p":1,"via":..}                   set_blank
//!   {"a":"SetFormula","p":1,"via":..,"t":"A1+1"}      set_formula
//!   {"a":"RemoveFormula","p":1}                       CellValue::remove_formula
//!   {"a":"SetResult","p":1,"via":..,"t":".."}         set_formula_result_default
//!   {"a":"SetError","p":1,"via":..,"t":"#N/A"}        set_error
//!   {"a":"SetLazy","p":1,"via":..,"t":".."}           set_value_lazy
//!   {"a":"GetLazy","p":1,"via":"cell"|"cv"}           get_value_lazy (logs "ret")
//!   {"a":"Remove","p":1}                              Worksheet::remove_cell (logs "retb")
//!   {"a":"CopyValue","p":src,"q":dst}                 get_cell_value(src).clone() -> get_cell_mut(dst).set_cell_value
//!   {"a":"CopyCell","p":src,"q":dst}                  get_cell(src).clone(), coordinate rewritten, Worksheet::set_cell
//!                                                     (no source cell: nothing is done, "ret" = "nocell")
//!   {"a":"SaveLoad","w":"std"|"light"}                write_writer(_light) into memory, read_reader(.., true)
//! Every step yields one event: the step's fields, "tc" (the characters of t), "ret"/"retb", "outcome", "msg" and
//! "obs" = for both positions the projection through every getter in scope, at three levels:
//!   w = Worksheet::{get_value, get_value_number, get_formatted_value}          (always defined)
//!   v = Worksheet::get_cell_value(p) -> CellValue getters                       (always defined)
//!   c = Worksheet::get_cell(p) -> Cell getters ("present": false and v's values if there is no cell)
//! Numbers are logged as records {cls: none|fin|inf|nan, neg, digs, e, bits}: digs = the shortest round-trip decimal
//! digits without leading/trailing zeros, value = d.igs x 10^e (std's {:e} formatting); "reread" = the text of
//! get_value parses (std) to the very same f64; "valc" = the characters of that text (number cells only).
//! The driver never judges.
use serde_json::{json, Value};
use std::io::Cursor;
use std::panic::{catch_unwind, AssertUnwindSafe};
use umya_spreadsheet::structs::{Cell, CellRawValue, CellValue, RichText, Spreadsheet, TextElement, Worksheet};
use uverif::*;

fn main() {
    serve(run);
}

fn chars(t: &str) -> Value {
    Value::Array(t.chars().map(|ch| Value::String(ch.to_string())).collect())
}

fn numrec(x: Option<f64>) -> Value {
    match x {
        None => json!({"cls":"none","neg":false,"digs":"","e":0,"bits":""}),
        Some(x) if x.is_nan() => json!({"cls":"nan","neg":x.is_sign_negative(),"digs":"","e":0,"bits":f64_bits(x)}),
        Some(x) if x.is_infinite() => json!({"cls":"inf","neg":x.is_sign_negative(),"digs":"","e":0,"bits":f64_bits(x)}),
        Some(x) => {
            let neg = x.is_sign_negative();
            if x == 0.0 {
                return json!({"cls":"fin","neg":neg,"digs":"","e":0,"bits":f64_bits(x)});
            }
            let s = format!("{:e}", x.abs());
            let (m, e) = s.split_once('e').expect("exp");
            let digs: String = m.chars().filter(|c| *c != '.').collect();
            let digs = digs.trim_end_matches('0').to_string();
            json!({"cls":"fin","neg":neg,"digs":digs,"e":e.parse::<i64>().expect("exp int"),"bits":f64_bits(x)})
        }
    }
}

fn raw_kind(v: &CellRawValue) -> (&'static str, String) {
    match v {
        CellRawValue::String(t) => ("str", t.to_string()),
        CellRawValue::RichText(_) => ("rich", String::new()),
        CellRawValue::Numeric(_) => ("num", String::new()),
        CellRawValue::Bool(b) => ("bool", (if *b { "TRUE" } else { "FALSE" }).to_string()),
        CellRawValue::Error(e) => ("err", e.to_string()),
        CellRawValue::Empty => ("blank", String::new()),
        CellRawValue::Lazy(t) => ("lazy", t.to_string()),
    }
}

fn runs_of(rt: &Option<RichText>) -> Value {
    match rt {
        None => json!([]),
        Some(rt) => Value::Array(
            rt.get_rich_text_elements()
                .iter()
                .map(|te| json!([te.get_text(), te.get_font().map(|f| *f.get_bold()).unwrap_or(false)]))
                .collect(),
        ),
    }
}

fn reread(val: &str, num: Option<f64>) -> bool {
    match num {
        None => false,
        Some(x) => match val.parse::<f64>() {
            Ok(y) => y.to_bits() == x.to_bits(),
            Err(_) => false,
        },
    }
}

fn proj_cv(cv: &CellValue) -> Value {
    let (rk, rt) = raw_kind(cv.get_raw_value());
    let val = cv.get_value().to_string();
    let num = cv.get_value_number();
    let rich = cv.get_raw_value().get_rich_text();
    json!({
        "dt": cv.get_data_type(), "valc": if num.is_some() { chars(&val) } else { json!([]) },
        "val": val, "hasnum": num.is_some(), "num": numrec(num), "reread": reread(&val, num),
        "iserr": cv.is_error(), "rawiserr": cv.get_raw_value().is_error(), "isf": cv.is_formula(), "ft": cv.get_formula(),
        "hasfobj": cv.get_formula_obj().is_some(),
        "empty": cv.is_empty(), "rawempty": cv.get_raw_value().is_empty(), "rk": rk, "rt": rt,
        "rawdt": cv.get_raw_value().get_data_type(), "rawstr": cv.get_raw_value().to_string(),
        "hasrich": rich.is_some(), "runs": runs_of(&rich),
    })
}

fn proj_cell(c: &Cell) -> Value {
    let (rk, rt) = raw_kind(c.get_raw_value());
    let val = c.get_value().to_string();
    let num = c.get_value_number();
    let rich = c.get_raw_value().get_rich_text();
    json!({
        "present": true,
        "col": (*c.get_coordinate().get_col_num()).min(2_000_000_000), "row": (*c.get_coordinate().get_row_num()).min(2_000_000_000),
        "dt": c.get_data_type(), "val": val, "hasnum": num.is_some(), "num": numrec(num), "reread": reread(&val, num),
        "isf": c.is_formula(), "ft": c.get_formula(), "hasfobj": c.get_formula_obj().is_some(),
        "rk": rk, "rt": rt, "hasrich": rich.is_some(), "runs": runs_of(&rich),
        "fmt": c.get_formatted_value(),
    })
}

fn absent_cell() -> Value {
    json!({
        "present": false, "col": 0, "row": 0,
        "dt": "", "val": "", "hasnum": false, "num": numrec(None), "reread": false,
        "isf": false, "ft": "", "hasfobj": false, "rk": "blank", "rt": "", "hasrich": false, "runs": [], "fmt": "",
    })
}

fn project(ws: &Worksheet) -> Value {
    let mut out = vec![];
    for p in 1u32..=2 {
        let wnum = ws.get_value_number((p, 1u32));
        let wval = ws.get_value((p, 1u32));
        let w = json!({"val": wval, "hasnum": wnum.is_some(), "num": numrec(wnum), "fmt": ws.get_formatted_value((p, 1u32)),
                       "sval": ws.get_value(if p == 1 { "A1" } else { "B1" })});
        let v = proj_cv(ws.get_cell_value((p, 1u32)));
        let c = match ws.get_cell((p, 1u32)) {
            Some(c) => proj_cell(c),
            None => absent_cell(),
        };
        out.push(json!({"w": w, "v": v, "c": c}));
    }
    out.push(json!(ws.get_cell_collection().len().min(1000)));
    Value::Array(out)
}

fn rich_of(st: &Value) -> RichText {
    let mut rt = RichText::default();
    for run in st["runs"].as_array().expect("runs") {
        let mut te = TextElement::default();
        te.set_text(run[0].as_str().unwrap());
        if run[1].as_bool().unwrap() {
            te.get_font_mut().set_bold(true);
        }
        rt.add_rich_text_elements(te);
    }
    rt
}

/// the setter of step `st` on a CellValue
fn set_on_cv(cv: &mut CellValue, st: &Value) {
    match s(st, "a") {
        "SetValue" => {
            cv.set_value(s(st, "t"));
        }
        "SetString" => {
            cv.set_value_string(s(st, "t"));
        }
        "SetNumber" => {
            let x = f64_from_bits(s(st, "bits"));
            if s(st, "as") == "i32" {
                cv.set_value_number(x as i32);
            } else {
                cv.set_value_number(x);
            }
        }
        "SetBool" => {
            cv.set_value_bool(b(st, "b"));
        }
        "SetRich" => {
            cv.set_rich_text(rich_of(st));
        }
        "SetBlank" => {
            cv.set_blank();
        }
        "SetFormula" => {
            cv.set_formula(s(st, "t"));
        }
        "SetResult" => {
            cv.set_formula_result_default(s(st, "t"));
        }
        "SetError" => {
            cv.set_error(s(st, "t"));
        }
        "SetLazy" => {
            cv.set_value_lazy(s(st, "t"));
        }
        other => panic!("unknown setter {}", other),
    }
}

/// the same setter through Cell's own methods
fn set_on_cell(c: &mut Cell, st: &Value) {
    match s(st, "a") {
        "SetValue" => {
            c.set_value(s(st, "t"));
        }
        "SetString" => {
            c.set_value_string(s(st, "t"));
        }
        "SetNumber" => {
            let x = f64_from_bits(s(st, "bits"));
            if s(st, "as") == "i32" {
                c.set_value_number(x as i32);
            } else {
                c.set_value_number(x);
            }
        }
        "SetBool" => {
            c.set_value_bool(b(st, "b"));
        }
        "SetRich" => {
            c.set_rich_text(rich_of(st));
        }
        "SetBlank" => {
            c.set_blank();
        }
        "SetFormula" => {
            c.set_formula(s(st, "t"));
        }
        "SetResult" => {
            c.set_formula_result_default(s(st, "t"));
        }
        "SetError" => {
            c.set_error(s(st, "t"));
        }
        "SetLazy" => {
            c.set_value_lazy(s(st, "t"));
        }
        other => panic!("unknown setter {}", other),
    }
}

fn apply(ws: &mut Worksheet, st: &Value, e: &mut Value) {
    let a = s(st, "a");
    let p = u(st, "p");
    match a {
        "Touch" => {
            ws.get_cell_mut((p, 1u32));
        }
        "RemoveFormula" => {
            ws.get_cell_value_mut((p, 1u32)).remove_formula();
        }
        "GetLazy" => {
            let r = if s(st, "via") == "cv" {
                ws.get_cell_value_mut((p, 1u32)).get_value_lazy().to_string()
            } else {
                ws.get_cell_mut((p, 1u32)).get_value_lazy().to_string()
            };
            e["ret"] = json!(r);
        }
        "Remove" => {
            let r = ws.remove_cell((p, 1u32));
            e["retb"] = json!(r);
        }
        "CopyValue" => {
            let q = u(st, "q");
            let cv = ws.get_cell_value((p, 1u32)).clone();
            ws.get_cell_mut((q, 1u32)).set_cell_value(cv);
        }
        "CopyCell" => {
            let q = u(st, "q");
            // (a copy needs a source: without one the step does nothing and says so)
            match ws.get_cell((p, 1u32)).cloned() {
                Some(mut c) => {
                    c.get_coordinate_mut().set_col_num(q);
                    ws.set_cell(c);
                }
                None => e["ret"] = json!("nocell"),
            }
        }
        _ => match s(st, "via") {
            "cell" => set_on_cell(ws.get_cell_mut((p, 1u32)), st),
            "cv" => set_on_cv(ws.get_cell_value_mut((p, 1u32)), st),
            "obj" => {
                let mut cv = ws.get_cell_value((p, 1u32)).clone();
                set_on_cv(&mut cv, st);
                ws.get_cell_mut((p, 1u32)).set_cell_value(cv);
            }
            other => panic!("unknown via {}", other),
        },
    }
}

fn save_load(book: &Spreadsheet, light: bool) -> Result<Spreadsheet, String> {
    let mut buf: Vec<u8> = Vec::new();
    {
        let cur = Cursor::new(&mut buf);
        let res = if light {
            umya_spreadsheet::writer::xlsx::write_writer_light(book, cur)
        } else {
            umya_spreadsheet::writer::xlsx::write_writer(book, cur)
        };
        if let Err(err) = res {
            return Err(format!("write: {:?}", err));
        }
    }
    umya_spreadsheet::reader::xlsx::read_reader(Cursor::new(buf), true).map_err(|err| format!("read: {:?}", err))
}

fn run(case: &Value) -> Vec<Value> {
    let id = case["case"].clone();
    let steps = case["steps"].as_array().expect("steps");
    let mut events = vec![];
    let mut book = umya_spreadsheet::new_file();
    for st in steps {
        let mut e = st.clone();
        e["case"] = id.clone();
        e["msg"] = json!("");
        e["ret"] = json!("");
        e["retb"] = json!(false);
        e["tc"] = chars(st["t"].as_str().unwrap_or(""));
        let a = s(st, "a");
        let outcome = if a == "Init" {
            "ok"
        } else if a == "SaveLoad" {
            let light = s(st, "w") == "light";
            match catch_unwind(AssertUnwindSafe(|| save_load(&book, light))) {
                Ok(Ok(nb)) => {
                    book = nb;
                    "ok"
                }
                Ok(Err(m)) => {
                    e["msg"] = json!(m);
                    "err"
                }
                Err(p) => {
                    e["msg"] = json!(panic_msg(&p));
                    "panic"
                }
            }
        } else {
            let ws = book.get_sheet_mut(&0).expect("sheet 0");
            match catch_unwind(AssertUnwindSafe(|| apply(ws, st, &mut e))) {
                Ok(()) => "ok",
                Err(p) => {
                    e["msg"] = json!(panic_msg(&p));
                    "panic"
                }
            }
        };
        e["outcome"] = json!(outcome);
        let obs = catch_unwind(AssertUnwindSafe(|| project(book.get_sheet(&0).expect("sheet 0"))));
        e["obs"] = match obs {
            Ok(v) => v,
            Err(_) => {
                e["outcome"] = json!("panic");
                json!([])
            }
        };
        events.push(e);
    }
    events
}
