//! Domain `pwdhash` (C15): protection password verifiers of sheets, the workbook and revisions.
//!
//! A case is a history over one workbook ("new" or a corpus file):
//!   {"case":id, "base":"new"|"sheet_lock"|"book_lock", "steps":[
//!      {"a":"Legacy","kind":k,"v":"CC1A"}      set_*_password_raw(v)
//!      {"a":"Set","kind":k,"pw":p,"others":[..]}   set_password / set_workbook_password / set_revisions_password
//!      {"a":"Save","writer":"std"|"light"}     write_writer / write_writer_light into memory
//!      {"a":"Load","lazy":bool}                read_reader(bytes of the last Save, !lazy) (+ read_sheet(i) if lazy)
//!   ]}
//! kinds: "sheet1" / "sheet2" (sheets 0 and 1), "workbook", "revisions".
//! Every step is performed on the workbook and on a *shadow* workbook that gets a fixed decoy
//! password instead (baseline for the clear-text search: both differ only in the password).
//! Events carry the public getters of all four objects after the step (obs / sobs) and, for Save,
//! the written bytes as hex (decoded by the independent Python projection).  Nothing is judged here.
use serde_json::{json, Value};
use std::io::Cursor;
use std::panic::{catch_unwind, AssertUnwindSafe};
use umya_spreadsheet::structs::{SheetProtection, Spreadsheet, WorkbookProtection};
use uverif::*;

const KINDS: [&str; 4] = ["sheet1", "sheet2", "workbook", "revisions"];
const DECOY: &str = "\u{f8ff}\u{e000}\u{f8ff}";

fn main() {
    serve(run);
}

fn rec(alg: &str, salt: &str, spin: u32, hash: &str, legacy: &str) -> Value {
    json!({"alg": alg, "salt": salt, "spin": spin, "hash": hash, "legacy": legacy})
}

fn sheet_rec(p: Option<&SheetProtection>) -> Value {
    match p {
        Some(p) => rec(
            p.get_algorithm_name(),
            p.get_salt_value(),
            *p.get_spin_count(),
            p.get_hash_value(),
            p.get_password_raw(),
        ),
        None => rec("", "", 0, "", ""),
    }
}

fn wb_rec(p: Option<&WorkbookProtection>, revisions: bool) -> Value {
    match (p, revisions) {
        (Some(p), false) => rec(
            p.get_workbook_algorithm_name(),
            p.get_workbook_salt_value(),
            *p.get_workbook_spin_count(),
            p.get_workbook_hash_value(),
            p.get_workbook_password_raw(),
        ),
        (Some(p), true) => rec(
            p.get_revisions_algorithm_name(),
            p.get_revisions_salt_value(),
            *p.get_revisions_spin_count(),
            p.get_revisions_hash_value(),
            p.get_revisions_password_raw(),
        ),
        (None, _) => rec("", "", 0, "", ""),
    }
}

/// projection of the model: kind -> [alg, salt, spin, hash, legacy] through public getters
fn project(book: &Spreadsheet) -> Value {
    json!({
        "sheet1": sheet_rec(book.get_sheet(&0).and_then(|s| s.get_sheet_protection())),
        "sheet2": sheet_rec(book.get_sheet(&1).and_then(|s| s.get_sheet_protection())),
        "workbook": wb_rec(book.get_workbook_protection(), false),
        "revisions": wb_rec(book.get_workbook_protection(), true),
    })
}

fn open(base: &str) -> Spreadsheet {
    let repo = std::env::var("VERIF_REPO").unwrap_or_else(|_| "/repo".to_string());
    let mut book = match base {
        "new" => umya_spreadsheet::new_file(),
        "sheet_lock" | "book_lock" => {
            let p = format!("{}/tests/test_files/{}.xlsx", repo, base);
            umya_spreadsheet::reader::xlsx::read(std::path::Path::new(&p)).expect("corpus file")
        }
        _ => panic!("unknown base {}", base),
    };
    while book.get_sheet_count() < 2 {
        let name = format!("VerifSheet{}", book.get_sheet_count() + 1);
        book.new_sheet(name).expect("new sheet");
    }
    book
}

fn set_legacy(book: &mut Spreadsheet, kind: &str, v: &str) {
    match kind {
        "sheet1" => {
            book.get_sheet_mut(&0).unwrap().get_sheet_protection_mut().set_password_raw(v);
        }
        "sheet2" => {
            book.get_sheet_mut(&1).unwrap().get_sheet_protection_mut().set_password_raw(v);
        }
        "workbook" => {
            book.get_workbook_protection_mut().set_workbook_password_raw(v);
        }
        "revisions" => {
            book.get_workbook_protection_mut().set_revisions_password_raw(v);
        }
        _ => panic!("unknown kind {}", kind),
    }
}

fn set_password(book: &mut Spreadsheet, kind: &str, pw: &str) {
    match kind {
        "sheet1" => {
            book.get_sheet_mut(&0).unwrap().get_sheet_protection_mut().set_password(pw);
        }
        "sheet2" => {
            book.get_sheet_mut(&1).unwrap().get_sheet_protection_mut().set_password(pw);
        }
        "workbook" => {
            book.get_workbook_protection_mut().set_workbook_password(pw);
        }
        "revisions" => {
            book.get_workbook_protection_mut().set_revisions_password(pw);
        }
        _ => panic!("unknown kind {}", kind),
    }
}

fn save(book: &Spreadsheet, writer: &str) -> Result<Vec<u8>, String> {
    let mut buf: Vec<u8> = Vec::new();
    let r = match writer {
        "std" => umya_spreadsheet::writer::xlsx::write_writer(book, &mut buf),
        "light" => umya_spreadsheet::writer::xlsx::write_writer_light(book, &mut buf),
        _ => panic!("unknown writer {}", writer),
    };
    match r {
        Ok(()) => Ok(buf),
        Err(e) => Err(format!("{:?}", e)),
    }
}

/// eager: read_reader(.., true); lazy: read_reader(.., false) followed by read_sheet(i) for the
/// sheets whose getters are read (the documented contract of lazy reading)
fn load(bytes: &[u8], lazy: bool) -> Result<Spreadsheet, String> {
    let mut book = umya_spreadsheet::reader::xlsx::read_reader(Cursor::new(bytes.to_vec()), !lazy)
        .map_err(|e| format!("{:?}", e))?;
    if lazy {
        let n = book.get_sheet_count().min(2);
        for i in 0..n {
            book.read_sheet(i);
        }
    }
    Ok(book)
}

fn hex(b: &[u8]) -> String {
    const D: &[u8; 16] = b"0123456789abcdef";
    let mut s = String::with_capacity(b.len() * 2);
    for x in b {
        s.push(D[(x >> 4) as usize] as char);
        s.push(D[(x & 15) as usize] as char);
    }
    s
}

fn run(case: &Value) -> Vec<Value> {
    let id = case["case"].clone();
    let base = s(case, "base");
    let mut events: Vec<Value> = vec![];
    let opened = catch_unwind(|| (open(base), open(base)));
    let (mut book, mut shadow) = match opened {
        Ok(x) => x,
        Err(p) => {
            return vec![json!({"a":"Init","case":id,"i":0,"base":base,"outcome":"panic","msg":panic_msg(&p)})];
        }
    };
    events.push(json!({"a":"Init","case":id,"i":0,"base":base,"outcome":"ok",
                       "obs":project(&book),"sobs":project(&shadow)}));
    let mut last: Option<(Vec<u8>, Vec<u8>)> = None;
    let empty = vec![];
    for (n, st) in case["steps"].as_array().unwrap_or(&empty).iter().enumerate() {
        let a = s(st, "a");
        let mut ev = st.clone();
        ev["case"] = id.clone();
        ev["i"] = json!(n + 1);
        let r = catch_unwind(AssertUnwindSafe(|| -> Result<Value, String> {
            match a {
                "Legacy" => {
                    set_legacy(&mut book, s(st, "kind"), s(st, "v"));
                    set_legacy(&mut shadow, s(st, "kind"), s(st, "v"));
                    Ok(json!({}))
                }
                "Set" => {
                    set_password(&mut book, s(st, "kind"), s(st, "pw"));
                    set_password(&mut shadow, s(st, "kind"), DECOY);
                    Ok(json!({}))
                }
                "Save" => {
                    let f = save(&book, s(st, "writer"))?;
                    let g = save(&shadow, s(st, "writer"))?;
                    let v = json!({"file_hex": hex(&f), "sfile_hex": hex(&g)});
                    last = Some((f, g));
                    Ok(v)
                }
                "Load" => {
                    let (f, g) = last.clone().expect("Load without a previous Save");
                    let lazy = st["lazy"].as_bool().unwrap_or(false);
                    book = load(&f, lazy)?;
                    shadow = load(&g, lazy)?;
                    Ok(json!({}))
                }
                _ => panic!("unknown pwdhash action {}", a),
            }
        }));
        let mut stop = false;
        match r {
            Ok(Ok(extra)) => {
                ev["outcome"] = json!("ok");
                if let Some(m) = extra.as_object() {
                    for (k, v) in m {
                        ev[k.as_str()] = v.clone();
                    }
                }
            }
            Ok(Err(e)) => {
                ev["outcome"] = json!("err");
                ev["msg"] = json!(e);
                stop = true;
            }
            Err(p) => {
                ev["outcome"] = json!("panic");
                ev["msg"] = json!(panic_msg(&p));
                stop = true;
            }
        }
        if !stop && a != "Save" {
            let pr = catch_unwind(AssertUnwindSafe(|| (project(&book), project(&shadow))));
            match pr {
                Ok((o, so)) => {
                    ev["obs"] = o;
                    ev["sobs"] = so;
                }
                Err(p) => {
                    ev["outcome"] = json!("panic");
                    ev["msg"] = json!(panic_msg(&p));
                    stop = true;
                }
            }
        }
        events.push(ev);
        if stop {
            break;
        }
    }
    let _ = KINDS;
    events
}
