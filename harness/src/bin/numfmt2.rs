//! Domain `numfmt2` (X04): helper::number_format::to_formatted_string, Cell::get_formatted_value and
//! Worksheet::get_formatted_value on multi-section formats, literals, colour / condition / currency
//! brackets, scaling commas, optional-digit placeholders, scientific notation, fractions, the text
//! section and date/time codes.
//!
//! One case = one batch: {"a": "render", "case": n, "items": [item..]}.  An item names the value
//! (`kind` "num": the decimal string `s`; "text": the text `s`) and the format code `fmt`; every other
//! field of the item (the token structure the specification renders from) is passed through
//! untouched.  The driver never judges.  Facts it adds with Rust's std only (never the library):
//!   rt     `s` is exactly what `f64::to_string` prints for the parsed number
//!   isnum  whether std's f64 parser accepts `s`
//!   h24    `(|x| * 24.0).to_string()`, fr1 `(|x| % 1.0).to_string()`, dv `[(|x| / 1e3).to_string(), (|x| / 1e6)..]`:
//!          the trace specification requires them to equal the exact decimal results wherever the deviant
//!          outcome of a recorded finding is a function of that binary arithmetic ("" when `s` is no number)
//!   outc   the characters of `out` (TLC cannot look into a string)
use serde_json::{json, Value};
use umya_spreadsheet::helper::number_format::to_formatted_string;
use uverif::*;

fn main() {
    serve(run);
}

fn run(case: &Value) -> Vec<Value> {
    let a = s(case, "a");
    let id = case["case"].clone();
    if a != "render" {
        panic!("unknown numfmt2 action {}", a);
    }
    let items_in = case["items"].as_array().expect("items");
    let mut out_items = vec![];
    for it in items_in {
        let kind = s(it, "kind").to_string();
        let st = s(it, "s").to_string();
        let fmt = s(it, "fmt").to_string();
        let parsed = st.parse::<f64>();
        let isnum = parsed.is_ok();
        let rt = match &parsed {
            Ok(x) => x.is_finite() && x.to_string() == st,
            Err(_) => false,
        };
        if kind == "num" && !isnum {
            panic!("numeric item with non-numeric s {}", st);
        }
        let (s1, f1) = (st.clone(), fmt.clone());
        let out = guard(move || json!(to_formatted_string(&s1, &f1)));
        let (s2, f2, k2) = (st.clone(), fmt.clone(), kind.clone());
        let cellres = guard(move || {
            let mut book = umya_spreadsheet::new_file();
            let ws = book.get_sheet_mut(&0).unwrap();
            if k2 == "num" {
                ws.get_cell_mut("B2").set_value_number(s2.parse::<f64>().unwrap());
            } else {
                ws.get_cell_mut("B2").set_value_string(s2.clone());
            }
            ws.get_style_mut("B2").get_number_format_mut().set_format_code(f2);
            let w = ws.get_formatted_value("B2");
            let c = ws.get_cell("B2").unwrap().get_formatted_value();
            json!([w, c])
        });
        let (outws, outcell) = match &cellres {
            Value::Array(v) => (v[0].clone(), v[1].clone()),
            _ => (json!("panic"), json!("panic")),
        };
        let mut o = it.clone();
        let (h24, fr1, dv) = match &parsed {
            Ok(x) if x.is_finite() => {
                let a = x.abs();
                ((a * 24f64).to_string(), (a % 1f64).to_string(), vec![(a / 1e3).to_string(), (a / 1e6).to_string()])
            }
            _ => (String::new(), String::new(), vec![String::new(), String::new()]),
        };
        o["h24"] = json!(h24);
        o["fr1"] = json!(fr1);
        o["dv"] = json!(dv);
        let outc: Vec<String> = match &out {
            Value::String(t) => t.chars().map(|c| c.to_string()).collect(),
            _ => vec![],
        };
        o["outc"] = json!(outc);
        o["rt"] = json!(rt);
        o["isnum"] = json!(isnum);
        o["out"] = out;
        o["outws"] = outws;
        o["outcell"] = outcell;
        out_items.push(finish(o));
    }
    vec![json!({"a": "render", "case": id, "items": out_items})]
}
