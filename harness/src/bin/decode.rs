//! Domain `decode` (C03): the reader against an independent decoder (spec/Decode.tla).
//!
//! case = {"case": id, "path": "<file.xlsx>"}
//! The file is loaded with reader::xlsx::read_reader(File, true) (eager, what reader::xlsx::read
//! does) under catch_unwind and the loaded workbook is dumped through public getters only:
//!   Spreadsheet::get_sheet_collection / get_defined_names,
//!   Worksheet::get_name / get_cell_collection_sorted / get_defined_names / get_tables,
//!   Cell::get_coordinate / get_raw_value / get_value / get_value_number / get_formula /
//!         get_style().get_number_format() / get_hyperlink,
//!   RichText::get_rich_text_elements, TextElement::get_text, Table::get_columns, TableColumn::get_name,
//!   DefinedName::get_name / get_address / has_local_sheet_id.
//! One event per case:
//!   {"a":"Load","case":id,"outcome":"ok"|"err"|"panic","msg":..,
//!    "sheets":[{"name","cells":[{"r","c","k","v","b","f","hf","fmt","fid","runs":[..],"hl","url","loc","tip"}],
//!               "names":[{"name","addr","local"}],"tables":[{"name","cols":[..]}]}],
//!    "names":[{"name","addr","local"}]}
//! h2 / fid2 / fmt2: the cell's number format once more after the loaded workbook was written with write_writer and
//! read again in memory (h2 = the cell exists there); a probe of what the loaded workbook holds, not of the writer.
//! k = text | rich | num | bool | err | blank | lazy; b = bit pattern of get_value_number (16 hex
//! digits, "" unless numeric); hf = a formula object is present; fmt = format code of the resolved
//! number format ("General" when the style has none), fid its number format id (0 when none).  The driver never judges: the dump is paired
//! with the independent decoder's extraction by checks/c03.py and judged by TLC (Trace_Decode.tla).
use serde_json::{json, Value};
use std::panic::{catch_unwind, AssertUnwindSafe};
use umya_spreadsheet::structs::{CellRawValue, DefinedName, Spreadsheet, Worksheet};
use uverif::*;

fn main() {
    serve(run);
}

const OOB: u32 = 2_000_000_000;

fn kind_of(v: &CellRawValue) -> &'static str {
    match v {
        CellRawValue::String(_) => "text",
        CellRawValue::RichText(_) => "rich",
        CellRawValue::Numeric(_) => "num",
        CellRawValue::Bool(_) => "bool",
        CellRawValue::Error(_) => "err",
        CellRawValue::Empty => "blank",
        CellRawValue::Lazy(_) => "lazy",
    }
}

fn names_of(list: &[DefinedName]) -> Value {
    Value::Array(
        list.iter()
            .map(|d| {
                json!({"name": d.get_name(), "addr": d.get_address(),
                       "local": if d.has_local_sheet_id() { *d.get_local_sheet_id() as i64 } else { -1 }})
            })
            .collect(),
    )
}

fn dump_sheet(ws: &Worksheet) -> Value {
    let mut cells = vec![];
    for c in ws.get_cell_collection_sorted() {
        let co = c.get_coordinate();
        let raw = c.get_raw_value();
        let runs: Vec<Value> = match raw {
            CellRawValue::RichText(rt) => rt.get_rich_text_elements().iter().map(|e| json!(e.get_text())).collect(),
            _ => vec![],
        };
        let fmt = c
            .get_style()
            .get_number_format()
            .map(|n| n.get_format_code().to_string())
            .unwrap_or_else(|| "General".to_string());
        let fid = c.get_style().get_number_format().map(|n| *n.get_number_format_id()).unwrap_or(0).min(OOB);
        let (hl, url, loc, tip) = match c.get_hyperlink() {
            Some(h) => (true, h.get_url().to_string(), *h.get_location(), h.get_tooltip().to_string()),
            None => (false, String::new(), false, String::new()),
        };
        cells.push(json!({
            "r": (*co.get_row_num()).min(OOB), "c": (*co.get_col_num()).min(OOB),
            "k": kind_of(raw), "v": c.get_value().to_string(),
            "b": c.get_value_number().map(f64_bits).unwrap_or_default(),
            "f": c.get_formula(), "hf": c.is_formula(), "fmt": fmt, "fid": fid, "runs": runs,
            "hl": hl, "url": url, "loc": loc, "tip": tip,
        }));
    }
    let tables: Vec<Value> = ws
        .get_tables()
        .iter()
        .map(|t| json!({"name": t.get_name(), "cols": t.get_columns().iter().map(|c| json!(c.get_name())).collect::<Vec<_>>()}))
        .collect();
    json!({"name": ws.get_name(), "cells": cells, "names": names_of(ws.get_defined_names()), "tables": tables})
}

/// The number format of every cell once more, after the loaded workbook went through write_writer + read_reader in
/// memory: (sheet index, row, col) -> (format id, format code).  Only used for "fid2"/"fmt2"/"h2" of the dump: what the
/// loaded workbook says its number formats are when it is asked to write them down.
fn resaved_formats(book: &Spreadsheet) -> Option<std::collections::HashMap<(usize, u32, u32), (u32, String)>> {
    let res = catch_unwind(AssertUnwindSafe(|| {
        let mut buf: Vec<u8> = Vec::new();
        umya_spreadsheet::writer::xlsx::write_writer(book, std::io::Cursor::new(&mut buf)).ok()?;
        let again = umya_spreadsheet::reader::xlsx::read_reader(std::io::Cursor::new(buf), true).ok()?;
        let mut map = std::collections::HashMap::new();
        for (si, ws) in again.get_sheet_collection().iter().enumerate() {
            for c in ws.get_cell_collection_sorted() {
                let co = c.get_coordinate();
                let nf = c.get_style().get_number_format();
                map.insert(
                    (si, *co.get_row_num(), *co.get_col_num()),
                    (nf.map(|n| *n.get_number_format_id()).unwrap_or(0).min(OOB),
                     nf.map(|n| n.get_format_code().to_string()).unwrap_or_else(|| "General".to_string())),
                );
            }
        }
        Some(map)
    }));
    res.ok().flatten()
}

fn dump(book: &Spreadsheet) -> (Value, Value) {
    let mut sheets: Vec<Value> = book.get_sheet_collection().iter().map(dump_sheet).collect();
    let again = resaved_formats(book);
    for (si, sh) in sheets.iter_mut().enumerate() {
        for c in sh["cells"].as_array_mut().unwrap() {
            let key = (si, c["r"].as_u64().unwrap() as u32, c["c"].as_u64().unwrap() as u32);
            match again.as_ref().and_then(|m| m.get(&key)) {
                Some((fid, fmt)) => {
                    c["h2"] = json!(true);
                    c["fid2"] = json!(fid);
                    c["fmt2"] = json!(fmt);
                }
                None => {
                    c["h2"] = json!(false);
                    c["fid2"] = json!(0);
                    c["fmt2"] = json!("");
                }
            }
        }
    }
    (Value::Array(sheets), names_of(book.get_defined_names()))
}

fn run(case: &Value) -> Vec<Value> {
    let id = case["case"].clone();
    let path = s(case, "path").to_string();
    let mut e = json!({"a": "Load", "case": id, "path": path, "msg": "", "sheets": [], "names": []});
    let loaded = catch_unwind(AssertUnwindSafe(|| {
        let file = std::fs::File::open(&path).map_err(|x| format!("open: {:?}", x))?;
        umya_spreadsheet::reader::xlsx::read_reader(file, true).map_err(|x| format!("read: {:?}", x))
    }));
    let outcome = match loaded {
        Ok(Ok(book)) => match catch_unwind(AssertUnwindSafe(|| dump(&book))) {
            Ok((sheets, names)) => {
                e["sheets"] = sheets;
                e["names"] = names;
                "ok"
            }
            Err(p) => {
                e["msg"] = json!(format!("dump: {}", panic_msg(&p)));
                "panic"
            }
        },
        Ok(Err(m)) => {
            e["msg"] = json!(m);
            "err"
        }
        Err(p) => {
            e["msg"] = json!(panic_msg(&p));
            "panic"
        }
    };
    e["outcome"] = json!(outcome);
    vec![e]
}
